//go:build constantTime

package groups

import (
	"go.dedis.ch/kyber/v4/group/edwards25519"
	"go.dedis.ch/kyber/v4/pairing/bls12381/circl"
)

// Variant names the build configuration of this binary.
const Variant = "constantTime"

func PairingSuites() []PS {
	return []PS{{"circl", circl.NewSuite()}}
}

func All() []*G {
	out := []*G{
		{Name: "ed25519", Group: edwards25519.NewBlakeSHA256Ed25519(), MulNil: true, Base: true, Pick: true, Embed: true, Family: "ed25519", Order: OrderEd25519},
	}
	return pairingGroups(out, PairingSuites())
}

func Extra() []*G { return nil }

// ExtraLarge: see groups_default.go.
func ExtraLarge() []*G { return nil }
