// Package groups is the registry of the group instances kyber exposes.
package groups

import (
	"math/big"

	"go.dedis.ch/kyber/v4"
	"go.dedis.ch/kyber/v4/pairing"
)

// G is one group instance with its static capability table (what works on
// the unchanged tree; listed-and-panics is a violation, unlisted is skipped).
type G struct {
	Name    string
	Group   kyber.Group
	VarTime bool // call AllowVarTime(true) on every fresh point
	// capabilities
	MulNil bool // Mul(s,nil) multiplies the base
	Base   bool
	Pick   bool
	Embed  bool
	Hash   bool // hash-to-group through HashablePoint
	Slow   bool // expensive scalar multiplication
	Family string
	Order  *big.Int      // written out here, not read from kyber
	Suite  pairing.Suite // pairing groups only
	Kind   string        // "G1","G2","GT" or ""
}

func bigs(s string) *big.Int {
	v, ok := new(big.Int).SetString(s, 0)
	if !ok {
		panic(s)
	}
	return v
}

// Orders of the groups, transcribed from the standards.
var (
	OrderEd25519 = bigs("7237005577332262213973186563042994240857116359379907606001950938285454250989")
	OrderP256    = bigs("0xffffffff00000000ffffffffffffffffbce6faada7179e84f3b9cac2fc632551")
	OrderQR512   = bigs("5099133861178675934299038070513690140208594154615901954959232152506056770707302268711370548280642524887896017588520836152823386566007063045571431221913131")
	OrderBN256   = bigs("65000549695646603732796438742359905742570406053903786389881062969044166799969")
	OrderBN254   = bigs("21888242871839275222246405745257275088548364400416034343698204186575808495617")
	OrderBLS     = bigs("0x73eda753299d7d483339d80809a1d80553bda402fffe5bfeffffffff00000001")
)

// Gen returns the generator the group's protocols use: Base() where offered,
// else (kilic GT) the pairing of the two generators.
func (g *G) Gen() kyber.Point {
	if g.Base {
		return g.Point().Base()
	}
	return g.Suite.Pair(g.Suite.G1().Point().Base(), g.Suite.G2().Point().Base())
}

// ByName finds a group instance.
func ByName(n string) *G {
	for _, g := range All() {
		if g.Name == n {
			return g
		}
	}
	return nil
}

// Point returns a fresh point (with the variable-time switch applied).
func (g *G) Point() kyber.Point {
	p := g.Group.Point()
	if g.VarTime {
		if v, ok := p.(kyber.AllowsVarTime); ok {
			v.AllowVarTime(true)
		}
	}
	return p
}

func (g *G) Scalar() kyber.Scalar { return g.Group.Scalar() }

type PS struct {
	Name  string
	Suite pairing.Suite
}

func pairingGroups(out []*G, pss []PS) []*G {
	for _, ps := range pss {
		q := OrderBLS
		switch ps.Name {
		case "bn256":
			q = OrderBN256
		case "bn254":
			q = OrderBN254
		}
		g1 := &G{Name: ps.Name + ".G1", Group: ps.Suite.G1(), Family: ps.Name, Order: q, Suite: ps.Suite, Kind: "G1", MulNil: true, Base: true, Pick: true, Hash: true}
		g2 := &G{Name: ps.Name + ".G2", Group: ps.Suite.G2(), Family: ps.Name, Order: q, Suite: ps.Suite, Kind: "G2", MulNil: true, Base: true, Pick: true, Hash: true}
		gt := &G{Name: ps.Name + ".GT", Group: ps.Suite.GT(), Family: ps.Name, Order: q, Suite: ps.Suite, Kind: "GT", Slow: true}
		switch ps.Name {
		case "bn256":
			g1.Embed = true
			g2.Hash = false
			gt.MulNil, gt.Base, gt.Pick = true, true, true
		case "bn254":
			g2.Hash = false
			gt.MulNil, gt.Base, gt.Pick = true, true, true
		case "kilic":
		case "circl", "gnark":
			gt.Base = true
		}
		out = append(out, g1, g2, gt)
	}
	return out
}
