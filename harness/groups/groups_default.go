//go:build !constantTime

package groups

import (
	"go.dedis.ch/kyber/v4/group/edwards25519"
	"go.dedis.ch/kyber/v4/group/edwards25519vartime"
	"go.dedis.ch/kyber/v4/group/p256"
	"go.dedis.ch/kyber/v4/pairing/bls12381/circl"
	"go.dedis.ch/kyber/v4/pairing/bls12381/gnark"
	"go.dedis.ch/kyber/v4/pairing/bls12381/kilic"
	"go.dedis.ch/kyber/v4/pairing/bn254"
	"go.dedis.ch/kyber/v4/pairing/bn256"
)

// Variant names the build configuration of this binary.
const Variant = "default"

func PairingSuites() []PS {
	return []PS{
		{"bn256", bn256.NewSuite()},
		{"bn254", bn254.NewSuite()},
		{"kilic", kilic.NewBLS12381Suite()},
		{"circl", circl.NewSuite()},
		{"gnark", gnark.NewSuite()},
	}
}

func All() []*G {
	out := []*G{
		{Name: "ed25519", Group: edwards25519.NewBlakeSHA256Ed25519(), MulNil: true, Base: true, Pick: true, Embed: true, Family: "ed25519", Order: OrderEd25519},
		{Name: "ed25519-vt", Group: edwards25519.NewBlakeSHA256Ed25519(), VarTime: true, MulNil: true, Base: true, Pick: true, Embed: true, Family: "ed25519", Order: OrderEd25519},
		{Name: "ed25519vartime", Group: edwards25519vartime.NewBlakeSHA256Ed25519(false), MulNil: true, Base: true, Pick: true, Embed: true, Slow: true, Family: "ed25519", Order: OrderEd25519},
		// the extended-coordinates implementation of the same curve (exported, not wrapped in a suite of its own)
		{Name: "ed25519vartime-ext", Group: new(edwards25519vartime.ExtendedCurve).InitCurve(edwards25519vartime.ParamEd25519(), false), MulNil: true, Base: true, Pick: true, Embed: true, Slow: true, Family: "ed25519", Order: OrderEd25519},
		{Name: "p256", Group: p256.NewBlakeSHA256P256(), MulNil: true, Base: true, Pick: true, Embed: true, Family: "p256", Order: OrderP256},
		{Name: "qr512", Group: p256.NewBlakeSHA256QR512(), MulNil: true, Base: true, Pick: true, Embed: true, Family: "qr512", Order: OrderQR512},
	}
	return pairingGroups(out, PairingSuites())
}

// Parameters of a residue group with cofactor 84 (P = 84*Q + 1), generated for
// /verif: the shipped QR512 suite is a safe-prime group (cofactor 2), where
// "quadratic residue" and "in the order-Q subgroup" coincide.
var (
	ResR84P = bigs("9516438124321917477454416659838875129485329984311068829386693")
	ResR84Q = bigs("113290930051451398541124007855224703922444404575131771778413")
	ResR84G = bigs("19342813113834066795298816")
)

// Extra returns group instances beyond the 20 the library registers: a residue
// group with a large cofactor built through the public ResidueGroup.SetParams.
func Extra() []*G {
	rg := new(p256.ResidueGroup)
	rg.SetParams(ResR84P, ResR84Q, bigs("84"), ResR84G)
	return []*G{{Name: "residue-r84", Group: rg, MulNil: true, Base: true, Pick: true, Embed: true, Family: "residue-r84", Order: ResR84Q}}
}
