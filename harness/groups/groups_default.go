//go:build !constantTime

package groups

import (
	"math/big"
	"go.dedis.ch/kyber/v4/group/edwards25519"
	"go.dedis.ch/kyber/v4/group/edwards25519vartime"
	"go.dedis.ch/kyber/v4/group/p256"
	"go.dedis.ch/kyber/v4/pairing/bls12381/circl"
	"go.dedis.ch/kyber/v4/pairing/bls12381/gnark"
	"go.dedis.ch/kyber/v4/pairing/bls12381/kilic"
	"go.dedis.ch/kyber/v4/pairing/bn254"
	"go.dedis.ch/kyber/v4/pairing/bn256"
)

// Variant names the build configuration of this binary.
const Variant = "default"

func PairingSuites() []PS {
	return []PS{
		{"bn256", bn256.NewSuite()},
		{"bn254", bn254.NewSuite()},
		{"kilic", kilic.NewBLS12381Suite()},
		{"circl", circl.NewSuite()},
		{"gnark", gnark.NewSuite()},
	}
}

func All() []*G {
	out := []*G{
		{Name: "ed25519", Group: edwards25519.NewBlakeSHA256Ed25519(), MulNil: true, Base: true, Pick: true, Embed: true, Family: "ed25519", Order: OrderEd25519},
		{Name: "ed25519-vt", Group: edwards25519.NewBlakeSHA256Ed25519(), VarTime: true, MulNil: true, Base: true, Pick: true, Embed: true, Family: "ed25519", Order: OrderEd25519},
		{Name: "ed25519vartime", Group: edwards25519vartime.NewBlakeSHA256Ed25519(false), MulNil: true, Base: true, Pick: true, Embed: true, Slow: true, Family: "ed25519", Order: OrderEd25519},
		// the extended-coordinates implementation of the same curve (exported, not wrapped in a suite of its own)
		{Name: "ed25519vartime-ext", Group: new(edwards25519vartime.ExtendedCurve).InitCurve(edwards25519vartime.ParamEd25519(), false), MulNil: true, Base: true, Pick: true, Embed: true, Slow: true, Family: "ed25519", Order: OrderEd25519},
		{Name: "p256", Group: p256.NewBlakeSHA256P256(), MulNil: true, Base: true, Pick: true, Embed: true, Family: "p256", Order: OrderP256},
		{Name: "qr512", Group: p256.NewBlakeSHA256QR512(), MulNil: true, Base: true, Pick: true, Embed: true, Family: "qr512", Order: OrderQR512},
	}
	return pairingGroups(out, PairingSuites())
}

// Parameters of a residue group with cofactor 84 (P = 84*Q + 1), generated for
// /verif: the shipped QR512 suite is a safe-prime group (cofactor 2), where
// "quadratic residue" and "in the order-Q subgroup" coincide.
var (
	ResR84P = bigs("9516438124321917477454416659838875129485329984311068829386693")
	ResR84Q = bigs("113290930051451398541124007855224703922444404575131771778413")
	ResR84G = bigs("19342813113834066795298816")
)

// Extra returns group instances beyond the 20 the library registers: a residue
// group with a large cofactor built through the public ResidueGroup.SetParams.
// RFC 3526 group 15: the 3072-bit MODP safe prime (P = 2Q+1); the quadratic residues form a group whose points can hold
// more than 255 bytes of embedded data (two-byte length field in full use).
var Res3072P = bigs("0xFFFFFFFFFFFFFFFFC90FDAA22168C234C4C6628B80DC1CD129024E088A67CC74020BBEA63B139B22514A08798E3404DDEF9519B3CD3A431B302B0A6DF25F14374FE1356D6D51C245E485B576625E7EC6F44C42E9A637ED6B0BFF5CB6F406B7EDEE386BFB5A899FA5AE9F24117C4B1FE649286651ECE45B3DC2007CB8A163BF0598DA48361C55D39A69163FA8FD24CF5F83655D23DCA3AD961C62F356208552BB9ED529077096966D670C354E4ABC9804F1746C08CA18217C32905E462E36CE3BE39E772C180E86039B2783A2EC07A28FB5C55DF06F4C52C9DE2BCBF6955817183995497CEA956AE515D2261898FA051015728E5A8AAAC42DAD33170D04507A33A85521ABDF1CBA64ECFB850458DBEF0A8AEA71575D060C7DB3970F85A6E1E4C7ABF5AE8CDB0933D71E8C94E04A25619DCEE3D2261AD2EE6BF12FFA06D98A0864D87602733EC86A64521F2B18177B200CBBE117577A615D6C770988C0BAD946E208E24FA074E5AB3143DB5BFCE0FD108E4B82D120A93AD2CAFFFFFFFFFFFFFFFF")
var Res3072Q = new(big.Int).Rsh(Res3072P, 1)

// ExtraLarge returns the 3072-bit residue group (used only where its cost is affordable).
func ExtraLarge() []*G {
	rg := new(p256.ResidueGroup)
	rg.SetParams(Res3072P, Res3072Q, big.NewInt(2), big.NewInt(4))
	return []*G{{Name: "residue-3072", Group: rg, MulNil: true, Base: true, Pick: true, Embed: true, Family: "residue-3072", Order: Res3072Q, Slow: true}}
}

func Extra() []*G {
	rg := new(p256.ResidueGroup)
	rg.SetParams(ResR84P, ResR84Q, bigs("84"), ResR84G)
	return []*G{{Name: "residue-r84", Group: rg, MulNil: true, Base: true, Pick: true, Embed: true, Family: "residue-r84", Order: ResR84Q}}
}
