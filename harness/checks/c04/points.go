// Package c04: decoding untrusted bytes is total and admits only members.
package c04

import (
	"bytes"
	"encoding/hex"
	"fmt"
	"math/big"

	"go.dedis.ch/kyber/v4"
	"verif/harness/alpha"
	"verif/harness/curves"
	"verif/harness/fmod"
	"verif/harness/groups"
	"verif/harness/vf"
)

type layout struct {
	prefix int      // bytes before the first coordinate
	chunk  int      // coordinate size
	p      *big.Int // field modulus
	le     bool     // little-endian coordinates
}

func layoutOf(g *groups.G) layout {
	switch g.Family {
	case "ed25519":
		return layout{0, 32, curves.EdP, true}
	case "p256":
		return layout{1, 32, curves.P256P, false}
	case "qr512":
		return layout{0, 64, curves.QR512P, false}
	case "residue-r84":
		return layout{0, 26, groups.ResR84P, false}
	case "bn256":
		return layout{0, 32, curves.BN256P, false}
	case "bn254":
		return layout{0, 32, curves.BN254P, false}
	default:
		return layout{0, 48, curves.BLSP, false}
	}
}

func beInt(b []byte) *big.Int { return new(big.Int).SetBytes(b) }
func leInt(b []byte) *big.Int {
	r := make([]byte, len(b))
	for i := range b {
		r[len(b)-1-i] = b[i]
	}
	return new(big.Int).SetBytes(r)
}

// member decides, independently of kyber, whether the accepted input denotes
// a member of the set the group promises to validate. "" = member.
func Member(g *groups.G, in []byte, pt kyber.Point) string {
	L := g.Group.PointLen()
	switch {
	case g.Family == "ed25519":
		if len(in) < 32 {
			return "" // judged by the follow-up program only
		}
		b := append([]byte{}, in[:32]...)
		b[31] &= 0x7f
		if !curves.EdOnCurveY(leInt(b)) {
			return "no x exists for this y on Ed25519"
		}
	case g.Family == "p256":
		if len(in) != L {
			return "accepted an encoding of the wrong length"
		}
		x, y := beInt(in[1:33]), beInt(in[33:65])
		if x.Sign() == 0 && y.Sign() == 0 {
			return ""
		}
		if !curves.WeierstrassOn(x, y, big.NewInt(-3), curves.P256B, curves.P256P) {
			return "(x,y) is not on P-256"
		}
	case g.Family == "qr512":
		if !curves.InQR512(beInt(in)) {
			return "value is not in the order-q subgroup mod p"
		}
	case g.Family == "residue-3072":
		x := beInt(in)
		if x.Sign() <= 0 || x.Cmp(groups.Res3072P) >= 0 || new(big.Int).Exp(x, groups.Res3072Q, groups.Res3072P).Cmp(big.NewInt(1)) != 0 {
			return "value is not a quadratic residue mod the 3072-bit prime"
		}
	case g.Family == "residue-r84":
		x := beInt(in)
		if x.Sign() <= 0 || x.Cmp(groups.ResR84P) >= 0 || new(big.Int).Exp(x, groups.ResR84Q, groups.ResR84P).Cmp(big.NewInt(1)) != 0 {
			return "value is not in the order-Q subgroup mod P (cofactor 84)"
		}
	case (g.Family == "bn256" || g.Family == "bn254") && g.Kind == "G1":
		if len(in) < L {
			return "accepted a short encoding"
		}
		p := curves.BN256P
		if g.Family == "bn254" {
			p = curves.BN254P
		}
		x, y := new(big.Int).Mod(beInt(in[0:32]), p), new(big.Int).Mod(beInt(in[32:64]), p)
		if x.Sign() == 0 && y.Sign() == 0 {
			return ""
		}
		if !curves.WeierstrassOn(x, y, big.NewInt(0), big.NewInt(3), p) {
			return "(x,y) is not on y^2=x^3+3"
		}
	case (g.Family == "bn256" || g.Family == "bn254") && g.Kind == "G2":
		if len(in) < L {
			return "accepted a short encoding"
		}
		p, xi := curves.BN256P, int64(3)
		if g.Family == "bn254" {
			p, xi = curves.BN254P, 9
		}
		c := func(i int) *big.Int { return new(big.Int).Mod(beInt(in[32*i:32*i+32]), p) }
		// layout: x.i-part | x.real | y.i-part | y.real
		x, y := curves.F2{A: c(1), B: c(0)}, curves.F2{A: c(3), B: c(2)}
		if x.A.Sign() == 0 && x.B.Sign() == 0 && y.A.Sign() == 0 && y.B.Sign() == 0 {
			return ""
		}
		if !curves.TwistOn(x, y, xi, p) {
			return "(x,y) is not on the twist"
		}
	case g.Kind == "G1" || g.Kind == "G2": // BLS12-381: prime-order subgroup, through the API
		if sg, ok := pt.(kyber.SubGroupElement); ok && !sg.IsInCorrectGroup() {
			return "IsInCorrectGroup() is false for an accepted point"
		}
		qm1 := alpha.ToScalar(g.Scalar(), new(big.Int).Sub(g.Order, big.NewInt(1)), g.Order)
		if !g.Point().Add(g.Point().Mul(qm1, pt), pt).Equal(g.Point().Null()) {
			return "(q-1)P + P != O: not in the prime-order subgroup"
		}
	}
	return ""
}

type input struct {
	name string
	b    []byte
	hard bool // a mutated valid encoding (non-trivial)
}

func pointInputs(c *vf.Check, g *groups.G, m *fmod.Model) []input {
	L := g.Group.PointLen()
	lay := layoutOf(g)
	var ins []input
	add := func(name string, b []byte, hard bool) { ins = append(ins, input{name, b, hard}) }
	for _, n := range []int{0, 1, L - 1, L, L + 1, 2 * L, 2*L + 40} {
		ctr := make([]byte, n)
		for i := range ctr {
			ctr[i] = byte(i + 1)
		}
		add(fmt.Sprintf("len%d/00", n), make([]byte, n), false)
		add(fmt.Sprintf("len%d/ff", n), bytes.Repeat([]byte{0xff}, n), false)
		add(fmt.Sprintf("len%d/counter", n), ctr, false)
		add(fmt.Sprintf("len%d/rand", n), alpha.Bytes(fmt.Sprintf("c04-%s-%d", g.Name, n), n), false)
	}
	// valid encodings
	vals := []fmod.V{m.Null(), m.Gen(0), m.Gen(len(m.Gens) - 1), m.Neg(m.Gen(0)), m.Add(m.Gen(0), m.Gen(len(m.Gens)-1))}
	stride := 1
	if !c.Thorough() {
		if L > 100 {
			stride = 8 // one bit per byte for the long encodings
		} else if g.Slow {
			stride = 3
		}
	}
	for vi, v := range vals {
		e := fmod.Enc(v.P)
		add("valid/"+v.Name, e, false)
		add("valid+1byte/"+v.Name, append(append([]byte{}, e...), 0x00), true)
		add("valid-1byte/"+v.Name, e[:len(e)-1], true)
		if vi >= 3 && !c.Thorough() {
			continue
		}
		for bit := 0; bit < len(e)*8; bit += stride {
			f := append([]byte{}, e...)
			f[bit/8] ^= 1 << (bit % 8)
			add(fmt.Sprintf("bitflip/%s/%d", v.Name, bit), f, true)
		}
		// coordinate splices
		for off := lay.prefix; off+lay.chunk <= len(e); off += lay.chunk {
			cur := beInt(e[off : off+lay.chunk])
			if lay.le {
				cur = leInt(e[off : off+lay.chunk])
			}
			cands := map[string]*big.Int{
				"p": lay.p, "p+1": new(big.Int).Add(lay.p, big.NewInt(1)), "p-1": new(big.Int).Sub(lay.p, big.NewInt(1)),
				"0": big.NewInt(0), "1": big.NewInt(1), "x+p": new(big.Int).Add(cur, lay.p),
				"2^n-1": new(big.Int).Sub(new(big.Int).Lsh(big.NewInt(1), uint(8*lay.chunk)), big.NewInt(1)),
			}
			for cn, cv := range cands {
				if (cv.BitLen()+7)/8 > lay.chunk {
					continue
				}
				f := append([]byte{}, e...)
				cb := cv.FillBytes(make([]byte, lay.chunk))
				if lay.le {
					for i, j := 0, len(cb)-1; i < j; i, j = i+1, j-1 {
						cb[i], cb[j] = cb[j], cb[i]
					}
					// keep the sign bit of the original Ed25519 encoding where the value leaves room
					if cb[lay.chunk-1]&0x80 == 0 {
						cb[lay.chunk-1] |= e[off+lay.chunk-1] & 0x80
					}
				}
				copy(f[off:], cb)
				add(fmt.Sprintf("coord/%s/off%d/%s", v.Name, off, cn), f, true)
			}
		}
		// format / flag byte
		if g.Family == "p256" || (lay.chunk == 48 && g.Kind != "GT") {
			for fb := 0; fb < 256; fb++ {
				if g.Family != "p256" && fb&0x1f != 0 {
					continue // BLS: the three flag bits
				}
				f := append([]byte{}, e...)
				if g.Family == "p256" {
					f[0] = byte(fb)
				} else {
					f[0] = f[0]&0x1f | byte(fb)
				}
				add(fmt.Sprintf("format/%s/%02x", v.Name, fb), f, true)
			}
		}
	}
	// on the curve but outside the subgroup / off the curve, built by the model
	switch {
	case g.Family == "p256":
		e := fmod.Enc(m.Gens[0])
		y := beInt(e[33:65])
		f := append([]byte{}, e...)
		new(big.Int).Add(y, big.NewInt(1)).FillBytes(f[33:65])
		add("offcurve/B.y+1", f, true)
		f2 := append([]byte{}, e...)
		copy(f2[1:33], f2[33:65])
		add("offcurve/x:=y", f2, true)
	case lay.chunk == 48 && g.Kind == "G1":
		for _, h := range []string{"8123456789abcdef0123456789abcdef0123456789abcdef0123456789abcdef0123456789abcdef0123456789abcdef"} {
			b, _ := hex.DecodeString(h)
			add("wrong-subgroup/vector", b, true)
		}
		found := 0
		for xv := int64(1); found < 6 && xv < 200; xv++ {
			x := big.NewInt(xv)
			y := curves.BLSG1SqrtY(x)
			if y == nil {
				continue
			}
			found++
			for _, sign := range []byte{0, 0x20} {
				b := x.FillBytes(make([]byte, 48))
				b[0] |= 0x80 | sign
				add(fmt.Sprintf("wrong-subgroup/x=%d/sign%02x", xv, sign), b, true)
			}
			// the same points in the 96-byte uncompressed form x || y (raw, and with either y), should a decoder take it
			for yi, yv := range []*big.Int{y, new(big.Int).Sub(curves.BLSP, y)} {
				u := append(x.FillBytes(make([]byte, 48)), yv.FillBytes(make([]byte, 48))...)
				add(fmt.Sprintf("wrong-subgroup/uncompressed x=%d y#%d", xv, yi), u, true)
			}
		}
		// the uncompressed form of a genuine member (the base point), for reference: accepted or not, it must not panic
		// and, if accepted, decode to a member
		{
			e := fmod.Enc(m.Gens[0])
			xb := append([]byte{}, e...)
			xb[0] &= 0x1f
			x := new(big.Int).SetBytes(xb)
			if y := curves.BLSG1SqrtY(x); y != nil {
				for yi, yv := range []*big.Int{y, new(big.Int).Sub(curves.BLSP, y)} {
					add(fmt.Sprintf("uncompressed base point y#%d", yi), append(x.FillBytes(make([]byte, 48)), yv.FillBytes(make([]byte, 48))...), true)
				}
			}
		}
	case lay.chunk == 48 && g.Kind == "G2":
		b, _ := hex.DecodeString("8123456789abcdef0123456789abcdef0123456789abcdef0123456789abcdef0123456789abcdef0123456789abcdef0123456789abcdef0123456789abcdef0123456789abcdef0123456789abcdef0123456789abcdef0123456789abcdef")
		add("wrong-subgroup/vector", b, true)
	case g.Family == "residue-r84" || g.Family == "qr512":
		for v := int64(2); v < 40; v++ {
			add(fmt.Sprintf("small/%d", v), big.NewInt(v).FillBytes(make([]byte, L)), true)
			add(fmt.Sprintf("small-short/%d", v), big.NewInt(v).Bytes(), true)
		}
	case g.Family == "ed25519":
		// the small-order points and non-canonical encodings (y >= p, x=0 with sign bit)
		for _, h := range []string{
			"0100000000000000000000000000000000000000000000000000000000000000",
			"ecffffffffffffffffffffffffffffffffffffffffffffffffffffffffffff7f",
			"0000000000000000000000000000000000000000000000000000000000000000",
			"0000000000000000000000000000000000000000000000000000000000000080",
			"c7176a703d4dd84fba3c0b760d10670f2a2053fa2c39ccc64ec7fd7792ac037a",
			"c7176a703d4dd84fba3c0b760d10670f2a2053fa2c39ccc64ec7fd7792ac03fa",
			"26e8958fc2b227b045c3f489f2ef98f0d5dfac05d3c63339b13802886d53fc05",
			"26e8958fc2b227b045c3f489f2ef98f0d5dfac05d3c63339b13802886d53fc85",
			"0100000000000000000000000000000000000000000000000000000000000080",
			"ecffffffffffffffffffffffffffffffffffffffffffffffffffffffffffffff",
			"eeffffffffffffffffffffffffffffffffffffffffffffffffffffffffffff7f",
			"edffffffffffffffffffffffffffffffffffffffffffffffffffffffffffff7f",
			"edffffffffffffffffffffffffffffffffffffffffffffffffffffffffffffff",
		} {
			b, _ := hex.DecodeString(h)
			add("special/"+h[:8]+".."+h[60:], b, true)
		}
	}
	// encodings of a family of picked members (the bytes a stored length field, a flag or a sign bit lives in take
	// every value over the family): decoded and put through the later operations like any other input
	if g.Pick {
		n := 1200
		if g.Slow || g.Kind == "G2" || g.Kind == "GT" {
			n = 150
		}
		for i := 0; i < n; i++ {
			add(fmt.Sprintf("picked-member/%d", i), fmod.Enc(g.Point().Pick(alpha.Stream(fmt.Sprintf("c04-picked-%d", i)))), false)
		}
	}
	return ins
}

func try(x *vf.Ctx, key, what string, f func()) (ok bool) {
	defer func() {
		if r := recover(); r != nil {
			x.Failf(key, "%s panicked: %v", what, r)
			ok = false
		}
	}()
	f()
	return true
}

func runPoints(c *vf.Check, g *groups.G) {
	pk := "C04/" + g.Name
	var m *fmod.Model
	var ins []input
	c.Case(g.Name+": inputs", pk+"/setup", func(x *vf.Ctx) {
		m = fmod.New(g)
		ins = pointInputs(c, g, m)
		// the model must accept the generators (self-test of the transcribed parameters)
		// (only the base point: the other generators come from Pick/Hash/Embed, which C17 judges;
		// if they are not members the decoder is asked about them below like any other input)
		if why := Member(g, fmod.Enc(m.Gens[0]), m.Gens[0]); why != "" {
			c.Broken("%s: the independent membership model rejects the base point: %s", g.Name, why)
		}
	})
	if ins == nil {
		return
	}
	two := alpha.ToScalar(g.Scalar(), big.NewInt(2), g.Order)
	for _, in := range ins {
		in := in
		id := fmt.Sprintf("%s: decode %s", g.Name, in.name)
		c.Case(id, pk+"/decode", func(x *vf.Ctx) {
			p := g.Point()
			var err error
			arg := append([]byte{}, in.b...)
			if !try(x, pk+"/decode-panic", fmt.Sprintf("UnmarshalBinary(%x)", hd(in.b)), func() { err = p.UnmarshalBinary(arg) }) {
				return
			}
			c.Eval(1)
			if !bytes.Equal(arg, in.b) {
				x.Failf(pk+"/decode-mutates-input", "UnmarshalBinary changed its argument (%s)", in.name)
			}
			if err != nil {
				c.Class(g.Name+"/rejected", func() any { return in.name })
				return
			}
			c.Class(g.Name+"/accepted", func() any { return in.name + " " + hex.EncodeToString(hd(in.b)) })
			var why string
			if !try(x, pk+"/member-panic", "membership follow-up on accepted "+in.name, func() { why = Member(g, in.b, p) }) {
				return
			}
			if why != "" {
				x.Failf(pk+"/non-member-accepted", "input %s (%x..) accepted but %s", in.name, hd(in.b), why)
			}
			// later operations on an accepted value
			var enc []byte
			try(x, pk+"/later-op-panic", "MarshalBinary of accepted "+in.name, func() { enc = fmod.Enc(p) })
			try(x, pk+"/later-op-panic", "Add(x,gen) on accepted "+in.name, func() { g.Point().Add(p, m.Gens[0]) })
			try(x, pk+"/later-op-panic", "Sub(gen,x) on accepted "+in.name, func() { g.Point().Sub(m.Gens[0], p) })
			try(x, pk+"/later-op-panic", "Mul(2,x) on accepted "+in.name, func() { g.Point().Mul(two, p) })
			try(x, pk+"/later-op-panic", "Neg(x) on accepted "+in.name, func() { g.Point().Neg(p) })
			try(x, pk+"/later-op-panic", "Equal on accepted "+in.name, func() { _ = p.Equal(m.Gens[0]); _ = m.Gens[0].Equal(p); _ = p.Equal(p) })
			try(x, pk+"/later-op-panic", "String() on accepted "+in.name, func() { _ = p.String() })
			try(x, pk+"/later-op-panic", "Clone() on accepted "+in.name, func() { _ = p.Clone().Equal(p) })
			if g.Embed {
				try(x, pk+"/later-op-panic", "Data() on accepted "+in.name, func() { _, _ = p.Data() })
			}
			if enc != nil {
				try(x, pk+"/redecode", "decode(encode(x)) for accepted "+in.name, func() {
					r := g.Point()
					if err := r.UnmarshalBinary(enc); err != nil {
						x.Failf(pk+"/redecode", "re-encoding of accepted input %s (%x..) is rejected: %v", in.name, hd(in.b), err)
					} else if !r.Equal(p) || !p.Equal(r) {
						x.Failf(pk+"/redecode", "decode(encode(x)) not Equal x for accepted input %s", in.name)
					}
				})
			}
		})
		c.Count("transitions", 1)
		if in.hard {
			c.Nontrivial(id)
		}
	}
	c.Count("states", int64(len(ins)))
}

func hd(b []byte) []byte {
	if len(b) > 40 {
		return b[:40]
	}
	return b
}
