package c04

import (
	"bytes"
	"fmt"
	"math/big"

	"go.dedis.ch/kyber/v4"
	"verif/harness/alpha"
	"verif/harness/groups"
	"verif/harness/vf"
)

func runScalars(c *vf.Check, g *groups.G) {
	if g.Kind == "G2" || g.Kind == "GT" || g.Name == "ed25519-vt" {
		return
	}
	pk := "C04/" + g.Name + ".Scalar"
	L := g.Group.ScalarLen()
	q := g.Order
	le := g.Scalar().ByteOrder() == kyber.LittleEndian
	encode := func(v *big.Int) []byte {
		if (v.BitLen()+7)/8 > L {
			return nil
		}
		b := v.FillBytes(make([]byte, L))
		if le {
			for i, j := 0, L-1; i < j; i, j = i+1, j-1 {
				b[i], b[j] = b[j], b[i]
			}
		}
		return b
	}
	type in struct {
		name string
		b    []byte
		val  *big.Int // the integer the L-byte input denotes, if of length L
	}
	var ins []in
	for _, n := range []int{0, 1, L - 1, L + 1, 2 * L, 2*L + 40} {
		ins = append(ins, in{fmt.Sprintf("len%d/00", n), make([]byte, n), nil}, in{fmt.Sprintf("len%d/ff", n), bytes.Repeat([]byte{0xff}, n), nil},
			in{fmt.Sprintf("len%d/rand", n), alpha.Bytes(fmt.Sprintf("c04s-%d", n), n), nil})
	}
	one := big.NewInt(1)
	vals := map[string]*big.Int{"0": big.NewInt(0), "1": one, "q-1": new(big.Int).Sub(q, one), "q": q, "q+1": new(big.Int).Add(q, one),
		"2q-1": new(big.Int).Sub(new(big.Int).Lsh(q, 1), one), "2q": new(big.Int).Lsh(q, 1),
		"2^n-1": new(big.Int).Sub(new(big.Int).Lsh(one, uint(8*L)), one), "2^(n-1)": new(big.Int).Lsh(one, uint(8*L-1)),
		"r": alpha.Rand("c04s-r", q), "r+q": new(big.Int).Add(alpha.Rand("c04s-r", q), q)}
	for n, v := range vals {
		if b := encode(v); b != nil {
			ins = append(ins, in{"value/" + n, b, v})
		}
	}
	// does this decoder range-check at all?
	checks := false
	for _, i := range ins {
		if i.val != nil && i.val.Cmp(q) >= 0 {
			func() {
				defer func() { recover() }()
				if g.Scalar().UnmarshalBinary(append([]byte{}, i.b...)) != nil {
					checks = true
				}
			}()
		}
	}
	for _, i := range ins {
		i := i
		id := fmt.Sprintf("%s: scalar decode %s", g.Name, i.name)
		c.Case(id, pk+"/decode", func(x *vf.Ctx) {
			s := g.Scalar()
			var err error
			if !try(x, pk+"/decode-panic", fmt.Sprintf("UnmarshalBinary(%x)", hd(i.b)), func() { err = s.UnmarshalBinary(append([]byte{}, i.b...)) }) {
				return
			}
			c.Eval(1)
			if err != nil {
				c.Class(g.Name+".Scalar/rejected", func() any { return i.name })
				return
			}
			c.Class(g.Name+".Scalar/accepted", func() any { return i.name })
			if len(i.b) != L && i.val == nil && len(i.b) != 0 && false {
				x.Failf(pk+"/length", "accepted %d bytes", len(i.b))
			}
			if checks && i.val != nil && i.val.Cmp(q) >= 0 {
				x.Failf(pk+"/out-of-range-accepted", "the decoder rejects other out-of-range encodings but accepts %s (not below the group order)", i.name)
			}
			o := alpha.ToScalar(g.Scalar(), alpha.Rand("c04s-o", q), q)
			try(x, pk+"/later-op-panic", "Add on accepted "+i.name, func() { g.Scalar().Add(s, o) })
			try(x, pk+"/later-op-panic", "Mul on accepted "+i.name, func() { g.Scalar().Mul(s, o) })
			try(x, pk+"/later-op-panic", "Sub on accepted "+i.name, func() { g.Scalar().Sub(o, s) })
			try(x, pk+"/later-op-panic", "Neg on accepted "+i.name, func() { g.Scalar().Neg(s) })
			try(x, pk+"/later-op-panic", "Div on accepted "+i.name, func() { g.Scalar().Div(s, o) })
			try(x, pk+"/later-op-panic", "Equal/String/Clone on accepted "+i.name, func() { _ = s.Equal(o); _ = s.String(); _ = s.Clone().Equal(s) })
			try(x, pk+"/later-op-panic", "MarshalBinary on accepted "+i.name, func() {
				b, err := s.MarshalBinary()
				if err == nil {
					r := g.Scalar()
					if err := r.UnmarshalBinary(b); err != nil {
						x.Failf(pk+"/redecode", "re-encoding of accepted %s rejected: %v", i.name, err)
					}
				}
			})
			if g.MulNil {
				try(x, pk+"/later-op-panic", "Point.Mul(s,nil) with accepted "+i.name, func() { g.Point().Mul(s, nil) })
			}
		})
		c.Count("transitions", 1)
		if i.val != nil {
			c.Nontrivial(id)
		}
	}
}
