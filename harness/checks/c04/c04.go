package c04

import (
	"verif/harness/groups"
	"verif/harness/vf"
)

func Run(c *vf.Check) {
	c.Level = "model_checking"
	gs := append(groups.All(), groups.Extra()...)
	vf.Parallel(len(gs), func(i int) { runPoints(c, gs[i]) })
	vf.Parallel(len(gs), func(i int) { runScalars(c, gs[i]) })
	comps := composites()
	vf.Parallel(len(comps), func(i int) { comps[i](c) })
	c.Finish("engine E: per group, byte strings {lengths 0,1,L-1,L,L+1,2L,2L+40 x 4 patterns; 5 valid encodings with every single-bit flip (one bit per byte for 384/576-byte encodings in the quick tier), +-1 byte, every coordinate slot replaced by p, p+-1, 0, 1, x+p, 2^n-1; every format byte (P-256) / flag combination (BLS12-381); model-built off-curve, wrong-subgroup, small-order and non-canonical points} -> no panic; accepted => independent membership (curve equations over Fp/Fp2 in math/big, x^q=1, (q-1)P+P=O for BLS), follow-up program {encode, Add, Sub, Mul, Neg, Equal, String, Clone, Data} does not panic, decode(encode(x)) Equal x. "+
		"Scalars: same length/pattern grid + boundary values q-1,q,q+1,2^n-1; a decoder that rejects some out-of-range value must reject all, follow-up arithmetic does not panic. Composite messages (signatures, proofs, ciphertexts, deals): every truncation, one bit per byte (thorough: every bit) and constant blocks -> error or success, never a panic. "+
		"non-trivial = mutated valid encodings and constructed hostile points; distinct by (decoder, input)",
		[]string{"curve parameters transcribed into /verif (self-tested against the generators)", "BLS12-381 subgroup membership is decided through the API ((q-1)P+P=O and IsInCorrectGroup)"}, nil)
}
