package c04

import (
	"bytes"
	"crypto/sha256"
	"fmt"

	"go.dedis.ch/kyber/v4"
	"go.dedis.ch/kyber/v4/encrypt/ecies"
	"go.dedis.ch/kyber/v4/group/edwards25519"
	"go.dedis.ch/kyber/v4/group/p256"
	"go.dedis.ch/kyber/v4/pairing"
	"go.dedis.ch/kyber/v4/pairing/bn256"
	"go.dedis.ch/kyber/v4/proof"
	vssp "go.dedis.ch/kyber/v4/share/vss/pedersen"
	vssr "go.dedis.ch/kyber/v4/share/vss/rabin"
	"go.dedis.ch/kyber/v4/sign/anon"
	"go.dedis.ch/kyber/v4/sign/bls"
	"go.dedis.ch/kyber/v4/sign/cosi"
	"go.dedis.ch/kyber/v4/sign/eddsa"
	"go.dedis.ch/kyber/v4/sign/schnorr"
	"go.dedis.ch/kyber/v4/shuffle"
	"go.dedis.ch/kyber/v4/util/encoding"
	"verif/harness/alpha"
	"verif/harness/groups"
	"verif/harness/vf"
)

// entry is one parser of untrusted bytes with an honest message to mutate.
type entry struct {
	name   string
	honest []byte
	feed   func(b []byte) error // must not panic; the verdict is not judged here
	mustOK bool                 // the honest message itself must be accepted
}

type fullSuite interface {
	kyber.Group
	kyber.Encoding
	kyber.HashFactory
	kyber.XOFFactory
	kyber.Random
}

func mutants(c *vf.Check, m []byte) (names []string, outs [][]byte) {
	add := func(n string, b []byte) { names = append(names, n); outs = append(outs, b) }
	for l := 0; l <= len(m); l++ {
		add(fmt.Sprintf("trunc%d", l), append([]byte{}, m[:l]...))
	}
	add("extend1", append(append([]byte{}, m...), 0x00))
	add("extend40", append(append([]byte{}, m...), bytes.Repeat([]byte{0xa5}, 40)...))
	for i := 0; i < len(m); i++ {
		bits := []int{i % 8}
		if c.Thorough() {
			bits = []int{0, 1, 2, 3, 4, 5, 6, 7}
		} else if i%8 == 0 {
			bits = append(bits, 7)
		}
		for _, bit := range bits {
			f := append([]byte{}, m...)
			f[i] ^= 1 << bit
			add(fmt.Sprintf("flip%d.%d", i, bit), f)
		}
	}
	step := 1
	if len(m) > 200 && !c.Thorough() {
		step = 7
	}
	for l := 0; l <= 2*len(m); l += step {
		add(fmt.Sprintf("zeros%d", l), make([]byte, l))
		add(fmt.Sprintf("ff%d", l), bytes.Repeat([]byte{0xff}, l))
	}
	// every byte set to 0x00 / 0xff
	for i := 0; i < len(m); i += step {
		f := append([]byte{}, m...)
		f[i] = 0
		add(fmt.Sprintf("byte%d=00", i), f)
		g := append([]byte{}, m...)
		g[i] = 0xff
		add(fmt.Sprintf("byte%d=ff", i), g)
	}
	return
}

func runEntry(c *vf.Check, mk func() entry, name string) {
	pk := "C04/composite/" + name
	var e entry
	ok := false
	c.Case(name+": honest message", pk+"/setup", func(x *vf.Ctx) {
		e = mk()
		if e.mustOK {
			if err := e.feed(append([]byte{}, e.honest...)); err != nil {
				c.Broken("%s: the honest message is rejected by its own parser: %v", name, err)
				return
			}
		}
		ok = true
	})
	if !ok {
		return
	}
	names, outs := mutants(c, e.honest)
	for i := range outs {
		n, b := names[i], outs[i]
		id := fmt.Sprintf("%s: %s", name, n)
		c.Case(id, pk, func(x *vf.Ctx) {
			var err error
			try(x, pk+"/panic", fmt.Sprintf("%s on %s (%d bytes)", name, n, len(b)), func() { err = e.feed(append([]byte{}, b...)) })
			c.Eval(1)
			if err != nil {
				c.Class("composite/"+name+"/error", func() any { return n })
			} else {
				c.Class("composite/"+name+"/accepted", func() any { return n })
			}
		})
		c.Count("transitions", 1)
		c.Nontrivial(id)
	}
}

func schnorrEntry(name string, s fullSuite) func() entry {
	return func() entry {
		priv := s.Scalar().Pick(alpha.Stream("c04-schnorr-" + name))
		pub := s.Point().Mul(priv, nil)
		msg := []byte("c04 schnorr message")
		sig, err := schnorr.Sign(s, priv, msg)
		if err != nil {
			panic(err)
		}
		return entry{name, sig, func(b []byte) error { return schnorr.Verify(s, pub, msg, b) }, true}
	}
}

type rsuite struct {
	fullSuite
	name string
}

func (r rsuite) RandomStream() interface{ XORKeyStream(dst, src []byte) } {
	return alpha.Stream("c04-suite-" + r.name)
}

func composites() []func(*vf.Check) {
	var out []func(*vf.Check)
	add := func(name string, mk func() entry) {
		out = append(out, func(c *vf.Check) { runEntry(c, mk, name) })
	}
	ed := edwards25519.NewBlakeSHA256Ed25519()
	pp := p256.NewBlakeSHA256P256()
	qr := p256.NewBlakeSHA256QR512()
	add("schnorr.Verify/ed25519", schnorrEntry("ed25519", ed))
	add("schnorr.Verify/p256", schnorrEntry("p256", pp))
	add("schnorr.Verify/qr512", schnorrEntry("qr512", qr))
	add("schnorr.Verify/bn256.G1", schnorrEntry("bn256.G1", bn256.NewSuiteG1()))
	add("schnorr.Verify/bn256.G2", schnorrEntry("bn256.G2", bn256.NewSuiteG2()))
	add("schnorr.VerifyWithChecks/ed25519", func() entry {
		priv := ed.Scalar().Pick(alpha.Stream("c04-schnorr-wc"))
		pub, _ := ed.Point().Mul(priv, nil).MarshalBinary()
		msg := []byte("c04 schnorr message")
		sig, _ := schnorr.Sign(ed, priv, msg)
		return entry{"", sig, func(b []byte) error { return schnorr.VerifyWithChecks(ed, pub, msg, b) }, true}
	})
	add("schnorr.VerifyWithChecks/ed25519/key", func() entry {
		priv := ed.Scalar().Pick(alpha.Stream("c04-schnorr-wc"))
		pub, _ := ed.Point().Mul(priv, nil).MarshalBinary()
		msg := []byte("c04 schnorr message")
		sig, _ := schnorr.Sign(ed, priv, msg)
		return entry{"", pub, func(b []byte) error { return schnorr.VerifyWithChecks(ed, b, msg, sig) }, true}
	})
	add("eddsa.Verify", func() entry {
		e := eddsa.NewEdDSA(alpha.Stream("c04-eddsa"))
		msg := []byte("c04 eddsa message")
		sig, err := e.Sign(msg)
		if err != nil {
			panic(err)
		}
		return entry{"", sig, func(b []byte) error { return eddsa.Verify(e.Public, msg, b) }, true}
	})
	add("eddsa.VerifyWithChecks/key", func() entry {
		e := eddsa.NewEdDSA(alpha.Stream("c04-eddsa"))
		msg := []byte("c04 eddsa message")
		sig, _ := e.Sign(msg)
		pub, _ := e.Public.MarshalBinary()
		return entry{"", pub, func(b []byte) error { return eddsa.VerifyWithChecks(b, msg, sig) }, true}
	})
	add("eddsa.UnmarshalBinary", func() entry {
		e := eddsa.NewEdDSA(alpha.Stream("c04-eddsa"))
		enc, _ := e.MarshalBinary()
		return entry{"", enc, func(b []byte) error {
			var d eddsa.EdDSA
			if err := d.UnmarshalBinary(b); err != nil {
				return err
			}
			_, err := d.Sign([]byte("m"))
			return err
		}, true}
	})
	for _, ps := range groups.PairingSuites() {
		ps := ps
		for _, on := range []string{"G1", "G2"} {
			on := on
			if on == "G2" && !groups.ByName(ps.Name+".G2").Hash {
				continue // no hash-to-G2 on the BN curves: 8 supported (suite, signature group) combinations
			}
			add("bls.Verify/"+ps.Name+"/sig-on-"+on, func() entry {
				var sch interface {
					NewKeyPair(interface{ XORKeyStream(dst, src []byte) }) (kyber.Scalar, kyber.Point)
				}
				_ = sch
				scheme := bls.NewSchemeOnG1(ps.Suite)
				if on == "G2" {
					scheme = bls.NewSchemeOnG2(ps.Suite)
				}
				priv, pub := scheme.NewKeyPair(alpha.Stream("c04-bls-" + ps.Name + on))
				msg := []byte("c04 bls message")
				sig, err := scheme.Sign(priv, msg)
				if err != nil {
					panic(err)
				}
				return entry{"", sig, func(b []byte) error { return scheme.Verify(pub, msg, b) }, true}
			})
		}
	}
	add("cosi.Verify/ed25519", func() entry {
		n := 3
		var privs []kyber.Scalar
		var pubs []kyber.Point
		for i := 0; i < n; i++ {
			s := ed.Scalar().Pick(alpha.Stream(fmt.Sprintf("c04-cosi-%d", i)))
			privs = append(privs, s)
			pubs = append(pubs, ed.Point().Mul(s, nil))
		}
		msg := []byte("c04 cosi message")
		mask, _ := cosi.NewMask(ed, pubs, nil)
		var vs []kyber.Scalar
		var Vs []kyber.Point
		var masks [][]byte
		for i := 0; i < n; i++ {
			v := ed.Scalar().Pick(alpha.Stream(fmt.Sprintf("c04-cosi-v%d", i)))
			vs = append(vs, v)
			Vs = append(Vs, ed.Point().Mul(v, nil))
			mi, _ := cosi.NewMask(ed, pubs, pubs[i])
			masks = append(masks, mi.Mask())
		}
		aggV, aggMask, err := cosi.AggregateCommitments(ed, Vs, masks)
		if err != nil {
			panic(err)
		}
		_ = mask.SetMask(aggMask)
		ch, _ := cosi.Challenge(ed, aggV, mask.AggregatePublic, msg)
		var rs []kyber.Scalar
		for i := 0; i < n; i++ {
			r, _ := cosi.Response(ed, privs[i], vs[i], ch)
			rs = append(rs, r)
		}
		aggR, _ := cosi.AggregateResponses(ed, rs)
		sig, err := cosi.Sign(ed, aggV, aggR, mask)
		if err != nil {
			panic(err)
		}
		return entry{"", sig, func(b []byte) error { return cosi.Verify(ed, pubs, msg, b, cosi.NewThresholdPolicy(2)) }, true}
	})
	for _, pn := range []string{"rep", "and", "or"} {
		pn := pn
		add("proof.HashVerify/"+pn, func() entry {
			x := ed.Scalar().Pick(alpha.Stream("c04-proof-x"))
			y := ed.Scalar().Pick(alpha.Stream("c04-proof-y"))
			B := ed.Point().Base()
			H := ed.Point().Pick(alpha.Stream("c04-proof-H"))
			X := ed.Point().Mul(x, B)
			Y := ed.Point().Add(ed.Point().Mul(x, B), ed.Point().Mul(y, H))
			Z := ed.Point().Pick(alpha.Stream("c04-proof-Z"))
			var pred proof.Predicate
			choice := map[proof.Predicate]int{}
			switch pn {
			case "rep":
				pred = proof.Rep("Y", "x", "B", "y", "H")
			case "and":
				pred = proof.And(proof.Rep("X", "x", "B"), proof.Rep("Y", "x", "B", "y", "H"))
			case "or":
				pred = proof.Or(proof.Rep("Z", "x", "B"), proof.And(proof.Rep("X", "x", "B"), proof.Rep("Y", "x", "B", "y", "H")))
				choice[pred] = 1
			}
			sec := map[string]kyber.Scalar{"x": x, "y": y}
			pub := map[string]kyber.Point{"B": B, "H": H, "X": X, "Y": Y, "Z": Z}
			prf, err := proof.HashProve(ed, "c04", pred.Prover(ed, sec, pub, choice))
			if err != nil {
				panic(err)
			}
			return entry{"", prf, func(b []byte) error { return proof.HashVerify(ed, "c04", pred.Verifier(ed, pub), b) }, true}
		})
	}
	for _, gs := range []struct {
		name string
		s    fullSuite
	}{{"ed25519", ed}, {"p256", pp}} {
		gs := gs
		add("ecies.Decrypt/"+gs.name, func() entry {
			priv := gs.s.Scalar().Pick(alpha.Stream("c04-ecies-" + gs.name))
			pub := gs.s.Point().Mul(priv, nil)
			ct, err := ecies.Encrypt(gs.s, pub, []byte("c04 ecies plaintext, 40 bytes long......"), sha256.New)
			if err != nil {
				panic(err)
			}
			return entry{"", ct, func(b []byte) error { _, err := ecies.Decrypt(gs.s, priv, b, sha256.New); return err }, true}
		})
		add("anon.Decrypt/"+gs.name, func() entry {
			var set anon.Set
			var privs []kyber.Scalar
			for i := 0; i < 3; i++ {
				s := gs.s.Scalar().Pick(alpha.Stream(fmt.Sprintf("c04-anon-%s-%d", gs.name, i)))
				privs = append(privs, s)
				set = append(set, gs.s.Point().Mul(s, nil))
			}
			ct, err := anon.Encrypt(gs.s, []byte("c04 anon plaintext"), set)
			if err != nil {
				panic(err)
			}
			return entry{"", ct, func(b []byte) error { _, err := anon.Decrypt(gs.s, b, set, 1, privs[1]); return err }, true}
		})
		for _, scope := range []string{"unlinkable", "linkable"} {
			scope := scope
			add("anon.Verify/"+gs.name+"/"+scope, func() entry {
				var set anon.Set
				var privs []kyber.Scalar
				for i := 0; i < 3; i++ {
					s := gs.s.Scalar().Pick(alpha.Stream(fmt.Sprintf("c04-anon-%s-%d", gs.name, i)))
					privs = append(privs, s)
					set = append(set, gs.s.Point().Mul(s, nil))
				}
				var sc []byte
				if scope == "linkable" {
					sc = []byte("scope")
				}
				msg := []byte("c04 ring message")
				sig := anon.Sign(gs.s, msg, set, sc, 2, privs[2])
				return entry{"", sig, func(b []byte) error { _, err := anon.Verify(gs.s, msg, set, sc, b); return err }, true}
			})
		}
	}
	add("vss.pedersen.Deal.Unmarshal", func() entry {
		var pubs []kyber.Point
		for i := 0; i < 4; i++ {
			pubs = append(pubs, ed.Point().Mul(ed.Scalar().Pick(alpha.Stream(fmt.Sprintf("c04-vss-%d", i))), nil))
		}
		dl, err := vssp.NewDealer(ed, ed.Scalar().Pick(alpha.Stream("c04-vss-dealer")), ed.Scalar().Pick(alpha.Stream("c04-vss-secret")), pubs, 3)
		if err != nil {
			panic(err)
		}
		b, err := dl.PlaintextDeal(1)
		if err != nil {
			panic(err)
		}
		enc, err := b.Marshal()
		if err != nil {
			panic(err)
		}
		return entry{"", enc, func(in []byte) error {
			d := &vssp.Deal{}
			if err := d.Unmarshal(in, ed); err != nil {
				return err
			}
			// an accepted deal must be usable: re-marshal it
			_, err := d.Marshal()
			return err
		}, true}
	})
	add("vss.rabin.Deal.Unmarshal", func() entry {
		var pubs []kyber.Point
		for i := 0; i < 4; i++ {
			pubs = append(pubs, ed.Point().Mul(ed.Scalar().Pick(alpha.Stream(fmt.Sprintf("c04-vss-%d", i))), nil))
		}
		dl, err := vssr.NewDealer(ed, ed.Scalar().Pick(alpha.Stream("c04-vss-dealer")), ed.Scalar().Pick(alpha.Stream("c04-vss-secret")), pubs, 3)
		if err != nil {
			panic(err)
		}
		b, err := dl.PlaintextDeal(1)
		if err != nil {
			panic(err)
		}
		enc, err := b.Marshal()
		if err != nil {
			panic(err)
		}
		return entry{"", enc, func(in []byte) error {
			d := &vssr.Deal{}
			if err := d.Unmarshal(in, ed); err != nil {
				return err
			}
			_, err := d.Marshal()
			return err
		}, true}
	})
	// encrypted VSS deals: each byte field of an honest EncryptedDeal replaced by hostile bytes, handed to a fresh Verifier
	{
		var privs []kyber.Scalar
		var pubs []kyber.Point
		for i := 0; i < 4; i++ {
			k := ed.Scalar().Pick(alpha.Stream(fmt.Sprintf("c04-vss-%d", i)))
			privs, pubs = append(privs, k), append(pubs, ed.Point().Mul(k, nil))
		}
		dLong := ed.Scalar().Pick(alpha.Stream("c04-vss-dealer"))
		dPub := ed.Point().Mul(dLong, nil)
		for _, field := range []string{"DHKey", "Signature", "Cipher"} {
			field := field
			add("vss.pedersen.ProcessEncryptedDeal/"+field, func() entry {
				dl, err := vssp.NewDealer(ed, dLong, ed.Scalar().Pick(alpha.Stream("c04-vss-secret")), pubs, 3)
				if err != nil {
					panic(err)
				}
				e, err := dl.EncryptedDeal(1)
				if err != nil {
					panic(err)
				}
				honest := map[string][]byte{"DHKey": e.DHKey, "Signature": e.Signature, "Cipher": e.Cipher}[field]
				return entry{"", append([]byte{}, honest...), func(in []byte) error {
					v, err := vssp.NewVerifier(ed, privs[1], dPub, pubs)
					if err != nil {
						return err
					}
					m := &vssp.EncryptedDeal{DHKey: append([]byte{}, e.DHKey...), Signature: append([]byte{}, e.Signature...), Cipher: append([]byte{}, e.Cipher...)}
					switch field {
					case "DHKey":
						m.DHKey = in
					case "Signature":
						m.Signature = in
					case "Cipher":
						m.Cipher = in
					}
					_, err = v.ProcessEncryptedDeal(m)
					return err
				}, true}
			})
			if field == "DHKey" {
				continue // a kyber.Point in the Rabin variant
			}
			add("vss.rabin.ProcessEncryptedDeal/"+field, func() entry {
				dl, err := vssr.NewDealer(ed, dLong, ed.Scalar().Pick(alpha.Stream("c04-vss-secret")), pubs, 3)
				if err != nil {
					panic(err)
				}
				e, err := dl.EncryptedDeal(1)
				if err != nil {
					panic(err)
				}
				honest := map[string][]byte{"Signature": e.Signature, "Cipher": e.Cipher}[field]
				return entry{"", append([]byte{}, honest...), func(in []byte) error {
					v, err := vssr.NewVerifier(ed, privs[1], dPub, pubs)
					if err != nil {
						return err
					}
					m := &vssr.EncryptedDeal{DHKey: e.DHKey.Clone(), Signature: append([]byte{}, e.Signature...), Cipher: append([]byte{}, e.Cipher...)}
					if field == "Signature" {
						m.Signature = in
					} else {
						m.Cipher = in
					}
					_, err = v.ProcessEncryptedDeal(m)
					return err
				}, true}
			})
		}
	}
	// shuffle proofs
	add("shuffle.Verifier/pair k=3", func() entry {
		k := 3
		G, H := ed.Point().Base(), ed.Point().Mul(ed.Scalar().Pick(alpha.Stream("c04-shuffle-h")), nil)
		var X, Y []kyber.Point
		for i := 0; i < k; i++ {
			X = append(X, ed.Point().Mul(ed.Scalar().Pick(alpha.Stream(fmt.Sprintf("c04-shuffle-x%d", i))), nil))
			Y = append(Y, ed.Point().Mul(ed.Scalar().Pick(alpha.Stream(fmt.Sprintf("c04-shuffle-y%d", i))), nil))
		}
		Xb, Yb, prover := shuffle.Shuffle(ed, G, H, X, Y, alpha.Stream("c04-shuffle"))
		prf, err := proof.HashProve(ed, "c04-shuffle", prover)
		if err != nil {
			panic(err)
		}
		return entry{"", prf, func(in []byte) error {
			return proof.HashVerify(ed, "c04-shuffle", shuffle.Verifier(ed, G, H, X, Y, Xb, Yb), in)
		}, true}
	})
	add("shuffle.BiffleVerifier", func() entry {
		G, H := ed.Point().Base(), ed.Point().Mul(ed.Scalar().Pick(alpha.Stream("c04-shuffle-h")), nil)
		var X, Y [2]kyber.Point
		for i := 0; i < 2; i++ {
			X[i] = ed.Point().Mul(ed.Scalar().Pick(alpha.Stream(fmt.Sprintf("c04-biffle-x%d", i))), nil)
			Y[i] = ed.Point().Mul(ed.Scalar().Pick(alpha.Stream(fmt.Sprintf("c04-biffle-y%d", i))), nil)
		}
		Xb, Yb, prover := shuffle.Biffle(ed, G, H, X, Y, alpha.Stream("c04-biffle"))
		prf, err := proof.HashProve(ed, "c04-biffle", prover)
		if err != nil {
			panic(err)
		}
		return entry{"", prf, func(in []byte) error {
			return proof.HashVerify(ed, "c04-biffle", shuffle.BiffleVerifier(ed, G, H, X, Y, Xb, Yb), in)
		}, true}
	})
	// hexadecimal helpers
	for _, gs := range []struct {
		name string
		g    kyber.Group
	}{{"ed25519", ed}, {"p256", pp}} {
		gs := gs
		add("encoding.StringHexToPoint/"+gs.name, func() entry {
			h, err := encoding.PointToStringHex(gs.g, gs.g.Point().Mul(gs.g.Scalar().SetInt64(7), nil))
			if err != nil {
				panic(err)
			}
			return entry{"", []byte(h), func(in []byte) error { _, err := encoding.StringHexToPoint(gs.g, string(in)); return err }, true}
		})
		add("encoding.ReadHexScalar/"+gs.name, func() entry {
			h, err := encoding.ScalarToStringHex(gs.g, gs.g.Scalar().SetInt64(-7))
			if err != nil {
				panic(err)
			}
			return entry{"", []byte(h), func(in []byte) error { _, err := encoding.ReadHexScalar(gs.g, bytes.NewReader(in)); return err }, true}
		})
	}
	_ = pairing.Suite(nil)
	return out
}
