// Package c16: encryption round-trips, hides the plaintext and rejects altered
// ciphertexts: ECIES, IBE (CCA on both assignments, CPA), anonymous-set.
package c16

import (
	"crypto/sha512"
	"hash"
	"bytes"
	"crypto/sha256"
	"fmt"

	"go.dedis.ch/kyber/v4"
	"go.dedis.ch/kyber/v4/encrypt/ecies"
	"go.dedis.ch/kyber/v4/encrypt/ibe"
	"go.dedis.ch/kyber/v4/group/edwards25519"
	"go.dedis.ch/kyber/v4/group/p256"
	"go.dedis.ch/kyber/v4/pairing/bn256"
	"go.dedis.ch/kyber/v4/sign/anon"
	"verif/harness/alpha"
	"verif/harness/groups"
	"verif/harness/vf"
)

func lengths(thorough bool) []int {
	var l []int
	for i := 0; i <= 80; i++ {
		l = append(l, i)
	}
	l = append(l, 127, 128, 129, 255, 256, 4095, 4096)
	return l
}

func plaintext(n int, pat int) []byte {
	m := make([]byte, n)
	for i := range m {
		switch pat {
		case 0:
			m[i] = byte(i*13 + 7) // counter-like, every 16-byte window distinct from a keystream with overwhelming probability
		case 1:
			m[i] = 0x00
		case 2:
			m[i] = 0xff
		default:
			m[i] = 'A' + byte(i%23)
		}
	}
	return m
}

// leak reports an aligned 16-byte window of msg appearing at the same offset in body.
func leak(msg, body []byte) int {
	for off := 0; off+16 <= len(msg) && off+16 <= len(body); off += 16 {
		if bytes.Equal(msg[off:off+16], body[off:off+16]) {
			return off
		}
	}
	return -1
}

func guard(x *vf.Ctx, key, what string, f func()) {
	defer func() {
		if r := recover(); r != nil {
			x.Failf(key, "%s panicked: %v", what, r)
		}
	}()
	f()
}

func Run(c *vf.Check) {
	c.Level = "model_checking"
	var jobs []func()
	for _, gn := range []string{"ed25519", "p256", "qr512", "bn256.G1", "kilic.G1"} {
		g := groups.ByName(gn)
		for part := 0; part < 4; part++ {
			g, part := g, part
			jobs = append(jobs, func() { runECIES(c, g, part, 4) })
		}
	}
	for _, g := range groups.All() {
		g := g
		if g.MulNil {
			jobs = append(jobs, func() { runECIESHashes(c, g) })
		}
	}
	for _, ps := range groups.PairingSuites() {
		ps := ps
		if groups.ByName(ps.Name + ".G2").Hash {
			jobs = append(jobs, func() { runIBE(c, ps, "CCAonG1") }, func() { runIBE(c, ps, "CPAonG1") })
		}
		jobs = append(jobs, func() { runIBE(c, ps, "CCAonG2") })
	}
	for _, sn := range []string{"ed25519", "p256", "bn256.G1"} {
		maxN := 4
		if c.Thorough() || sn == "ed25519" {
			maxN = 6
		}
		for n := 1; n <= maxN; n++ {
			sn, n := sn, n
			jobs = append(jobs, func() { runAnon(c, sn, n) })
		}
	}
	vf.Parallel(len(jobs), func(i int) { jobs[i]() })
	c.Finish("engine E: ECIES on {Ed25519, P-256, QR512, bn256.G1, kilic.G1}, IBE CCA on both assignments / CPA on the suites with the needed hash-to-group, anonymous-set encryption on {Ed25519, P-256, bn256.G1}: every message length 0..80 and {127,128,129,255,256,4095,4096} (IBE: every length 0..2*hash size+2) x 4 plaintext patterns; round trip = plaintext, or refusal at encryption; wrong key / identity / recipient index => error (authenticated schemes; IBE-CCA: judged for the empty message - the known finding - and from 8 bytes on, in between the outcome depends on randomness kyber draws itself with probability 2^(-8 len)); one bit per byte of the ciphertext flipped (thorough: every bit for lengths <= 80) and every truncation => error, never a panic, never another plaintext; no aligned 16-byte plaintext window at the same offset of the ciphertext body; ECIES with the hash option nil / sha256.New / sha512.New on either side on every group with an implicit generator (17): decrypts under every spelling of the same hash only; CPA bodies extended in transit never panic; anonymous-set body altered with the tag recomputed without any key (open known finding); anonymous-set messages of 65535, 65536, 65537 and 200001 bytes; anonymous-set: sizes 1..6 on Ed25519, 1..4 on the others (thorough 1..6) x every recipient index. "+
		"non-trivial = non-empty messages; distinct by (scheme, group, length, pattern, mutation class)",
		[]string{"ECIES, IBE and anon.Encrypt draw from crypto/rand inside kyber: only verdicts and plaintexts are compared, never ciphertext bytes", "every Decrypt gets its own copy of the ciphertext"}, nil)
}

func runECIES(c *vf.Check, g *groups.G, part, parts int) {
	pk := "C16/ecies/" + g.Name
	priv := alpha.ToScalar(g.Scalar(), alpha.Rand("c16-ecies", g.Order), g.Order)
	pub := g.Point().Mul(priv, nil)
	wrong := alpha.ToScalar(g.Scalar(), alpha.Rand("c16-ecies-wrong", g.Order), g.Order)
	pl := g.Group.PointLen()
	if part == 0 {
		// a family of 600 round trips (the ephemeral key is fresh each time: encodings with rare shapes - leading zero
		// bytes - occur with probability 2^-7 .. 2^-8 per encryption); the ciphertext length is always the same
		for blk := 0; blk < 600; blk += 100 {
			blk := blk
			id := fmt.Sprintf("ecies %s: round trips %d..%d of a 20-byte message", g.Name, blk, blk+99)
			var failing []byte // the first ciphertext that failed: a re-run of the case judges that one again
			c.Case(id, pk, func(x *vf.Ctx) {
				msg := plaintext(20, 2)
				for i := 0; i < 100; i++ {
					var ct []byte
					var err error
					if failing != nil {
						ct = append([]byte{}, failing...)
					} else {
						ct, err = ecies.Encrypt(g.Group, pub, append([]byte{}, msg...), sha256.New)
					}
					c.Eval(1)
					if err != nil {
						x.Failf(pk+"/encrypt", "%s: Encrypt refused: %v", id, err)
						return
					}
					got, err := ecies.Decrypt(g.Group, priv, append([]byte{}, ct...), sha256.New)
					if err != nil || !bytes.Equal(got, msg) {
						failing = append([]byte{}, ct...)
						x.Failf(pk+"/roundtrip", "%s: a round trip fails (%d-byte ciphertext %x..): %v", id, len(ct), ct[:8], err)
						return
					}
				}
			})
			c.Count("transitions", 100)
		}
	}
	for li, n := range lengths(c.Thorough()) {
		if li%parts != part {
			continue
		}
		for pat := 0; pat < 4; pat++ {
			if pat > 0 && n > 80 {
				continue
			}
			n, pat := n, pat
			id := fmt.Sprintf("ecies %s len=%d pat=%d", g.Name, n, pat)
			// kyber draws the encryption randomness from crypto/rand: the ciphertext is produced once per case, so that
			// a re-run of the case judges the same ciphertext
			var mct, mbuf []byte
			var merr error
			have := false
			c.Case(id, pk, func(x *vf.Ctx) {
				msg := plaintext(n, pat)
				if !have {
					mbuf = slack(msg)
					mct, merr = ecies.Encrypt(g.Group, pub, mbuf[:n], sha256.New)
					have = true
				}
				buf, ct, err := mbuf, mct, merr
				if err != nil {
					x.Failf(pk+"/encrypt", "%s: Encrypt refused: %v", id, err)
					return
				}
				if !intact(buf, msg) {
					x.Failf(pk+"/encrypt-clobbers-caller", "%s: Encrypt changed the caller's message buffer (or the memory after it)", id)
				}
				c.Eval(1)
				got, err := ecies.Decrypt(g.Group, priv, append([]byte{}, ct...), sha256.New)
				{
					// the same buffer decrypted twice, and left as it was
					buf := append([]byte{}, ct...)
					g1, e1 := ecies.Decrypt(g.Group, priv, buf, sha256.New)
					g2, e2 := ecies.Decrypt(g.Group, priv, buf, sha256.New)
					if err == nil && (e1 != nil || e2 != nil || !bytes.Equal(g1, got) || !bytes.Equal(g2, got) || !bytes.Equal(buf, ct)) {
						x.Failf(pk+"/decrypt-consumes-ciphertext", "%s: decrypting the same buffer twice fails, differs, or changes the buffer (%v, %v)", id, e1, e2)
					}
				}
				if err != nil || !bytes.Equal(got, msg) {
					x.Failf(pk+"/roundtrip", "%s: Decrypt(Encrypt(m)) = %d bytes, err=%v", id, len(got), err)
					return
				}
				if len(ct) < pl || (pat != 1 && leak(msg, ct[pl:]) >= 0) {
					x.Failf(pk+"/plaintext-in-clear", "%s: plaintext block visible in the ciphertext body", id)
				}
				if out, err := ecies.Decrypt(g.Group, wrong, append([]byte{}, ct...), sha256.New); err == nil {
					x.Failf(pk+"/wrong-key-accepted", "%s: decryption with another key returns %d bytes without error", id, len(out))
				}
				step := 8
				if c.Thorough() && n <= 80 {
					step = 1
				}
				var bits []int
				for bit := 0; bit < len(ct)*8; bit += step {
					b := bit
					if step > 1 {
						b += (bit / 8) % 8
					}
					bits = append(bits, b)
				}
				if step > 1 {
					// format / sign / boundary bytes: every bit
					for _, by := range []int{0, pl - 1, pl, len(ct) - 1} {
						for k := 0; k < 8 && by >= 0 && by < len(ct); k++ {
							bits = append(bits, by*8+k)
						}
					}
				}
				for _, b := range bits {
					mut := append([]byte{}, ct...)
					mut[b/8] ^= 1 << (b % 8)
					guard(x, pk+"/panic", id+" bitflip", func() {
						c.Eval(1)
						if out, err := ecies.Decrypt(g.Group, priv, mut, sha256.New); err == nil {
							x.Failf(pk+"/altered-accepted", "%s: ciphertext with bit %d flipped decrypts without error (%d bytes, equal to plaintext: %v)", id, b, len(out), bytes.Equal(out, msg))
						}
					})
					if x.Failed() {
						return
					}
				}
				for l := 0; l < len(ct); l++ {
					if n > 300 && l%97 != 0 {
						continue
					}
					guard(x, pk+"/panic", id+" truncation", func() {
						if _, err := ecies.Decrypt(g.Group, priv, append([]byte{}, ct[:l]...), sha256.New); err == nil {
							x.Failf(pk+"/truncated-accepted", "%s: ciphertext truncated to %d bytes decrypts without error", id, l)
						}
					})
				}
			})
			c.Count("transitions", 1)
			c.Count("states", 1)
			if n > 0 {
				c.Nontrivial(id)
			}
			c.Class("ecies/"+g.Name, func() any { return id })
		}
	}
}

func runIBE(c *vf.Check, ps groups.PS, mode string) {
	pk := "C16/ibe/" + ps.Name + "/" + mode
	s := ps.Suite
	hs := s.Hash().Size()
	g1, g2 := groups.ByName(ps.Name+".G1"), groups.ByName(ps.Name+".G2")
	msk := alpha.ToScalar(g1.Scalar(), alpha.Rand("c16-ibe-msk", g1.Order), g1.Order)
	ids := [][]byte{[]byte("alice"), []byte("bob"), {}}
	type hp interface{ Hash([]byte) kyber.Point }
	for idi, ID := range ids {
		for n := 0; n <= 2*hs+2; n++ {
			if idi > 0 && n%7 != 0 {
				continue
			}
			idi, ID, n := idi, ID, n
			id := fmt.Sprintf("ibe %s %s id#%d len=%d", ps.Name, mode, idi, n)
			var mcca *ibe.Ciphertext
			var mcpa *ibe.CiphertextCPA
			var merr error
			have := false
			c.Case(id, pk, func(x *vf.Ctx) {
				msg := plaintext(n, 0)
				other := ids[(idi+1)%len(ids)]
				switch mode {
				case "CCAonG1", "CCAonG2":
					var master, privK, privOther kyber.Point
					var enc func() (*ibe.Ciphertext, error)
					var dec func(p kyber.Point, ct *ibe.Ciphertext) ([]byte, error)
					if mode == "CCAonG1" {
						master = g1.Point().Mul(msk, nil)
						privK = g2.Point().Mul(msk, g2.Point().(hp).Hash(ID))
						privOther = g2.Point().Mul(msk, g2.Point().(hp).Hash(other))
						enc = func() (*ibe.Ciphertext, error) { return ibe.EncryptCCAonG1(s, master, ID, append([]byte{}, msg...)) }
						dec = func(p kyber.Point, ct *ibe.Ciphertext) ([]byte, error) { return ibe.DecryptCCAonG1(s, p, ct) }
					} else {
						master = g2.Point().Mul(msk, nil)
						privK = g1.Point().Mul(msk, g1.Point().(hp).Hash(ID))
						privOther = g1.Point().Mul(msk, g1.Point().(hp).Hash(other))
						enc = func() (*ibe.Ciphertext, error) { return ibe.EncryptCCAonG2(s, master, ID, append([]byte{}, msg...)) }
						dec = func(p kyber.Point, ct *ibe.Ciphertext) ([]byte, error) { return ibe.DecryptCCAonG2(s, p, ct) }
					}
					var ct *ibe.Ciphertext
					var err error
					guard(x, pk+"/panic", id+" encrypt", func() {
						if !have {
							mcca, merr = enc()
							have = true
						}
						ct, err = mcca, merr
					})
					c.Eval(1)
					if x.Failed() {
						return
					}
					if err != nil {
						if n <= hs {
							x.Failf(pk+"/refused", "%s: message within the supported length refused: %v", id, err)
						}
						c.Class("ibe/"+mode+"/refused", func() any { return id })
						return
					}
					cp := func() *ibe.Ciphertext {
						return &ibe.Ciphertext{U: ct.U.Clone(), V: append([]byte{}, ct.V...), W: append([]byte{}, ct.W...)}
					}
					var got []byte
					guard(x, pk+"/panic", id+" decrypt", func() { got, err = dec(privK, cp()) })
					if x.Failed() {
						return
					}
					if err != nil || !bytes.Equal(got, msg) {
						x.Failf(pk+"/roundtrip", "%s: accepted at encryption but Decrypt gives %d bytes, err=%v", id, len(got), err)
						return
					}
					// the same ciphertext object decrypted again (a wrong key first, then the right one twice): Decrypt does
					// not consume or rewrite the caller's ciphertext
					{
						again := cp()
						guard(x, pk+"/panic", id+" decrypt again", func() {
							_, _ = dec(privOther, again)
							g1, e1 := dec(privK, again)
							g2, e2 := dec(privK, again)
							if e1 != nil || e2 != nil || !bytes.Equal(g1, msg) || !bytes.Equal(g2, msg) {
								x.Failf(pk+"/decrypt-consumes-ciphertext", "%s: decrypting the same ciphertext object again fails or gives another plaintext (%v, %v)", id, e1, e2)
							}
						})
						if !again.U.Equal(ct.U) || !bytes.Equal(again.V, ct.V) || !bytes.Equal(again.W, ct.W) {
							x.Failf(pk+"/decrypt-consumes-ciphertext", "%s: Decrypt changed the caller's ciphertext", id)
						}
					}
					if leak(msg, ct.W) >= 0 || leak(msg, ct.V) >= 0 {
						x.Failf(pk+"/plaintext-in-clear", "%s: a plaintext block is visible in the ciphertext", id)
					}
					if n > 0 {
						clear := 0
						for i := range msg {
							if ct.W[i] == msg[i] {
								clear++
							}
						}
						if n >= 8 && clear == n {
							x.Failf(pk+"/plaintext-in-clear", "%s: W equals the plaintext", id)
						}
					}
					// The scheme draws sigma with the length of the message, so the identity is bound by 8*len(msg) bits
					// only: the key of another identity decrypts an n-byte message with probability 2^(-8n). n = 0 is the
					// deterministic witness of that weakness (its own key below); for 0 < n < 8 the outcome depends on the
					// randomness kyber draws from crypto/rand and is not judged; from 8 bytes on it must fail.
					if n == 0 || n >= 8 {
						guard(x, pk+"/panic", id+" wrong identity", func() {
							if out, err := dec(privOther, cp()); err == nil {
								if n == 0 {
									x.Failf(pk+"/short-message-not-identity-bound", "%s: the ciphertext of the empty message decrypts without error under the key of another identity (sigma has the length of the message: an n-byte message is bound to its identity by 8n bits only)", id)
								} else {
									x.Failf(pk+"/wrong-identity-accepted", "%s: the key of another identity decrypts without error (%d bytes)", id, len(out))
								}
							}
						})
					}
					// alterations
					muts := map[string]func(m *ibe.Ciphertext){
						"U+B": func(m *ibe.Ciphertext) { m.U = m.U.Clone().Add(m.U, m.U.Clone().Base()) },
						"U=O": func(m *ibe.Ciphertext) { m.U = m.U.Clone().Null() },
						"V-trunc": func(m *ibe.Ciphertext) {
							if len(m.V) > 0 {
								m.V = m.V[:len(m.V)-1]
							} else {
								m.V = []byte{1}
							}
						},
						"W-trunc": func(m *ibe.Ciphertext) {
							if len(m.W) > 0 {
								m.W = m.W[:len(m.W)-1]
							} else {
								m.W = []byte{1}
							}
						},
						"VW-trunc": func(m *ibe.Ciphertext) {
							if len(m.W) > 0 {
								m.V, m.W = m.V[:len(m.V)-1], m.W[:len(m.W)-1]
							} else {
								m.V, m.W = []byte{1}, []byte{1}
							}
						},
						"W-extend": func(m *ibe.Ciphertext) { m.W = append(m.W, 0) },
					}
					for i := 0; i < n; i++ {
						i := i
						muts[fmt.Sprintf("V[%d]", i)] = func(m *ibe.Ciphertext) { m.V[i] ^= 1 << (i % 8) }
						muts[fmt.Sprintf("W[%d]", i)] = func(m *ibe.Ciphertext) { m.W[i] ^= 1 << (i % 8) }
					}
					for mn, mf := range muts {
						m := cp()
						mf(m)
						guard(x, pk+"/panic", id+" altered "+mn, func() {
							c.Eval(1)
							if out, err := dec(privK, m); err == nil && !(mn == "VW-trunc" && n == 0) {
								x.Failf(pk+"/altered-accepted", "%s: ciphertext with %s altered decrypts without error (%d bytes)", id, opOf(mn), len(out))
							}
						})
					}
				case "CPAonG1":
					base := g1.Point().Base()
					public := g1.Point().Mul(msk, base)
					privK := g2.Point().Mul(msk, g2.Point().(hp).Hash(ID))
					var ct *ibe.CiphertextCPA
					var err error
					guard(x, pk+"/panic", id+" encrypt", func() {
						if !have {
							mcpa, merr = ibe.EncryptCPAonG1(s, base, public, ID, append([]byte{}, msg...))
							have = true
						}
						ct, err = mcpa, merr
					})
					c.Eval(1)
					if x.Failed() {
						return
					}
					if err != nil {
						c.Class("ibe/"+mode+"/refused", func() any { return id })
						return
					}
					var got []byte
					guard(x, pk+"/panic", id+" decrypt", func() {
						got, err = ibe.DecryptCPAonG1(s, privK, &ibe.CiphertextCPA{RP: ct.RP.Clone(), C: append([]byte{}, ct.C...)})
					})
					if x.Failed() {
						return
					}
					if err != nil || !bytes.Equal(got, msg) {
						x.Failf(pk+"/roundtrip", "%s: accepted at encryption but Decrypt gives %d bytes, err=%v", id, len(got), err)
						return
					}
					if off := leak(msg, ct.C); off >= 0 {
						x.Failf(pk+"/plaintext-in-clear", "%s: plaintext bytes %d..%d appear unencrypted in the ciphertext", id, off, off+16)
					}
					for _, l := range []int{0, n / 2} {
						guard(x, pk+"/panic", id+" truncated", func() {
							_, _ = ibe.DecryptCPAonG1(s, privK, &ibe.CiphertextCPA{RP: ct.RP.Clone(), C: append([]byte{}, ct.C[:l]...)})
						})
					}
					// bytes appended to the body in transit (1, a hash size, more): no panic (the scheme is not authenticated)
					for _, extra := range []int{1, hs - n, hs - n + 1, hs, 3 * hs} {
						if extra <= 0 {
							continue
						}
						guard(x, pk+"/panic", fmt.Sprintf("%s body extended by %d bytes", id, extra), func() {
							_, _ = ibe.DecryptCPAonG1(s, privK, &ibe.CiphertextCPA{RP: ct.RP.Clone(), C: append(append([]byte{}, ct.C...), make([]byte, extra)...)})
						})
					}
				}
			})
			c.Count("transitions", 1)
			c.Count("states", 1)
			if n > 0 {
				c.Nontrivial(id)
			}
			c.Class("ibe/"+mode, func() any { return id })
		}
	}
}

// runECIESHashes: every group of the registry that has an implicit generator, hash option nil (documented default:
// SHA-256) and explicit hashes on either side: a ciphertext made under one spelling of a hash decrypts under every
// spelling of the same hash and under no other hash.
func runECIESHashes(c *vf.Check, g *groups.G) {
	pk := "C16/ecies/" + g.Name
	priv := alpha.ToScalar(g.Scalar(), alpha.Rand("c16-ecies", g.Order), g.Order)
	pub := g.Point().Mul(priv, nil)
	type hopt struct {
		name string
		f    func() hash.Hash
		eff  string
	}
	hs := []hopt{{"nil", nil, "sha256"}, {"sha256.New", sha256.New, "sha256"}, {"sha512.New", sha512.New, "sha512"}}
	for _, he := range hs {
		he := he
		id := fmt.Sprintf("ecies %s: encrypted with hash option %s", g.Name, he.name)
		var ct []byte
		var cerr error
		have := false
		c.Case(id, pk, func(x *vf.Ctx) {
			msg := plaintext(45, 1)
			guard(x, pk+"/panic", id+" encrypt", func() {
				if !have {
					ct, cerr = ecies.Encrypt(g.Group, pub, append([]byte{}, msg...), he.f)
					have = true
				}
			})
			if x.Failed() {
				return
			}
			if cerr != nil {
				x.Failf(pk+"/encrypt", "%s: Encrypt refused: %v", id, cerr)
				return
			}
			for _, hd := range hs {
				var got []byte
				var err error
				guard(x, pk+"/panic", id+" decrypt with "+hd.name, func() {
					got, err = ecies.Decrypt(g.Group, priv, append([]byte{}, ct...), hd.f)
				})
				c.Eval(1)
				if x.Failed() {
					return
				}
				if hd.eff == he.eff && (err != nil || !bytes.Equal(got, msg)) {
					x.Failf(pk+"/roundtrip", "%s: decryption with hash option %s (the same hash) fails: %v", id, hd.name, err)
					return
				}
				if hd.eff != he.eff && err == nil {
					x.Failf(pk+"/other-hash-accepted", "%s: decryption with hash option %s (another hash) succeeds", id, hd.name)
					return
				}
			}
		})
		c.Count("transitions", 3)
		c.Nontrivial(id)
	}
}

func opOf(s string) string {
	for i, ch := range s {
		if ch == '[' {
			return s[:i]
		}
	}
	return s
}

func anonSuite(name string) anon.Suite {
	switch name {
	case "ed25519":
		return edwards25519.NewBlakeSHA256Ed25519()
	case "p256":
		return p256.NewBlakeSHA256P256()
	}
	return bn256.NewSuiteG1()
}

func runAnon(c *vf.Check, sname string, n int) {
	pk := "C16/anon/" + sname
	s := anonSuite(sname)
	g := groups.ByName(sname)
	var privs []kyber.Scalar
	var set anon.Set
	for i := 0; i < n; i++ {
		p := alpha.ToScalar(s.Scalar(), alpha.Rand(fmt.Sprintf("c16-anon-%d", i), g.Order), g.Order)
		privs, set = append(privs, p), append(set, s.Point().Mul(p, nil))
	}
	outsider := alpha.ToScalar(s.Scalar(), alpha.Rand("c16-anon-outsider", g.Order), g.Order)
	lens := []int{0, 1, 15, 16, 17, 33, 64, 129, 4096}
	if n == 2 {
		lens = lengths(false)
		if sname == "ed25519" {
			lens = append(lens, 65535, 65536, 65537, 200001) // beyond any internal chunk size
		}
	}
	for _, ml := range lens {
		ml := ml
		id := fmt.Sprintf("anon %s set=%d len=%d", sname, n, ml)
		var mct, mbuf []byte
		var merr error
		have := false
		c.Case(id, pk, func(x *vf.Ctx) {
			msg := plaintext(ml, 0)
			if !have {
				mbuf = slack(msg)
				mct, merr = anon.Encrypt(s, mbuf[:ml], set)
				have = true
			}
			buf, ct, err := mbuf, mct, merr
			if err != nil {
				x.Failf(pk+"/encrypt", "%s: Encrypt refused: %v", id, err)
				return
			}
			if !intact(buf, msg) {
				x.Failf(pk+"/encrypt-clobbers-caller", "%s: Encrypt changed the caller's message buffer (or the memory after it)", id)
			}
			hdr := s.PointLen() + n*s.ScalarLen()
			if len(ct) >= hdr && leak(msg, ct[hdr:]) >= 0 {
				x.Failf(pk+"/plaintext-in-clear", "%s: plaintext block visible in the ciphertext body", id)
			}
			for mine := 0; mine < n; mine++ {
				c.Eval(1)
				got, err := anon.Decrypt(s, append([]byte{}, ct...), set, mine, privs[mine])
				if err != nil || !bytes.Equal(got, msg) {
					x.Failf(pk+"/roundtrip", "%s: recipient %d: Decrypt gives %d bytes, err=%v", id, mine, len(got), err)
					return
				}
				// another recipient's index with my key, and an outsider's key
				if n > 1 {
					if out, err := anon.Decrypt(s, append([]byte{}, ct...), set, (mine+1)%n, privs[mine]); err == nil {
						x.Failf(pk+"/wrong-index-accepted", "%s: key %d under index %d decrypts without error (%d bytes)", id, mine, (mine+1)%n, len(out))
					}
				}
				if out, err := anon.Decrypt(s, append([]byte{}, ct...), set, mine, outsider); err == nil {
					x.Failf(pk+"/wrong-key-accepted", "%s: an outsider's key at index %d decrypts without error (%d bytes)", id, mine, len(out))
				}
			}
			mine := n - 1
			type flip struct{ i, k, j int } // j >= 0: the same bit of byte j is flipped as well
			var flips []flip
			for i := 0; i < len(ct); i++ {
				if ml > 300 && i > hdr+40 && i < len(ct)-40 && i%101 != 0 {
					continue
				}
				flips = append(flips, flip{i, i % 8, -1})
			}
			// format / sign / boundary bytes: every bit; and two bits of the tag at once
			for _, by := range []int{0, s.PointLen() - 1, s.PointLen(), hdr - 1, hdr, len(ct) - 16, len(ct) - 1} {
				for k := 0; k < 8 && by >= 0 && by < len(ct); k++ {
					flips = append(flips, flip{by, k, -1})
				}
			}
			if len(ct) >= hdr+16 {
				// the same bit in two bytes of the tag / of the body (differences that cancel under XOR or addition)
				for _, pr := range [][2]int{{len(ct) - 16, len(ct) - 15}, {len(ct) - 2, len(ct) - 1}, {len(ct) - 16, len(ct) - 1}, {hdr, len(ct) - 1}} {
					if pr[0] >= 0 && pr[0] != pr[1] && pr[0] < len(ct) {
						flips = append(flips, flip{pr[0], 0, pr[1]}, flip{pr[0], 7, pr[1]})
					}
				}
			}
			for _, fl := range flips {
				i := fl.i
				mut := append([]byte{}, ct...)
				mut[i] ^= 1 << fl.k
				if fl.j >= 0 {
					mut[fl.j] ^= 1 << fl.k
				}
				guard(x, pk+"/panic", id+" bitflip", func() {
					c.Eval(1)
					if out, err := anon.Decrypt(s, mut, set, mine, privs[mine]); err == nil {
						where := "body/tag"
						if i < s.PointLen() {
							where = "ephemeral point"
						} else if i < hdr {
							where = fmt.Sprintf("header slot %d", (i-s.PointLen())/s.ScalarLen())
						}
						x.Failf(pk+"/altered-accepted", "%s: ciphertext with byte %d (%s) altered decrypts without error for recipient %d (same plaintext: %v)", id, i, where, mine, bytes.Equal(out, msg))
					}
				})
				if x.Failed() {
					return
				}
			}
			for l := 0; l < len(ct); l++ {
				if ml > 300 && l%97 != 0 {
					continue
				}
				guard(x, pk+"/panic", id+" truncation", func() {
					if _, err := anon.Decrypt(s, append([]byte{}, ct[:l]...), set, mine, privs[mine]); err == nil && !(ml > 0 && false) {
						x.Failf(pk+"/truncated-accepted", "%s: ciphertext truncated to %d bytes decrypts without error", id, l)
					}
				})
			}
		})
		// forging strategy (a case of its own): the body altered and the 16-byte tag recomputed the way anyone can who
		// knows the suite (the tag is the suite's XOF seeded with the ciphertext body): an authenticated scheme must refuse
		if ml > 0 && have && merr == nil {
			c.Case(id+": body altered, tag recomputed without a key", pk, func(x *vf.Ctx) {
				msg := plaintext(ml, 0)
				ct := mct
				hdr := s.PointLen() + n*s.ScalarLen()
				if len(ct) < hdr+ml+16 {
					return
				}
				mut := append([]byte{}, ct...)
				mut[hdr+ml/2] ^= 0x20
				tag := make([]byte, 16)
				_, _ = s.XOF(mut[hdr : hdr+ml]).Read(tag)
				copy(mut[len(mut)-16:], tag)
				guard(x, pk+"/panic", id+" body altered, tag recomputed", func() {
					c.Eval(1)
					if out, err := anon.Decrypt(s, mut, set, n-1, privs[n-1]); err == nil && !bytes.Equal(out, msg) {
						x.Failf(pk+"/body-altered-tag-recomputed", "%s: with one body bit flipped and the tag recomputed as XOF(body) - no key needed - Decrypt returns a different plaintext without error", id)
					}
				})
			})
		}
		c.Count("transitions", 1)
		c.Count("states", 1)
		if ml > 0 {
			c.Nontrivial(id)
		}
		c.Class("anon/"+sname, func() any { return id })
	}
}

// slack returns a copy of msg inside a larger buffer (64 spare bytes of capacity, filled with 0xCD),
// as a message that is a sub-slice of a caller's buffer would be.
func slack(msg []byte) []byte {
	b := make([]byte, len(msg)+64)
	copy(b, msg)
	for i := len(msg); i < len(b); i++ {
		b[i] = 0xCD
	}
	return b
}

func intact(buf, msg []byte) bool {
	if !bytes.Equal(buf[:len(msg)], msg) {
		return false
	}
	for _, v := range buf[len(msg):] {
		if v != 0xCD {
			return false
		}
	}
	return true
}
