// Package c13: PVSS and DLEQ - only correct shares verify; any t verified
// shares recover.
package c13

import (
	"bytes"
	"crypto/cipher"
	"fmt"
	"math/big"

	"go.dedis.ch/kyber/v4"
	"go.dedis.ch/kyber/v4/group/edwards25519"
	"go.dedis.ch/kyber/v4/group/p256"
	"go.dedis.ch/kyber/v4/proof/dleq"
	"go.dedis.ch/kyber/v4/share"
	"go.dedis.ch/kyber/v4/share/pvss"
	"verif/harness/alpha"
	"verif/harness/fmod"
	"verif/harness/groups"
	"verif/harness/vf"
)

func suiteFor(name, label string) pvss.Suite {
	if name == "p256" {
		return &detP256{p256.NewBlakeSHA256P256(), label}
	}
	return edwards25519.NewBlakeSHA256Ed25519WithRand(alpha.Stream("c13-" + label))
}

type detP256 struct {
	*p256.Suite128
	label string
}

var p256streams = map[string]cipher.Stream{}

func (d *detP256) RandomStream() cipher.Stream {
	s, ok := p256streams[d.label]
	if !ok {
		s = alpha.Stream("c13-" + d.label)
		p256streams[d.label] = s
	}
	return s
}

func Run(c *vf.Check) {
	c.Level = "model_checking"
	var jobs []func()
	maxN := 4
	if c.Thorough() {
		maxN = 6
	}
	for _, gn := range []string{"ed25519", "p256"} {
		for n := 2; n <= maxN; n++ {
			for t := 1; t <= n; t++ {
				gn, n, t := gn, n, t
				jobs = append(jobs, func() { runPVSS(c, gn, n, t, false) })
			}
		}
		// larger trustee lists (the statement quantifies n up to 10): a reduced menu
		if gn == "ed25519" || c.Thorough() {
			bigNs := []int{7, 10}
			if c.Thorough() {
				bigNs = []int{7, 8, 9, 10}
			}
			for _, n := range bigNs {
				for t := 1; t <= n; t++ {
					if !c.Thorough() && !(t == 1 || t == 2 || t == n/2+1 || t == n-1 || t == n) {
						continue
					}
					gn, n, t := gn, n, t
					jobs = append(jobs, func() { runPVSS(c, gn, n, t, true) })
				}
			}
		}
		gn := gn
		jobs = append(jobs, func() { runDLEQ(c, gn) })
	}
	vf.Parallel(len(jobs), func(i int) { jobs[i]() })
	c.Finish("engine E: PVSS on Ed25519 and P-256, n=2..4 (thorough ..6), every 1<=t<=n (and n in {7,10} on Ed25519 with t in {1,2,n/2+1,n-1,n} - thorough n=7..10, every t, both groups - on a reduced menu: secret r, every subset of size t-1, t and n, mutations at trustees 0, n/2, n-1), secrets {0,1,r}, second base H in {picked g1, g2, the public key of trustee 0}: all honest encrypted shares verify singly and in batch, every trustee's decrypted share verifies, every subset of decrypted shares (in 2 orders) recovers secret*G iff it has >= t members; "+
		"every single-field mutation of every trustee's encrypted share (S.V, S.I, P.C, P.R, P.VG, P.VH -> value+1 / another trustee's / identity), of a commitment coefficient, of key X[i] (swapped with X[j]), the challenge of another sharing, whole shares swapped between trustees (all pairs) -> the mutated element fails single verification and is absent from the batch output, the caller's input slices are left intact; every single-field mutation of a decrypted share incl. republishing it under another index -> rejected, or recovery still yields secret*G. Recovery lists that reach length t only through a repeated share are refused; the batch verifier handed an altered / foreign commitment polynomial next to the original evaluations keeps nothing. DLEQ (also with both base points equal): proof for x verifies for (xG,xH); each of C,R,VG,VH,xG,xH,G,H altered, and the sum-preserving alterations (xG<->xH, VG<->VH, G<->H, +D/-D shifts) -> error. "+
		"non-trivial = mutated inputs; distinct by (group, n, t, secret, H, trustee, field, mutation)",
		[]string{"the dealer's randomness is a seeded stream", "the expected global challenge is taken from the honest dealer's output (it is not exported by the package)"}, nil)
}

type shareSet struct {
	X    []kyber.Point
	x    []kyber.Scalar
	enc  []*pvss.PubVerShare
	poly *share.PubPoly
	sH   []kyber.Point
	gc   kyber.Scalar
	dec  []*pvss.PubVerShare
}

func cloneShare(s *pvss.PubVerShare) *pvss.PubVerShare {
	c := &pvss.PubVerShare{}
	c.S.I = s.S.I
	c.S.V = s.S.V.Clone()
	c.P.C, c.P.R = s.P.C.Clone(), s.P.R.Clone()
	c.P.VG, c.P.VH = s.P.VG.Clone(), s.P.VH.Clone()
	return c
}

func runPVSS(c *vf.Check, gn string, n, t int, large bool) {
	pk := "C13/pvss/" + gn
	g := groups.ByName(gn)
	q := g.Order
	secrets := []alpha.NS{{Name: "0", V: big.NewInt(0)}, {Name: "1", V: big.NewInt(1)}, {Name: "r", V: alpha.Rand("c13-secret", q)}}
	for si, sec := range secrets {
		for hi := 0; hi < 3; hi++ {
			if hi >= 1 && si != 2 {
				continue
			}
			if large && (si != 2 || hi != 0) {
				continue
			}
			sec, hi := sec, hi
			cfg := fmt.Sprintf("pvss %s n=%d t=%d secret=%s H=g%d", gn, n, t, sec.Name, hi+1)
			var ss *shareSet
			var suite pvss.Suite
			var H, G kyber.Point
			var secret kyber.Scalar
			build := func(label string, secV *big.Int) (*shareSet, error) {
				s := suiteFor(gn, cfg+label)
				set := &shareSet{}
				for i := 0; i < n; i++ {
					xi := alpha.ToScalar(s.Scalar(), alpha.Rand(fmt.Sprintf("c13-x%d", i), q), q)
					set.x, set.X = append(set.x, xi), append(set.X, s.Point().Mul(xi, nil))
				}
				var err error
				set.enc, set.poly, err = pvss.EncShares(s, H, set.X, alpha.ToScalar(s.Scalar(), secV, q), uint32(t))
				if err != nil {
					return nil, err
				}
				for i := 0; i < n; i++ {
					set.sH = append(set.sH, set.poly.Eval(set.enc[i].S.I).V)
				}
				set.gc = set.enc[0].P.C.Clone()
				return set, nil
			}
			ok := false
			c.Case(cfg+": honest", pk, func(x *vf.Ctx) {
				suite = suiteFor(gn, cfg)
				G = suite.Point().Base()
				m := fmod.New(g)
				H = m.Gens[1+hi%(len(m.Gens)-1)]
				if hi == 2 {
					// the second base point is the public key of trustee 0 (two of the points of that trustee's proof coincide)
					H = suite.Point().Mul(alpha.ToScalar(suite.Scalar(), alpha.Rand("c13-x0", q), q), nil)
				}
				secret = alpha.ToScalar(suite.Scalar(), sec.V, q)
				var err error
				ss, err = build("main", sec.V)
				if err != nil {
					x.Failf(pk+"/EncShares", "%s: %v", cfg, err)
					return
				}
				for i := 0; i < n; i++ {
					c.Eval(1)
					if !ss.enc[i].P.C.Equal(ss.gc) {
						x.Failf(pk+"/challenge", "%s: shares do not carry one global challenge", cfg)
					}
					if err := pvss.VerifyEncShare(suite, H, ss.X[i], ss.sH[i], ss.gc, ss.enc[i]); err != nil {
						x.Failf(pk+"/honest-enc-rejected", "%s: honest encrypted share %d rejected: %v", cfg, i, err)
						return
					}
				}
				K, E, err := pvss.VerifyEncShareBatch(suite, H, ss.X, ss.sH, ss.poly, ss.enc)
				if err != nil || len(K) != n || len(E) != n {
					x.Failf(pk+"/honest-batch", "%s: batch verification keeps %d of %d honest shares (err=%v)", cfg, len(E), n, err)
					return
				}
				for i := 0; i < n; i++ {
					d, err := pvss.DecShare(suite, H, ss.X[i], ss.sH[i], ss.x[i], ss.gc, ss.enc[i])
					if err != nil {
						x.Failf(pk+"/DecShare", "%s: trustee %d cannot decrypt its share: %v", cfg, i, err)
						return
					}
					if err := pvss.VerifyDecShare(suite, G, ss.X[i], ss.enc[i], d); err != nil {
						x.Failf(pk+"/honest-dec-rejected", "%s: honest decrypted share %d rejected: %v", cfg, i, err)
						return
					}
					ss.dec = append(ss.dec, d)
				}
				D, err := pvss.VerifyDecShareBatch(suite, G, ss.X, ss.enc, ss.dec)
				if err != nil || len(D) != n {
					x.Failf(pk+"/honest-dec-batch", "%s: batch keeps %d of %d honest decrypted shares", cfg, len(D), n)
					return
				}
				// DecShareBatch of trustee 0: its own share listed under its own key, under another trustee's key and under
				// an altered key - only the first entry is a valid (key, share) pair
				if n >= 2 {
					B := suite.Point().Base()
					Xs := []kyber.Point{ss.X[0].Clone(), ss.X[1].Clone(), suite.Point().Add(ss.X[0], B)}
					sHs := []kyber.Point{ss.sH[0].Clone(), ss.sH[0].Clone(), ss.sH[0].Clone()}
					gcs := []kyber.Scalar{ss.gc.Clone(), ss.gc.Clone(), ss.gc.Clone()}
					es := []*pvss.PubVerShare{cloneShare(ss.enc[0]), cloneShare(ss.enc[0]), cloneShare(ss.enc[0])}
					K, E, Dd, err := pvss.DecShareBatch(suite, H, Xs, sHs, ss.x[0], gcs, es)
					if err != nil {
						x.Failf(pk+"/DecShareBatch", "%s: %v", cfg, err)
					} else if len(K) != 1 || len(E) != 1 || len(Dd) != 1 || !K[0].Equal(ss.X[0]) {
						x.Failf(pk+"/DecShareBatch-wrong-key-accepted", "%s: DecShareBatch returns %d entries for one valid (key, share) pair followed by the same share under another trustee's key and under an altered key", cfg, len(Dd))
					} else if err := pvss.VerifyDecShare(suite, G, ss.X[0], ss.enc[0], Dd[0]); err != nil {
						x.Failf(pk+"/DecShareBatch", "%s: the share decrypted by DecShareBatch does not verify: %v", cfg, err)
					}
				}
				ok = true
			})
			if !ok {
				continue
			}
			want := fmod.Enc(suite.Point().Mul(secret, nil))
			// recovery from every subset, two orders
			for mask := 0; mask < 1<<n; mask++ {
				mask := mask
				var sub []int
				for i := 0; i < n; i++ {
					if mask>>i&1 == 1 {
						sub = append(sub, i)
					}
				}
				if large && !(len(sub) == t-1 || len(sub) == t || len(sub) == n) {
					continue // large n: every subset of size t-1 (refused), of size t, and the full list
				}
				for ord := 0; ord < 2; ord++ {
					if ord == 1 && len(sub) < 2 {
						continue
					}
					ord := ord
					id := fmt.Sprintf("%s: recover from %v order %d", cfg, sub, ord)
					c.Case(id, pk+"/Recover", func(x *vf.Ctx) {
						var X []kyber.Point
						var E, D []*pvss.PubVerShare
						idx := append([]int{}, sub...)
						if ord == 1 {
							for a, b := 0, len(idx)-1; a < b; a, b = a+1, b-1 {
								idx[a], idx[b] = idx[b], idx[a]
							}
						}
						for _, i := range idx {
							X, E, D = append(X, ss.X[i]), append(E, cloneShare(ss.enc[i])), append(D, cloneShare(ss.dec[i]))
						}
						got, err := pvss.RecoverSecret(suite, G, X, E, D, uint32(t), uint32(n))
						c.Eval(1)
						if len(sub) >= t {
							if err != nil || got == nil {
								x.Failf(pk+"/Recover-refused", "%s: refused with %d >= t verified shares: %v", id, len(sub), err)
							} else if !bytes.Equal(fmod.Enc(got), want) {
								x.Failf(pk+"/Recover-wrong", "%s: recovered value is not secret*G", id)
							}
						} else if err == nil {
							x.Failf(pk+"/Recover-too-few", "%s: a value is recovered from %d < t shares", id, len(sub))
						}
					})
					c.Count("transitions", 1)
					if len(sub) > 1 {
						c.Nontrivial(id)
					}
				}
			}
			// lists that reach length t (or more) only through repeated entries of one trustee's valid share
			if t >= 2 {
				for rep := 0; rep < 3; rep++ {
					rep := rep
					id := fmt.Sprintf("%s: recover from t-1 distinct shares with a repeated one, pattern %d", cfg, rep)
					c.Case(id, pk+"/Recover", func(x *vf.Ctx) {
						var X []kyber.Point
						var E, D []*pvss.PubVerShare
						idx := []int{}
						for i := 0; i < t-1; i++ {
							idx = append(idx, (i+rep)%n)
						}
						switch rep {
						case 0:
							idx = append(idx, idx[0]) // t entries, the first repeated at the end
						case 1:
							idx = append([]int{idx[len(idx)-1]}, idx...) // the last repeated in front
						case 2:
							idx = append(idx, idx[0], idx[0], idx[len(idx)-1]) // more than t entries
						}
						for _, i := range idx {
							X, E, D = append(X, ss.X[i]), append(E, cloneShare(ss.enc[i])), append(D, cloneShare(ss.dec[i]))
						}
						got, err := pvss.RecoverSecret(suite, G, X, E, D, uint32(t), uint32(n))
						c.Eval(1)
						if err == nil && !bytes.Equal(fmod.Enc(got), want) {
							x.Failf(pk+"/Recover-wrong", "%s: a value that is not secret*G is recovered from %d distinct shares (listed %d times)", id, t-1, len(idx))
						} else if err == nil {
							x.Failf(pk+"/Recover-too-few", "%s: recovery succeeds with %d < t distinct shares", id, t-1)
						}
					})
					c.Count("transitions", 1)
					c.Nontrivial(id)
				}
			}
			// mutations of encrypted shares
			other, err := build("other", alpha.Rand("c13-secret2", q))
			if err != nil {
				continue
			}
			B := suite.Point().Base()
			one := suite.Scalar().One()
			type mut struct {
				name      string
				f         func(s *shareSet, i int) // mutates s (a deep copy) at trustee i
				batchOnly bool                     // judged by the functions that recompute the challenge themselves
			}
			// r*base + c*pub: the right-hand side of a DLEQ verification equation
			eqn := func(p dleq.Proof, base, pub kyber.Point) kyber.Point {
				return suite.Point().Add(suite.Point().Mul(p.R, base), suite.Point().Mul(p.C, pub))
			}
			j := func(i int) int { return (i + 1) % n }
			encMuts := []mut{
				{"S.V+B", func(s *shareSet, i int) { s.enc[i].S.V = suite.Point().Add(s.enc[i].S.V, B) }, false},
				{"S.V=other's", func(s *shareSet, i int) { s.enc[i].S.V = s.enc[j(i)].S.V.Clone() }, false},
				{"S.V=O", func(s *shareSet, i int) { s.enc[i].S.V = suite.Point().Null() }, false},
				{"S.I=other", func(s *shareSet, i int) { s.enc[i].S.I = uint32(j(i)); s.sH[i] = s.poly.Eval(uint32(j(i))).V }, false},
				{"P.C+1", func(s *shareSet, i int) { s.enc[i].P.C = suite.Scalar().Add(s.enc[i].P.C, one) }, false},
				{"P.C=other-sharing", func(s *shareSet, i int) { s.enc[i].P.C = other.gc.Clone() }, false},
				{"P.R+1", func(s *shareSet, i int) { s.enc[i].P.R = suite.Scalar().Add(s.enc[i].P.R, one) }, false},
				{"P.R=0", func(s *shareSet, i int) { s.enc[i].P.R = suite.Scalar().Zero() }, false},
				{"P.VG+B", func(s *shareSet, i int) { s.enc[i].P.VG = suite.Point().Add(s.enc[i].P.VG, B) }, false},
				{"P.VH+B", func(s *shareSet, i int) { s.enc[i].P.VH = suite.Point().Add(s.enc[i].P.VH, B) }, false},
				{"P.VG<->P.VH", func(s *shareSet, i int) { s.enc[i].P.VG, s.enc[i].P.VH = s.enc[i].P.VH, s.enc[i].P.VG }, false},
				{"P.VG negated", func(s *shareSet, i int) { s.enc[i].P.VG = suite.Point().Neg(s.enc[i].P.VG) }, false},
				{"P.VH negated", func(s *shareSet, i int) { s.enc[i].P.VH = suite.Point().Neg(s.enc[i].P.VH) }, false},
				{"S.V negated", func(s *shareSet, i int) { s.enc[i].S.V = suite.Point().Neg(s.enc[i].S.V) }, false},
				{"P=other's", func(s *shareSet, i int) { s.enc[i].P = cloneShare(s.enc[j(i)]).P }, false},
				{"share<->other", func(s *shareSet, i int) { s.enc[i], s.enc[j(i)] = s.enc[j(i)], s.enc[i] }, false},
				{"X<->other", func(s *shareSet, i int) { s.X[i], s.X[j(i)] = s.X[j(i)], s.X[i] }, false},
				{"sH+B", func(s *shareSet, i int) { s.sH[i] = suite.Point().Add(s.sH[i], B) }, false},
				{"share-of-other-sharing", func(s *shareSet, i int) { s.enc[i] = cloneShare(other.enc[i]) }, false},
				// two fields altered consistently with the verification equations (a forged proof for a false
				// statement): only the Fiat-Shamir challenge stands in the way, so the functions that recompute it must refuse
				{"S.V+B with P.VH recomputed from its equation", func(s *shareSet, i int) {
					s.enc[i].S.V = suite.Point().Add(s.enc[i].S.V, B)
					s.enc[i].P.VH = eqn(s.enc[i].P, s.X[i], s.enc[i].S.V)
				}, true},
				{"P.VG and P.VH recomputed for S.V+B and a shifted response", func(s *shareSet, i int) {
					s.enc[i].S.V = suite.Point().Add(s.enc[i].S.V, B)
					s.enc[i].P.R = suite.Scalar().Add(s.enc[i].P.R, one)
					s.enc[i].P.VG = eqn(s.enc[i].P, H, s.sH[i])
					s.enc[i].P.VH = eqn(s.enc[i].P, s.X[i], s.enc[i].S.V)
				}, true},
			}
			if n < 2 {
				continue
			}
			for i := 0; i < n; i++ {
				if large && i != 0 && i != n-1 && i != n/2 {
					continue
				}
				for _, m := range encMuts {
					i, m := i, m
					id := fmt.Sprintf("%s: trustee %d enc %s", cfg, i, m.name)
					c.Case(id, pk+"/enc-mutation", func(x *vf.Ctx) {
						s := &shareSet{poly: ss.poly, gc: ss.gc}
						for k := 0; k < n; k++ {
							s.X, s.sH, s.enc = append(s.X, ss.X[k].Clone()), append(s.sH, ss.sH[k].Clone()), append(s.enc, cloneShare(ss.enc[k]))
						}
						m.f(s, i)
						c.Eval(1)
						if m.name == "S.I=other" && s.sH[i].Equal(ss.sH[i]) {
							return // the polynomial takes the same value at the claimed index (t=1): still a correct share
						}
						if sameShare(s.enc[i], ss.enc[i]) && s.X[i].Equal(ss.X[i]) && s.sH[i].Equal(ss.sH[i]) {
							return // the "altered" value equals the honest one (e.g. all shares of a constant-zero polynomial are the identity)
						}
						affected := []int{i}
						if m.name == "share<->other" || m.name == "X<->other" {
							affected = append(affected, j(i))
						}
						for _, a := range affected {
							if m.batchOnly {
								break // VerifyEncShare / DecShare take the expected challenge from the caller
							}
							if err := pvss.VerifyEncShare(suite, H, s.X[a], s.sH[a], ss.gc, s.enc[a]); err == nil {
								x.Failf(pk+"/altered-enc-accepted", "%s: altered encrypted share of trustee %d passes VerifyEncShare", id, a)
							}
							if _, err := pvss.DecShare(suite, H, s.X[a], s.sH[a], ss.x[a], ss.gc, s.enc[a]); err == nil {
								x.Failf(pk+"/altered-enc-decrypted", "%s: DecShare accepts the altered share of trustee %d", id, a)
							}
						}
						// batch: the altered elements are absent; the inputs are left intact
						Xin := append([]kyber.Point{}, s.X...)
						Ein := append([]*pvss.PubVerShare{}, s.enc...)
						K, E, err := pvss.VerifyEncShareBatch(suite, H, s.X, s.sH, s.poly, s.enc)
						if err != nil {
							return
						}
						for k := range Xin {
							if s.X[k] != Xin[k] || s.enc[k] != Ein[k] {
								x.Failf(pk+"/batch-clobbers-input", "%s: VerifyEncShareBatch rearranged the caller's X / encShares slices", id)
								break
							}
						}
						if len(K) != len(E) {
							x.Failf(pk+"/batch-shape", "%s: batch returns %d keys and %d shares", id, len(K), len(E))
						}
						for _, a := range affected {
							for _, e := range E {
								if e == Ein[a] {
									x.Failf(pk+"/altered-enc-in-batch", "%s: the altered share of trustee %d is in the batch output", id, a)
								}
							}
						}
					})
					c.Count("transitions", 1)
					c.Nontrivial(id)
					c.Class("pvss/enc-mutation/"+m.name, func() any { return id })
				}
			}
			// commitment coefficient replaced: every share's sH changes
			c.Case(cfg+": commitment replaced", pk+"/enc-mutation", func(x *vf.Ctx) {
				_, cs := ss.poly.Info()
				for k := range cs {
					cs2 := append([]kyber.Point{}, cs...)
					cs2[k] = suite.Point().Add(cs2[k], B)
					p2 := share.NewPubPoly(suite, H, cs2)
					for i := 0; i < n; i++ {
						c.Eval(1)
						if err := pvss.VerifyEncShare(suite, H, ss.X[i], p2.Eval(ss.enc[i].S.I).V, ss.gc, cloneShare(ss.enc[i])); err == nil {
							x.Failf(pk+"/altered-commitment-accepted", "%s: share %d verifies against a polynomial with coefficient %d altered", cfg, i, k)
						}
					}
					// the batch function is handed the altered polynomial next to the evaluations of the original one
					var Xc, sHc []kyber.Point
					var Ec []*pvss.PubVerShare
					for i := 0; i < n; i++ {
						Xc, sHc, Ec = append(Xc, ss.X[i].Clone()), append(sHc, ss.sH[i].Clone()), append(Ec, cloneShare(ss.enc[i]))
					}
					c.Eval(1)
					if K, E, err := pvss.VerifyEncShareBatch(suite, H, Xc, sHc, p2, Ec); err == nil && (len(K) > 0 || len(E) > 0) {
						x.Failf(pk+"/altered-commitment-accepted", "%s: VerifyEncShareBatch keeps %d shares under a commitment polynomial with coefficient %d altered (sH still the original evaluations)", cfg, len(E), k)
					}
					if K, E, err := pvss.VerifyEncShareBatch(suite, H, Xc, sHc, other.poly, Ec); err == nil && (len(K) > 0 || len(E) > 0) && k == 0 {
						x.Failf(pk+"/altered-commitment-accepted", "%s: VerifyEncShareBatch keeps %d shares under the commitment polynomial of another dealing", cfg, len(E))
					}
				}
			})
			// mutations of decrypted shares
			decMuts := []mut{
				{"S.V+B", func(s *shareSet, i int) { s.dec[i].S.V = suite.Point().Add(s.dec[i].S.V, B) }, false},
				{"S.V=other's", func(s *shareSet, i int) { s.dec[i].S.V = s.dec[j(i)].S.V.Clone() }, false},
				{"S.V=O", func(s *shareSet, i int) { s.dec[i].S.V = suite.Point().Null() }, false},
				{"S.I=other", func(s *shareSet, i int) { s.dec[i].S.I = uint32(j(i)) }, false},
				{"S.I=n+3", func(s *shareSet, i int) { s.dec[i].S.I = uint32(n + 3) }, false},
				{"P.C+1", func(s *shareSet, i int) { s.dec[i].P.C = suite.Scalar().Add(s.dec[i].P.C, one) }, false},
				{"P.R+1", func(s *shareSet, i int) { s.dec[i].P.R = suite.Scalar().Add(s.dec[i].P.R, one) }, false},
				{"P.VG+B", func(s *shareSet, i int) { s.dec[i].P.VG = suite.Point().Add(s.dec[i].P.VG, B) }, false},
				{"P.VH+B", func(s *shareSet, i int) { s.dec[i].P.VH = suite.Point().Add(s.dec[i].P.VH, B) }, false},
				{"P.VG<->P.VH", func(s *shareSet, i int) { s.dec[i].P.VG, s.dec[i].P.VH = s.dec[i].P.VH, s.dec[i].P.VG }, false},
				{"P.VG negated", func(s *shareSet, i int) { s.dec[i].P.VG = suite.Point().Neg(s.dec[i].P.VG) }, false},
				{"P.VH negated", func(s *shareSet, i int) { s.dec[i].P.VH = suite.Point().Neg(s.dec[i].P.VH) }, false},
				{"S.V negated", func(s *shareSet, i int) { s.dec[i].S.V = suite.Point().Neg(s.dec[i].S.V) }, false},
				{"dec<->other", func(s *shareSet, i int) { s.dec[i], s.dec[j(i)] = s.dec[j(i)], s.dec[i] }, false},
				{"S.V+B with P.VH recomputed from its equation", func(s *shareSet, i int) {
					s.dec[i].S.V = suite.Point().Add(s.dec[i].S.V, B)
					s.dec[i].P.VH = eqn(s.dec[i].P, s.dec[i].S.V, s.enc[i].S.V)
				}, false},
				{"S.V+B with shifted response and both commitments recomputed", func(s *shareSet, i int) {
					s.dec[i].S.V = suite.Point().Add(s.dec[i].S.V, B)
					s.dec[i].P.R = suite.Scalar().Add(s.dec[i].P.R, one)
					s.dec[i].P.VG = eqn(s.dec[i].P, G, s.X[i])
					s.dec[i].P.VH = eqn(s.dec[i].P, s.dec[i].S.V, s.enc[i].S.V)
				}, false},
			}
			for i := 0; i < n; i++ {
				if large && i != 0 && i != n-1 && i != n/2 {
					continue
				}
				for _, m := range decMuts {
					i, m := i, m
					id := fmt.Sprintf("%s: trustee %d dec %s", cfg, i, m.name)
					c.Case(id, pk+"/dec-mutation", func(x *vf.Ctx) {
						s := &shareSet{}
						for k := 0; k < n; k++ {
							s.X, s.enc, s.dec = append(s.X, ss.X[k].Clone()), append(s.enc, cloneShare(ss.enc[k])), append(s.dec, cloneShare(ss.dec[k]))
						}
						m.f(s, i)
						c.Eval(1)
						if sameShare(s.dec[i], ss.dec[i]) {
							return
						}
						accepted := pvss.VerifyDecShare(suite, G, s.X[i], s.enc[i], s.dec[i]) == nil
						// batch verification and recovery: the altered share is left out, the caller's slices stay as they were
						Xin := append([]kyber.Point{}, s.X...)
						Ein := append([]*pvss.PubVerShare{}, s.enc...)
						Din := append([]*pvss.PubVerShare{}, s.dec...)
						intact := func(what string) bool {
							for k := range Xin {
								if s.X[k] != Xin[k] || s.enc[k] != Ein[k] || s.dec[k] != Din[k] {
									x.Failf(pk+"/batch-clobbers-input", "%s: %s rearranged the caller's X / encShares / decShares slices", id, what)
									return false
								}
							}
							return true
						}
						if D, err := pvss.VerifyDecShareBatch(suite, G, s.X, s.enc, s.dec); err == nil {
							if !intact("VerifyDecShareBatch") {
								return
							}
							if !accepted {
								for _, d := range D {
									if d == Din[i] {
										x.Failf(pk+"/altered-dec-in-batch", "%s: the altered decrypted share is in the output of VerifyDecShareBatch", id)
									}
								}
							}
						}
						got, err := pvss.RecoverSecret(suite, G, s.X, s.enc, s.dec, uint32(t), uint32(n))
						if !intact("RecoverSecret") {
							return
						}
						if err == nil && !bytes.Equal(fmod.Enc(got), want) {
							x.Failf(pk+"/altered-dec-poisons-recovery", "%s: with the decrypted share of trustee %d altered (passes VerifyDecShare: %v), RecoverSecret returns a value that is not secret*G", id, i, accepted)
							return
						}
						if accepted && !(m.name == "S.I=other" || m.name == "S.I=n+3") {
							x.Failf(pk+"/altered-dec-accepted", "%s: altered decrypted share passes VerifyDecShare", id)
						}
						if accepted && (m.name == "S.I=other" || m.name == "S.I=n+3") {
							// accepted although republished under another index: it must then be harmless (checked above) -
							// and with exactly t shares available the recovery must still be right
							var X []kyber.Point
							var E, D []*pvss.PubVerShare
							X, E, D = append(X, s.X[i]), append(E, s.enc[i]), append(D, s.dec[i])
							for k := 0; k < n && len(D) < t; k++ {
								if k != i {
									X, E, D = append(X, s.X[k]), append(E, s.enc[k]), append(D, s.dec[k])
								}
							}
							if len(D) >= t {
								got, err := pvss.RecoverSecret(suite, G, X, E, D, uint32(t), uint32(n))
								if err == nil && !bytes.Equal(fmod.Enc(got), want) {
									x.Failf(pk+"/altered-dec-poisons-recovery", "%s: a decrypted share republished under another index passes verification and makes RecoverSecret (from exactly t shares) return a value that is not secret*G", id)
								}
							}
						}
					})
					c.Count("transitions", 1)
					c.Nontrivial(id)
					c.Class("pvss/dec-mutation/"+m.name, func() any { return id })
				}
			}
			c.Count("states", int64(1)<<n)
		}
	}
}

func runDLEQ(c *vf.Check, gn string) {
	pk := "C13/dleq/" + gn
	g := groups.ByName(gn)
	q := g.Order
	for _, xs := range []alpha.NS{{Name: "1", V: big.NewInt(1)}, {Name: "q-1", V: new(big.Int).Sub(q, big.NewInt(1))}, {Name: "r", V: alpha.Rand("c13-dleq", q)}} {
		xs := xs
		id := fmt.Sprintf("dleq %s x=%s", gn, xs.Name)
		c.Case(id, pk, func(x *vf.Ctx) {
			suite := suiteFor(gn, id)
			m := fmod.New(g)
			G, H := m.Gens[0], m.Gens[1]
			D := m.Gens[len(m.Gens)-1]
			xv := alpha.ToScalar(suite.Scalar(), xs.V, q)
			p, xG, xH, err := dleq.NewDLEQProof(suite, G, H, xv)
			if err != nil {
				x.Failf(pk+"/prove", "%v", err)
				return
			}
			c.Eval(1)
			if !xG.Equal(suite.Point().Mul(xv, G)) || !xH.Equal(suite.Point().Mul(xv, H)) {
				x.Failf(pk+"/points", "returned xG/xH are not x*G, x*H")
			}
			if err := p.Verify(suite, G, H, xG, xH); err != nil {
				x.Failf(pk+"/honest-rejected", "%s: honest proof rejected: %v", id, err)
				return
			}
			one := suite.Scalar().One()
			cp := func() *dleq.Proof {
				return &dleq.Proof{C: p.C.Clone(), R: p.R.Clone(), VG: p.VG.Clone(), VH: p.VH.Clone()}
			}
			add := func(a, b kyber.Point) kyber.Point { return suite.Point().Add(a, b) }
			sub := func(a, b kyber.Point) kyber.Point { return suite.Point().Sub(a, b) }
			type tc struct {
				name         string
				p            *dleq.Proof
				G, H, xG, xH kyber.Point
			}
			var tcs []tc
			q1 := cp()
			q1.C = suite.Scalar().Add(q1.C, one)
			tcs = append(tcs, tc{"C+1", q1, G, H, xG, xH})
			q2 := cp()
			q2.R = suite.Scalar().Add(q2.R, one)
			tcs = append(tcs, tc{"R+1", q2, G, H, xG, xH})
			q3 := cp()
			q3.VG = add(q3.VG, D)
			tcs = append(tcs, tc{"VG+D", q3, G, H, xG, xH})
			q4 := cp()
			q4.VH = add(q4.VH, D)
			tcs = append(tcs, tc{"VH+D", q4, G, H, xG, xH})
			q7 := cp()
			q7.VG = suite.Point().Neg(q7.VG)
			tcs = append(tcs, tc{"VG negated", q7, G, H, xG, xH})
			q8 := cp()
			q8.VH = suite.Point().Neg(q8.VH)
			tcs = append(tcs, tc{"VH negated", q8, G, H, xG, xH})
			tcs = append(tcs, tc{"xG negated", cp(), G, H, suite.Point().Neg(xG), xH}, tc{"xH negated", cp(), G, H, xG, suite.Point().Neg(xH)})
			q5 := cp()
			q5.VG, q5.VH = q5.VH, q5.VG
			tcs = append(tcs, tc{"VG<->VH", q5, G, H, xG, xH})
			q6 := cp()
			q6.VG, q6.VH = add(q6.VG, D), sub(q6.VH, D)
			tcs = append(tcs, tc{"VG+D,VH-D", q6, G, H, xG, xH})
			tcs = append(tcs, tc{"xG+D", cp(), G, H, add(xG, D), xH}, tc{"xH+D", cp(), G, H, xG, add(xH, D)},
				tc{"xG<->xH", cp(), G, H, xH, xG}, tc{"xG+D,xH-D", cp(), G, H, add(xG, D), sub(xH, D)},
				tc{"G+D", cp(), add(G, D), H, xG, xH}, tc{"H+D", cp(), G, add(H, D), xG, xH}, tc{"G<->H", cp(), H, G, xG, xH},
				tc{"G<->H,xG<->xH,VG<->VH (a relabelled true statement)", nil, nil, nil, nil, nil})
			// both base points equal (different objects): the statement is (xG, xG); a change of either claimed point alone fails
			if pe, eG, eH, err := dleq.NewDLEQProof(suite, G, G.Clone(), xv); err == nil {
				if pe.Verify(suite, G, G.Clone(), eG, eH) != nil {
					x.Failf(pk+"/honest-rejected", "%s: honest proof for equal base points rejected", id)
				}
				cpe := func() *dleq.Proof {
					return &dleq.Proof{C: pe.C.Clone(), R: pe.R.Clone(), VG: pe.VG.Clone(), VH: pe.VH.Clone()}
				}
				tcs = append(tcs, tc{"equal bases, xH+D", cpe(), G, G.Clone(), eG, add(eH, D)}, tc{"equal bases, xG+D", cpe(), G, G.Clone(), add(eG, D), eH},
					tc{"equal bases, xH negated", cpe(), G, G.Clone(), eG, suite.Point().Neg(eH)})
			}
			for _, t := range tcs {
				if t.p == nil {
					continue
				}
				c.Eval(1)
				if err := t.p.Verify(suite, t.G, t.H, t.xG, t.xH); err == nil {
					x.Failf(pk+"/altered-accepted", "%s: proof verifies with %s altered", id, t.name)
				}
				c.Nontrivial(id + " " + t.name)
			}
			// batch proofs
			two := suite.Scalar().Add(one, one)
			var bases, sec = []kyber.Point{G, G, G}, []kyber.Scalar{xv, suite.Scalar().Add(xv, one), suite.Scalar().Add(xv, two)}
			hs := []kyber.Point{H, D, H}
			ps, xGs, xHs, err := dleq.NewDLEQProofBatch(suite, bases, hs, sec)
			if err != nil {
				x.Failf(pk+"/batch", "%v", err)
				return
			}
			for i := range ps {
				if err := ps[i].Verify(suite, bases[i], hs[i], xGs[i], xHs[i]); err != nil {
					x.Failf(pk+"/batch-honest-rejected", "%s: batch proof %d rejected: %v", id, i, err)
				}
				k := (i + 1) % len(ps)
				if err := ps[i].Verify(suite, bases[k], hs[k], xGs[k], xHs[k]); err == nil {
					x.Failf(pk+"/batch-cross-accepted", "%s: batch proof %d verifies for statement %d", id, i, k)
				}
			}
		})
		c.Count("transitions", 1)
		c.Class("dleq/"+gn, func() any { return id })
	}
}

func sameShare(a, b *pvss.PubVerShare) bool {
	return a.S.I == b.S.I && a.S.V.Equal(b.S.V) && a.P.C.Equal(b.P.C) && a.P.R.Equal(b.P.R) && a.P.VG.Equal(b.P.VG) && a.P.VH.Equal(b.P.VH)
}
