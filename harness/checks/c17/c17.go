// Package c17: Pick, Embed and hash-to-group give group members; Embed is
// lossless; Data rejects out-of-range length fields; RFC 9380 vectors.
package c17

import (
	"bytes"
	"crypto/cipher"
	"encoding/hex"
	"fmt"
	"math/big"

	"go.dedis.ch/kyber/v4"
	"go.dedis.ch/kyber/v4/group/edwards25519"
	"go.dedis.ch/kyber/v4/pairing/bls12381/kilic"
	"verif/harness/alpha"
	"verif/harness/checks/c04"
	"verif/harness/curves"
	"verif/harness/fmod"
	"verif/harness/groups"
	"verif/harness/vf"
)

// inGroup: membership in the group the protocols compute in.
func inGroup(g *groups.G, p kyber.Point) string {
	if why := c04.Member(g, fmod.Enc(p), p); why != "" {
		return why
	}
	qm1 := alpha.ToScalar(g.Scalar(), new(big.Int).Sub(g.Order, big.NewInt(1)), g.Order)
	if !g.Point().Add(g.Point().Mul(qm1, p), p).Equal(g.Point().Null()) {
		return "(q-1)P + P != O"
	}
	if sg, ok := p.(kyber.SubGroupElement); ok && !sg.IsInCorrectGroup() {
		return "IsInCorrectGroup() is false"
	}
	return ""
}

type stream struct {
	name string
	mk   func() cipher.Stream
}

func streams(g *groups.G) []stream {
	L := g.Group.PointLen()
	out := []stream{
		{"counter", func() cipher.Stream { return &alpha.CounterStream{} }},
	}
	for i := 0; i < 6; i++ {
		i := i
		out = append(out, stream{fmt.Sprintf("x%d", i), func() cipher.Stream { return alpha.Stream(fmt.Sprintf("c17-x%d", i)) }})
	}
	for _, k := range []int{1, 3, 7} {
		k := k
		out = append(out,
			stream{fmt.Sprintf("00*%d+x", k), func() cipher.Stream {
				return &alpha.PrefixStream{Prefix: make([]byte, k*L), Next: alpha.Stream("c17-p0")}
			}},
			stream{fmt.Sprintf("ff*%d+x", k), func() cipher.Stream {
				return &alpha.PrefixStream{Prefix: bytes.Repeat([]byte{0xff}, k*L), Next: alpha.Stream("c17-pf")}
			}})
	}
	return out
}

// lenField reads the embedded-data length field and the data bytes from an encoding (reference extraction).
func lenField(g *groups.G, e []byte) (int, func(n int) []byte) {
	switch g.Family {
	case "ed25519":
		return int(e[0]), func(n int) []byte { return e[1 : 1+n] }
	case "p256":
		x := e[1:33]
		return int(x[31]), func(n int) []byte { return x[31-n : 31] }
	case "qr512", "residue-r84":
		l := len(e)
		return int(e[l-2])<<8 | int(e[l-1]), func(n int) []byte { return e[l-2-n : l-2] }
	case "bn256":
		return int(e[0]), func(n int) []byte { return e[1 : 1+n] }
	}
	return -1, nil
}

func Run(c *vf.Check) {
	c.Level = "model_checking"
	var jobs []func()
	for _, g := range append(groups.All(), groups.Extra()...) {
		g := g
		if g.Pick {
			jobs = append(jobs, func() { runPick(c, g) })
		}
		if g.Embed {
			for part := 0; part < 3; part++ {
				part := part
				jobs = append(jobs, func() { runEmbed(c, g, part) })
			}
			jobs = append(jobs, func() { runData(c, g) })
		}
		if g.Hash {
			jobs = append(jobs, func() { runHash(c, g) })
		}
	}
	// a residue group large enough for more than 255 bytes of embedded data (both bytes of the length field in use)
	for _, g := range groups.ExtraLarge() {
		g := g
		for part := 0; part < 3; part++ {
			part := part
			lens := []int{-1, 0, 1, 2, 127, 128, 254, 255, 256, 257, 300, 380, 381, 382}
			if c.Thorough() {
				lens = nil // every length -1 .. EmbedLen+8
			}
			jobs = append(jobs, func() { runEmbedLens(c, g, part, lens) })
		}
	}
	jobs = append(jobs, func() { runRFC(c) })
	vf.Parallel(len(jobs), func(i int) { jobs[i]() })
	c.Finish("engine E: Pick on every group with the capability under 13 non-constant streams (counter, 6 seeded, all-zero / all-0xff prefixes of 1,3,7 point lengths forcing retries): independent membership (curve equation / x^q=1) and (q-1)P+P=O, same stream => same bytes whatever the receiver held, UnmarshalFrom(stream) = Pick(stream) on the groups decoding through the shared marshalling helper, different seeded streams => different points. "+
		"Embed on every group with the capability (and, for the lengths {0,1,2,127,128,254..257,300,EmbedLen-1..EmbedLen+8}, on the quadratic residues of the 3072-bit RFC 3526 prime, EmbedLen 381): every data length 0..EmbedLen+8 x {0x00, 0xff, counter} (+ nil and empty): member, Data() = data truncated to EmbedLen, also after decode(encode(P)) and Clone. Data on crafted members with length field in {EmbedLen-1, EmbedLen, EmbedLen+1, EmbedLen+2, 255}: error iff the field exceeds EmbedLen, else exactly the stored bytes. "+
		"Hash-to-group on every hashable G1/G2 (and the Ed25519 RFC 9380 suite): messages of length {0,1,32,255,256,300}: member, deterministic, pairwise different; different domain-separation tags => different points; RFC 9380 vectors for edwards25519_XMD:SHA-512_ELL2_RO_ and BLS12381G1/G2_XMD:SHA-256_SSWU_RO_ (kilic, circl, gnark through their custom-DST entry points). "+
		"non-trivial = data longer than 0 bytes, retry-forcing streams; distinct by (group, operation, input)",
		[]string{"constant streams are excluded (an implementation may legitimately never find a point on them)", "RFC 9380 vectors transcribed into /verif"}, nil)
}

func runPick(c *vf.Check, g *groups.G) {
	pk := "C17/" + g.Name + "/Pick"
	seen := map[string]string{}
	for _, s := range streams(g) {
		s := s
		id := fmt.Sprintf("%s: Pick(%s)", g.Name, s.name)
		c.Case(id, pk, func(x *vf.Ctx) {
			p := g.Point().Pick(s.mk())
			c.Eval(1)
			if why := inGroup(g, p); why != "" {
				x.Failf(pk+"/non-member", "%s: result %x is not a group member: %s", id, fmod.Enc(p)[:8], why)
				return
			}
			// the documented second way to pick: UnmarshalFrom with a reader that is a cipher.Stream (the groups that
			// decode through the library's shared marshalling helper) gives the point Pick gives on the same stream
			switch g.Family {
			case "ed25519", "ed25519vartime", "p256", "qr512", "residue-r84":
				u := g.Point()
				if _, err := u.UnmarshalFrom(streamReader{s.mk()}); err != nil {
					x.Failf(pk+"/UnmarshalFrom-stream", "%s: UnmarshalFrom(stream) fails: %v", id, err)
				} else if !u.Equal(p) || !bytes.Equal(fmod.Enc(u), fmod.Enc(p)) {
					x.Failf(pk+"/UnmarshalFrom-stream", "%s: UnmarshalFrom(stream) gives %x.., Pick on the same stream %x..", id, fmod.Enc(u)[:8], fmod.Enc(p)[:8])
				}
			}
			// same stream, receiver holding another value
			q := g.Gen().Clone()
			q.Pick(s.mk())
			if !bytes.Equal(fmod.Enc(p), fmod.Enc(q)) || !p.Equal(q) {
				x.Failf(pk+"/not-deterministic", "%s: the same stream gives different points depending on the receiver", id)
			}
			e := hex.EncodeToString(fmod.Enc(p))
			if prev, ok := seen[e]; ok && prev[:1] == "x" && s.name[:1] == "x" {
				x.Failf(pk+"/collision", "%s and Pick(%s) give the same point", id, prev)
			}
			seen[e] = s.name
		})
		c.Count("transitions", 1)
		c.Nontrivial(id)
		c.Class(g.Name+"/Pick", func() any { return id })
	}
	// a family of seeded streams: candidates that have to be rejected or reduced (x >= p, no square root, wrong
	// subgroup) occur with small probability per stream
	ns := 2000
	if g.Slow || g.Kind == "G2" || g.Kind == "GT" {
		ns = 300
	}
	if c.Thorough() {
		ns *= 10
	}
	for blk := 0; blk < ns; blk += 100 {
		blk := blk
		id := fmt.Sprintf("%s: Pick(stream #i) for i in [%d,%d)", g.Name, blk, blk+100)
		c.Case(id, pk, func(x *vf.Ctx) {
			for i := blk; i < blk+100 && i < ns; i++ {
				p := g.Point().Pick(alpha.Stream(fmt.Sprintf("c17-pick-family-%d", i)))
				c.Eval(1)
				if why := inGroup(g, p); why != "" {
					x.Failf(pk+"/non-member", "%s: Pick(stream #%d) = %x.. is not a group member: %s", id, i, fmod.Enc(p)[:8], why)
					return
				}
				q := g.Point()
				if err := q.UnmarshalBinary(fmod.Enc(p)); err != nil || !q.Equal(p) {
					x.Failf(pk+"/not-decodable", "%s: the encoding of Pick(stream #%d) does not decode to an Equal point: %v", id, i, err)
					return
				}
			}
		})
		c.Count("transitions", 100)
		c.Nontrivial(id)
	}
}

func pat(kind, n int) []byte {
	b := make([]byte, n)
	for i := range b {
		switch kind {
		case 0:
			b[i] = 0
		case 1:
			b[i] = 0xff
		default:
			b[i] = byte(i + 1)
		}
	}
	return b
}

func runEmbed(c *vf.Check, g *groups.G, part int) { runEmbedLens(c, g, part, nil) }

// runEmbedLens: lens == nil means every length -1 (nil data) .. EmbedLen+8.
func runEmbedLens(c *vf.Check, g *groups.G, part int, lens []int) {
	pk := "C17/" + g.Name + "/Embed"
	el := g.Point().EmbedLen()
	if lens == nil {
		for n := -1; n <= el+8; n++ {
			lens = append(lens, n)
		}
	} else {
		lens = append(append([]int{}, lens...), el-1, el, el+1, el+8)
	}
	for _, n := range lens {
		for kind := 0; kind < 3; kind++ {
			if (n+1+kind)%3 != part {
				continue
			}
			if n <= 0 && kind > 0 {
				continue
			}
			n, kind := n, kind
			var data []byte
			if n >= 0 {
				data = pat(kind, n)
			}
			id := fmt.Sprintf("%s: Embed(len=%d,pattern=%d)", g.Name, n, kind)
			c.Case(id, pk, func(x *vf.Ctx) {
				in := append([]byte(nil), data...)
				if n == 0 {
					in = []byte{}
				}
				p := g.Gen().Clone().Embed(in, alpha.Stream("c17-embed-"+id))
				c.Eval(1)
				if !bytes.Equal(in, data) {
					x.Failf(pk+"/mutates-input", "%s: Embed changed its data argument", id)
				}
				if why := inGroup(g, p); why != "" {
					x.Failf(pk+"/non-member", "%s: result is not a group member: %s", id, why)
					return
				}
				if n < 0 {
					return // nil data: a random point, nothing stored
				}
				want := data
				if len(want) > el {
					want = want[:el]
				}
				check := func(what string, q kyber.Point) {
					got, err := q.Data()
					if err != nil {
						x.Failf(pk+"/Data-error", "%s: Data() on %s: %v", id, what, err)
						return
					}
					if !bytes.Equal(got, want) {
						x.Failf(pk+"/Data-mismatch", "%s: Data() on %s returns %d bytes %x.., stored %d bytes %x..", id, what, len(got), head(got), len(want), head(want))
					}
				}
				check("the embedded point", p)
				// adversarial streams: the random part of the candidate all ones / all zeros (candidates at and beyond
				// the field modulus, first candidates rejected)
				for pi, pre := range [][]byte{bytes.Repeat([]byte{0xff}, g.Group.PointLen()+8), make([]byte, g.Group.PointLen()+8)} {
					st := &alpha.PrefixStream{Prefix: append([]byte{}, pre...), Next: alpha.Stream("c17-embed-adv-" + id)}
					p2 := g.Gen().Clone().Embed(append([]byte{}, in...), st) // (non-nil also when empty: nil means "no data")
					c.Eval(1)
					if why := inGroup(g, p2); why != "" {
						x.Failf(pk+"/non-member", "%s with stream prefix #%d: result is not a group member: %s", id, pi, why)
						return
					}
					check(fmt.Sprintf("the point embedded under stream prefix #%d (0xff.. / 0x00..)", pi), p2)
					r2 := g.Point()
					if err := r2.UnmarshalBinary(fmod.Enc(p2)); err != nil {
						x.Failf(pk+"/decode", "%s with stream prefix #%d: encoding of the embedded point does not decode: %v", id, pi, err)
						return
					}
					check(fmt.Sprintf("decode(encode(P)) under stream prefix #%d", pi), r2)
				}
				r := g.Point()
				if err := r.UnmarshalBinary(fmod.Enc(p)); err != nil {
					x.Failf(pk+"/decode", "%s: encoding of the embedded point does not decode: %v", id, err)
					return
				}
				check("decode(encode(P))", r)
				check("Clone", p.Clone())
				// deterministic in the stream
				in2 := append([]byte(nil), in...)
				if n == 0 {
					in2 = []byte{}
				}
				p2 := g.Point().Embed(in2, alpha.Stream("c17-embed-"+id))
				if !p2.Equal(p) {
					x.Failf(pk+"/not-deterministic", "%s: same data and stream, different points", id)
				}
			})
			c.Count("transitions", 1)
			if n > 0 {
				c.Nontrivial(id)
			}
			c.Class(g.Name+"/Embed", func() any { return id })
		}
	}
}

func head(b []byte) []byte {
	if len(b) > 8 {
		return b[:8]
	}
	return b
}

// craft builds a valid group member whose length field is L (nil if none is found).
func craft(g *groups.G, L int, salt int) kyber.Point {
	plen := g.Group.PointLen()
	for try := 0; try < 400; try++ {
		fill := alpha.Bytes(fmt.Sprintf("c17-craft-%s-%d-%d-%d", g.Name, L, salt, try), plen)
		var e []byte
		switch g.Family {
		case "ed25519":
			e = fill
			e[0] = byte(L)
		case "qr512", "residue-r84":
			e = fill
			e[0] &= 0x03 // below the modulus
			if g.Family == "residue-r84" {
				e[0] = 0
			}
			e[plen-2], e[plen-1] = byte(L>>8), byte(L)
		case "p256", "bn256":
			p, b, a := curves.P256P, curves.P256B, big.NewInt(-3)
			if g.Family == "bn256" {
				p, b, a = curves.BN256P, big.NewInt(3), big.NewInt(0)
			}
			xb := fill[:32]
			if g.Family == "p256" {
				xb[31] = byte(L)
				xb[0] &= 0x7f
			} else {
				xb[0] = byte(L)
			}
			xv := new(big.Int).SetBytes(xb)
			if xv.Cmp(p) >= 0 {
				continue
			}
			rhs := new(big.Int).Mul(xv, xv)
			rhs.Mul(rhs, xv).Add(rhs, new(big.Int).Mul(a, xv)).Add(rhs, b).Mod(rhs, p)
			y := new(big.Int).ModSqrt(rhs, p)
			if y == nil {
				continue
			}
			if g.Family == "p256" {
				e = append([]byte{4}, xb...)
			} else {
				e = append([]byte{}, xb...)
			}
			e = append(e, y.FillBytes(make([]byte, 32))...)
		default:
			return nil
		}
		pt := g.Point()
		if pt.UnmarshalBinary(e) != nil {
			continue
		}
		if inGroup(g, pt) != "" {
			continue // e.g. an Ed25519 point with a torsion component: not a member of the prime-order group
		}
		if lf, _ := lenField(g, fmod.Enc(pt)); lf != L {
			continue
		}
		return pt
	}
	return nil
}

func runData(c *vf.Check, g *groups.G) {
	pk := "C17/" + g.Name + "/Data"
	el := g.Point().EmbedLen()
	// every value of a one-byte length field (the slow groups: around the boundaries and a few more)
	var Ls []int
	for L := 0; L < 256; L++ {
		if g.Slow && !(L <= 2 || (L >= el-1 && L <= el+4) || L%32 == 0 || L == 255) {
			continue
		}
		Ls = append(Ls, L)
	}
	if g.Family == "qr512" || g.Family == "residue-r84" {
		Ls = append(Ls, 256, 300, 65535)
	}
	for _, L := range Ls {
		for salt := 0; salt < 2; salt++ {
			if salt == 1 && !(L <= 1 || (L >= el-1 && L <= el+2) || L == 200 || L >= 255) {
				continue
			}
			L, salt := L, salt
			id := fmt.Sprintf("%s: Data() with length field %d (EmbedLen %d) #%d", g.Name, L, el, salt)
			c.Case(id, pk, func(x *vf.Ctx) {
				p := craft(g, L, salt)
				if p == nil {
					c.Class(g.Name+"/Data/not-constructible", func() any { return id })
					return
				}
				e := fmod.Enc(p)
				_, ext := lenField(g, e)
				got, err := p.Data()
				c.Eval(1)
				if L > el {
					if err == nil {
						x.Failf(pk+"/out-of-range-accepted", "%s: Data() returns %d bytes without error for a point whose length field is %d > EmbedLen", id, len(got), L)
					}
					c.Class(g.Name+"/Data/out-of-range", func() any { return id })
					return
				}
				if err != nil {
					x.Failf(pk+"/in-range-rejected", "%s: Data() fails for an in-range length field: %v", id, err)
					return
				}
				if !bytes.Equal(got, ext(L)) {
					x.Failf(pk+"/mismatch", "%s: Data() = %x, stored bytes %x", id, got, ext(L))
				}
				c.Class(g.Name+"/Data/in-range", func() any { return id })
			})
			c.Count("transitions", 1)
			c.Nontrivial(id)
		}
	}
}

func hashOf(g *groups.G, msg []byte) kyber.Point {
	return g.Point().(kyber.HashablePoint).Hash(msg)
}

func runHash(c *vf.Check, g *groups.G) {
	pk := "C17/" + g.Name + "/Hash"
	lens := []int{0, 1, 32, 255, 256, 300}
	var encs [][]byte
	for _, n := range lens {
		n := n
		id := fmt.Sprintf("%s: Hash(msg of %d bytes)", g.Name, n)
		c.Case(id, pk, func(x *vf.Ctx) {
			msg := pat(2, n)
			in := append([]byte(nil), msg...)
			p := hashOf(g, in)
			c.Eval(1)
			if !bytes.Equal(in, msg) {
				x.Failf(pk+"/mutates-input", "%s: Hash changed the message", id)
			}
			if why := inGroup(g, p); why != "" {
				x.Failf(pk+"/non-member", "%s: result is not a group member: %s", id, why)
				return
			}
			q := g.Gen().Clone().(kyber.HashablePoint).Hash(append([]byte(nil), msg...))
			if !q.Equal(p) || !bytes.Equal(fmod.Enc(q), fmod.Enc(p)) {
				x.Failf(pk+"/not-deterministic", "%s: same message, different points (receiver state leaks in)", id)
			}
			for j, e := range encs {
				if bytes.Equal(e, fmod.Enc(p)) {
					x.Failf(pk+"/collision", "%s: same point as for the message of %d bytes", id, lens[j])
				}
			}
			encs = append(encs, fmod.Enc(p))
			if n > 0 {
				m2 := append([]byte(nil), msg...)
				m2[n-1] ^= 1
				if hashOf(g, m2).Equal(p) {
					x.Failf(pk+"/collision", "%s: flipping the last bit of the message gives the same point", id)
				}
			}
		})
		c.Count("transitions", 1)
		c.Nontrivial(id)
		c.Class(g.Name+"/Hash", func() any { return id })
	}
	// a family of 3000 short messages (2000 for slow groups): rare shapes of intermediate values (a coordinate with
	// leading zero bytes, several candidates rejected) occur with probability 2^-7 .. 2^-8 per message
	nm := 3000
	if g.Slow || g.Kind == "G2" {
		nm = 1000
	}
	if c.Thorough() {
		nm *= 10
	}
	for blk := 0; blk < nm; blk += 250 {
		blk := blk
		id := fmt.Sprintf("%s: Hash(\"message i\") for i in [%d,%d)", g.Name, blk, blk+250)
		c.Case(id, pk, func(x *vf.Ctx) {
			for i := blk; i < blk+250 && i < nm; i++ {
				msg := []byte(fmt.Sprintf("message %d", i))
				p := hashOf(g, msg)
				c.Eval(1)
				if why := inGroup(g, p); why != "" {
					x.Failf(pk+"/non-member", "%s: Hash(%q) is not a group member: %s", id, msg, why)
					return
				}
				e := fmod.Enc(p)
				q := g.Point()
				if err := q.UnmarshalBinary(e); err != nil || !q.Equal(p) {
					x.Failf(pk+"/not-decodable", "%s: the encoding of Hash(%q) does not decode to an Equal point: %v", id, msg, err)
					return
				}
			}
		})
		c.Count("transitions", 250)
		c.Nontrivial(id)
	}
	// domain separation
	type h2 interface {
		Hash2(msg, dst []byte) kyber.Point
	}
	id := g.Name + ": domain-separation tags"
	c.Case(id, pk, func(x *vf.Ctx) {
		msg := []byte("c17 dst")
		var pts []kyber.Point
		dsts := [][]byte{[]byte("VERIF-DST-A"), []byte("VERIF-DST-B"), bytes.Repeat([]byte("D"), 255)}
		for _, d := range dsts {
			var p kyber.Point
			if hp, ok := g.Point().(h2); ok {
				p = hp.Hash2(msg, d)
			} else if g.Family == "kilic" {
				var s2 kyber.Group
				if g.Kind == "G1" {
					s2 = kilic.NewBLS12381SuiteWithDST(d, nil).G1()
				} else {
					s2 = kilic.NewBLS12381SuiteWithDST(nil, d).G2()
				}
				p = s2.Point().(kyber.HashablePoint).Hash(msg)
			} else {
				return
			}
			if why := inGroup(g, p); why != "" {
				x.Failf(pk+"/non-member", "%s: hash under a custom tag is not a member: %s", id, why)
			}
			pts = append(pts, p)
		}
		def := hashOf(g, msg)
		for i := range pts {
			if bytes.Equal(fmod.Enc(pts[i]), fmod.Enc(def)) {
				x.Failf(pk+"/dst-ignored", "%s: custom tag %d gives the same point as the default tag", id, i)
			}
			for j := 0; j < i; j++ {
				if bytes.Equal(fmod.Enc(pts[i]), fmod.Enc(pts[j])) {
					x.Failf(pk+"/dst-ignored", "%s: tags %d and %d give the same point", id, i, j)
				}
			}
		}
		c.Eval(len(pts))
	})
	c.Count("transitions", 1)
}

var rfcMsgs = []string{"", "abc", "abcdef0123456789",
	"q128_" + string(bytes.Repeat([]byte("q"), 128)),
	"a512_" + string(bytes.Repeat([]byte("a"), 512))}

func hx(s string) *big.Int { v, _ := new(big.Int).SetString(s, 16); return v }

func runRFC(c *vf.Check) {
	// edwards25519_XMD:SHA-512_ELL2_RO_ (RFC 9380, J.5.1)
	edv := [][2]string{
		{"3c3da6925a3c3c268448dcabb47ccde5439559d9599646a8260e47b1e4822fc6", "09a6c8561a0b22bef63124c588ce4c62ea83a3c899763af26d795302e115dc21"},
		{"608040b42285cc0d72cbb3985c6b04c935370c7361f4b7fbdb1ae7f8c1a8ecad", "1a8395b88338f22e435bbd301183e7f20a5f9de643f11882fb237f88268a5531"},
		{"6d7fabf47a2dc03fe7d47f7dddd21082c5fb8f86743cd020f3fb147d57161472", "53060a3d140e7fbcda641ed3cf42c88a75411e648a1add71217f70ea8ec561a6"},
		{"5fb0b92acedd16f3bcb0ef83f5c7b7a9466b5f1e0d8d217421878ea3686f8524", "2eca15e355fcfa39d2982f67ddb0eea138e2994f5956ed37b7f72eea5e89d2f7"},
		{"0efcfde5898a839b00997fbe40d2ebe950bc81181afbd5cd6b9618aa336c1e8c", "6dc2fc04f266c5c27f236a80b14f92ccd051ef1ff027f26a07f8c0f327d8f995"},
	}
	type edHash interface {
		Hash(m []byte, dst string) kyber.Point
	}
	ed := edwards25519.NewBlakeSHA256Ed25519()
	for i, v := range edv {
		i, v := i, v
		id := fmt.Sprintf("RFC 9380 edwards25519_XMD:SHA-512_ELL2_RO_ vector %d", i)
		c.Case(id, "C17/rfc9380/edwards25519", func(x *vf.Ctx) {
			h, ok := ed.Point().(edHash)
			if !ok {
				x.Failf("C17/rfc9380/edwards25519", "edwards25519 point has no Hash(msg, dst)")
				return
			}
			p := h.Hash([]byte(rfcMsgs[i]), "QUUX-V01-CS02-with-edwards25519_XMD:SHA-512_ELL2_RO_")
			xx, yy := hx(v[0]), hx(v[1])
			want := yy.FillBytes(make([]byte, 32))
			for a, b := 0, 31; a < b; a, b = a+1, b-1 {
				want[a], want[b] = want[b], want[a]
			}
			want[31] |= byte(xx.Bit(0)) << 7
			c.Eval(1)
			if !bytes.Equal(fmod.Enc(p), want) {
				x.Failf("C17/rfc9380/edwards25519", "%s: got %x want %x", id, fmod.Enc(p), want)
			}
		})
		c.Count("transitions", 1)
		c.Nontrivial(id)
	}
	// BLS12381G1_XMD:SHA-256_SSWU_RO_ (RFC 9380, J.9.1)
	g1v := [][2]string{
		{"052926add2207b76ca4fa57a8734416c8dc95e24501772c814278700eed6d1e4e8cf62d9c09db0fac349612b759e79a1", "08ba738453bfed09cb546dbb0783dbb3a5f1f566ed67bb6be0e8c67e2e81a4cc68ee29813bb7994998f3eae0c9c6a265"},
		{"03567bc5ef9c690c2ab2ecdf6a96ef1c139cc0b2f284dca0a9a7943388a49a3aee664ba5379a7655d3c68900be2f6903", "0b9c15f3fe6e5cf4211f346271d7b01c8f3b28be689c8429c85b67af215533311f0b8dfaaa154fa6b88176c229f2885d"},
		{"11e0b079dea29a68f0383ee94fed1b940995272407e3bb916bbf268c263ddd57a6a27200a784cbc248e84f357ce82d98", "03a87ae2caf14e8ee52e51fa2ed8eefe80f02457004ba4d486d6aa1f517c0889501dc7413753f9599b099ebcbbd2d709"},
		{"15f68eaa693b95ccb85215dc65fa81038d69629f70aeee0d0f677cf22285e7bf58d7cb86eefe8f2e9bc3f8cb84fac488", "1807a1d50c29f430b8cafc4f8638dfeeadf51211e1602a5f184443076715f91bb90a48ba1e370edce6ae1062f5e6dd38"},
		{"082aabae8b7dedb0e78aeb619ad3bfd9277a2f77ba7fad20ef6aabdc6c31d19ba5a6d12283553294c1825c4b3ca2dcfe", "05b84ae5a942248eea39e1d91030458c40153f3b654ab7872d779ad1e942856a20c438e8d99bc8abfbf74729ce1f7ac8"},
	}
	// BLS12381G2_XMD:SHA-256_SSWU_RO_ (RFC 9380, J.10.1): x = c0 + c1*I, y = c0 + c1*I
	g2v := [][4]string{
		{"0141ebfbdca40eb85b87142e130ab689c673cf60f1a3e98d69335266f30d9b8d4ac44c1038e9dcdd5393faf5c41fb78a", "05cb8437535e20ecffaef7752baddf98034139c38452458baeefab379ba13dff5bf5dd71b72418717047f5b0f37da03d",
			"0503921d7f6a12805e72940b963c0cf3471c7b2a524950ca195d11062ee75ec076daf2d4bc358c4b190c0c98064fdd92", "12424ac32561493f3fe3c260708a12b7c620e7be00099a974e259ddc7d1f6395c3c811cdd19f1e8dbf3e9ecfdcbab8d6"},
		{"02c2d18e033b960562aae3cab37a27ce00d80ccd5ba4b7fe0e7a210245129dbec7780ccc7954725f4168aff2787776e6", "139cddbccdc5e91b9623efd38c49f81a6f83f175e80b06fc374de9eb4b41dfe4ca3a230ed250fbe3a2acf73a41177fd8",
			"1787327b68159716a37440985269cf584bcb1e621d3a7202be6ea05c4cfe244aeb197642555a0645fb87bf7466b2ba48", "00aa65dae3c8d732d10ecd2c50f8a1baf3001578f71c694e03866e9f3d49ac1e1ce70dd94a733534f106d4cec0eddd16"},
		{"121982811d2491fde9ba7ed31ef9ca474f0e1501297f68c298e9f4c0028add35aea8bb83d53c08cfc007c1e005723cd0", "190d119345b94fbd15497bcba94ecf7db2cbfd1e1fe7da034d26cbba169fb3968288b3fafb265f9ebd380512a71c3f2c",
			"05571a0f8d3c08d094576981f4a3b8eda0a8e771fcdcc8ecceaf1356a6acf17574518acb506e435b639353c2e14827c8", "0bb5e7572275c567462d91807de765611490205a941a5a6af3b1691bfe596c31225d3aabdf15faff860cb4ef17c7c3be"},
	}
	half := new(big.Int).Rsh(new(big.Int).Sub(curves.BLSP, big.NewInt(1)), 1)
	type h2 interface {
		Hash2(msg, dst []byte) kyber.Point
	}
	for _, fam := range []string{"kilic", "circl", "gnark"} {
		fam := fam
		d1, d2 := []byte("QUUX-V01-CS02-with-BLS12381G1_XMD:SHA-256_SSWU_RO_"), []byte("QUUX-V01-CS02-with-BLS12381G2_XMD:SHA-256_SSWU_RO_")
		hash := func(kind string, msg []byte) kyber.Point {
			g := groups.ByName(fam + "." + kind)
			d := d1
			if kind == "G2" {
				d = d2
			}
			if hp, ok := g.Point().(h2); ok {
				return hp.Hash2(msg, d)
			}
			if kind == "G1" {
				return kilic.NewBLS12381SuiteWithDST(d, nil).G1().Point().(kyber.HashablePoint).Hash(msg)
			}
			return kilic.NewBLS12381SuiteWithDST(nil, d).G2().Point().(kyber.HashablePoint).Hash(msg)
		}
		for i, v := range g1v {
			i, v := i, v
			id := fmt.Sprintf("RFC 9380 BLS12381G1_XMD:SHA-256_SSWU_RO_ vector %d on %s", i, fam)
			c.Case(id, "C17/rfc9380/bls12381-g1", func(x *vf.Ctx) {
				p := hash("G1", []byte(rfcMsgs[i]))
				want := hx(v[0]).FillBytes(make([]byte, 48))
				want[0] |= 0x80
				if hx(v[1]).Cmp(half) > 0 {
					want[0] |= 0x20
				}
				c.Eval(1)
				if !bytes.Equal(fmod.Enc(p), want) {
					x.Failf("C17/rfc9380/bls12381-g1/"+fam, "%s: got %x want %x", id, fmod.Enc(p), want)
				}
			})
			c.Count("transitions", 1)
			c.Nontrivial(id)
		}
		for i, v := range g2v {
			i, v := i, v
			id := fmt.Sprintf("RFC 9380 BLS12381G2_XMD:SHA-256_SSWU_RO_ vector %d on %s", i, fam)
			c.Case(id, "C17/rfc9380/bls12381-g2", func(x *vf.Ctx) {
				p := hash("G2", []byte(rfcMsgs[i]))
				want := append(hx(v[1]).FillBytes(make([]byte, 48)), hx(v[0]).FillBytes(make([]byte, 48))...)
				want[0] |= 0x80
				y0, y1 := hx(v[2]), hx(v[3])
				big1 := y1.Cmp(half) > 0
				if y1.Sign() == 0 {
					big1 = y0.Cmp(half) > 0
				}
				if big1 {
					want[0] |= 0x20
				}
				c.Eval(1)
				if !bytes.Equal(fmod.Enc(p), want) {
					x.Failf("C17/rfc9380/bls12381-g2/"+fam, "%s: got %x want %x", id, fmod.Enc(p), want)
				}
			})
			c.Count("transitions", 1)
			c.Nontrivial(id)
		}
	}
}

// streamReader is a key stream that can also be read from (as an XOF can).
type streamReader struct{ cipher.Stream }

func (r streamReader) Read(b []byte) (int, error) {
	for i := range b {
		b[i] = 0
	}
	r.XORKeyStream(b, b)
	return len(b), nil
}
