package c10

import (
	"fmt"
	"sort"
	"strings"

	"go.dedis.ch/kyber/v4"
	"go.dedis.ch/kyber/v4/group/edwards25519"
	"go.dedis.ch/kyber/v4/share"
	vss "go.dedis.ch/kyber/v4/share/vss/rabin"
	"go.dedis.ch/kyber/v4/sign/schnorr"
	"verif/harness/alpha"
)

type rabWorld struct {
	n, t, k   int
	dealerObs bool
	suite     func(label string) vss.Suite
	vLong     []kyber.Scalar
	vPub      []kyber.Point
	dLong     kyber.Scalar
	dPub      kyber.Point
	secret    kyber.Scalar
	deals     map[string]*vss.EncryptedDeal
	resps     map[string]*vss.Response
	justs     map[string]*vss.Justification
	events    []string
}

func (w *rabWorld) Name() string {
	if w.dealerObs {
		return "rabin-dealer"
	}
	return "rabin"
}
func (w *rabWorld) N() int                       { return w.n }
func (w *rabWorld) T() int                       { return w.t }
func (w *rabWorld) K() int                       { return w.k }
func (w *rabWorld) Events() []string             { return w.events }
func (w *rabWorld) RespBeforeDeal() bool         { return w.dealerObs }
func (w *rabWorld) TimeoutMakesComplaints() bool { return true }
func (w *rabWorld) Processable(v string) bool {
	switch v {
	case "wrong-recipient", "forged-dealer", "sig-flipped", "wrong-index", "wrong-index+T=alt":
		return false
	}
	return true
}
func (w *rabWorld) Approvable(v string) bool {
	return v == "honest" || v == "other-session" || v == "sessionid-replaced"
}
func (w *rabWorld) SameSession(v string) bool {
	// variants whose SessionID field is the main session's (the dealer does not recompute it after the edit)
	return v == "honest" || v == "share+1" || v == "share-V-nil" || v == "commit-replaced"
}
func (w *rabWorld) ValidT(v string) bool      { return !strings.HasPrefix(v, "T=") }

func (w *rabWorld) dealer(randLabel string, long, secret kyber.Scalar) *vss.Dealer {
	d, err := vss.NewDealer(w.suite("dealer-"+randLabel), long, secret, w.vPub, uint32(w.t))
	if err != nil {
		panic(err)
	}
	return d
}

func newRabWorld(n, t, k int, dealerObs bool) *rabWorld {
	w := &rabWorld{n: n, t: t, k: k, dealerObs: dealerObs, deals: map[string]*vss.EncryptedDeal{}, resps: map[string]*vss.Response{}, justs: map[string]*vss.Justification{}}
	if dealerObs {
		w.k = -1
	}
	w.suite = func(label string) vss.Suite {
		return edwards25519.NewBlakeSHA256Ed25519WithRand(alpha.Stream(fmt.Sprintf("c10-rab-%d-%d-%s", n, t, label)))
	}
	base := w.suite("keys")
	for i := 0; i < n; i++ {
		s := base.Scalar().Pick(alpha.Stream(fmt.Sprintf("c10-v%d", i)))
		w.vLong, w.vPub = append(w.vLong, s), append(w.vPub, base.Point().Mul(s, nil))
	}
	w.dLong = base.Scalar().Pick(alpha.Stream("c10-dealer"))
	w.dPub = base.Point().Mul(w.dLong, nil)
	w.secret = base.Scalar().Pick(alpha.Stream("c10-secret"))
	other := base.Point().Pick(alpha.Stream("c10-otherpoint"))
	one := base.Scalar().One()

	// --- deal variants for the observer k (each from a twin dealer with the same randomness)
	if !dealerObs {
		mk := func(name string, mut func(d *vss.Dealer) (*vss.EncryptedDeal, error)) {
			d := w.dealer("main", w.dLong, w.secret)
			e, err := mut(d)
			if err != nil {
				return // the variant cannot be produced through the real encoder
			}
			w.deals[name] = e
		}
		edit := func(f func(pd *vss.Deal)) func(d *vss.Dealer) (*vss.EncryptedDeal, error) {
			return func(d *vss.Dealer) (*vss.EncryptedDeal, error) {
				pd, _ := d.PlaintextDeal(k)
				f(pd)
				return d.EncryptedDeal(k)
			}
		}
		mk("honest", edit(func(pd *vss.Deal) {}))
		mk("share+1", edit(func(pd *vss.Deal) { pd.SecShare.V = base.Scalar().Add(pd.SecShare.V, one) }))
		mk("wrong-index", edit(func(pd *vss.Deal) { pd.SecShare.I = uint32((k + 1) % n) }))
		// refused for its index, and carrying another valid threshold: nothing of it may survive into the session
		altT := t - 1
		if altT < (n+1)/2 || altT < 2 {
			altT = t + 1
		}
		if altT <= n {
			mk("wrong-index+T=alt", edit(func(pd *vss.Deal) { pd.SecShare.I = uint32((k + 1) % n); pd.T = uint32(altT) }))
		}
		mk("commit-replaced", edit(func(pd *vss.Deal) {
			cs := append([]kyber.Point{}, pd.Commitments...)
			cs[len(cs)-1] = other
			pd.Commitments = cs
		}))
		mk("T=0", edit(func(pd *vss.Deal) { pd.T = 0 }))
		mk("T=1", edit(func(pd *vss.Deal) { pd.T = 1 }))
		mk("T=n+1", edit(func(pd *vss.Deal) { pd.T = uint32(n + 1) }))
		mk("sessionid-replaced", edit(func(pd *vss.Deal) { pd.SessionID = []byte("another session id, 32 bytes long") }))
		mk("share-V-nil", edit(func(pd *vss.Deal) { pd.SecShare.V = nil }))
		mk("wrong-recipient", func(d *vss.Dealer) (*vss.EncryptedDeal, error) { return d.EncryptedDeal((k + 1) % n) })
		mk("sig-flipped", func(d *vss.Dealer) (*vss.EncryptedDeal, error) {
			e, err := d.EncryptedDeal(k)
			if err == nil {
				e.Signature = append([]byte{}, e.Signature...)
				e.Signature[3] ^= 0x10
			}
			return e, err
		})
		func() {
			d := w.dealer("main", base.Scalar().Pick(alpha.Stream("c10-not-the-dealer")), w.secret)
			if e, err := d.EncryptedDeal(k); err == nil {
				w.deals["forged-dealer"] = e
			}
		}()
		func() {
			d := w.dealer("previous-session", w.dLong, base.Scalar().Pick(alpha.Stream("c10-old-secret")))
			if e, err := d.EncryptedDeal(k); err == nil {
				w.deals["other-session"] = e
			}
		}()
	}
	// --- responses of the verifiers (real Verifier objects)
	verifier := func(i int, label string) *vss.Verifier {
		v, err := vss.NewVerifier(w.suite(fmt.Sprintf("verifier-%d-%s", i, label)), w.vLong[i], w.dPub, w.vPub)
		if err != nil {
			panic(err)
		}
		return v
	}
	for i := 0; i < n; i++ {
		if i == k {
			continue
		}
		d := w.dealer("main", w.dLong, w.secret)
		e, _ := d.EncryptedDeal(i)
		r, err := verifier(i, "a").ProcessEncryptedDeal(e)
		if err != nil || !r.Approved {
			panic(fmt.Sprintf("harness: honest verifier %d does not approve: %v", i, err))
		}
		w.resps[fmt.Sprintf("resp:%d:approve", i)] = r
		d2 := w.dealer("main", w.dLong, w.secret)
		pd, _ := d2.PlaintextDeal(i)
		pd.SecShare.V = base.Scalar().Add(pd.SecShare.V, one)
		e2, _ := d2.EncryptedDeal(i)
		r2, err := verifier(i, "c").ProcessEncryptedDeal(e2)
		if err != nil || r2.Approved {
			panic(fmt.Sprintf("harness: verifier %d does not complain about a bad share: %v", i, err))
		}
		w.resps[fmt.Sprintf("resp:%d:complaint", i)] = r2
		firstOther := i == (k+1)%n || (dealerObs && i == 0)
		bs := *r
		bs.Signature = append([]byte{}, r.Signature...)
		bs.Signature[5] ^= 0x01
		if firstOther {
			w.resps[fmt.Sprintf("resp:%d:badsig", i)] = &bs
		}
		// a genuine complaint / approval whose status was flipped in transit, signature and everything else kept
		if firstOther {
			fc := *r2
			fc.Signature = append([]byte{}, r2.Signature...)
			fc.Approved = true
			w.resps[fmt.Sprintf("resp:%d:complaint-flipped", i)] = &fc
			fa := *r
			fa.Signature = append([]byte{}, r.Signature...)
			fa.Approved = false
			w.resps[fmt.Sprintf("resp:%d:approval-flipped", i)] = &fa
		}
		// authentic approval of another session
		d3 := w.dealer("previous-session", w.dLong, base.Scalar().Pick(alpha.Stream("c10-old-secret")))
		e3, _ := d3.EncryptedDeal(i)
		if r3, err := verifier(i, "o").ProcessEncryptedDeal(e3); err == nil && firstOther {
			w.resps[fmt.Sprintf("resp:%d:othersid", i)] = r3
		}
		// equivocation: the dealer hands verifier i a deal for ANOTHER polynomial whose SessionID field claims this
		// session; i's (authentic) approval of that deal must not count for this session
		if firstOther {
			d5 := w.dealer("equivocation", w.dLong, base.Scalar().Pick(alpha.Stream("c10-equivocation-secret")))
			if pd5, err := d5.PlaintextDeal(i); err == nil {
				pd5.SessionID = append([]byte{}, w.dealer("main", w.dLong, w.secret).SessionID()...)
				if e5, err := d5.EncryptedDeal(i); err == nil {
					if r5, err := verifier(i, "e").ProcessEncryptedDeal(e5); err == nil && r5 != nil {
						w.resps[fmt.Sprintf("resp:%d:equivocated", i)] = r5
					}
				}
			}
		}
		// justifications for i: the real dealer answers i's complaint
		if j, err := w.dealer("main", w.dLong, w.secret).ProcessResponse(cloneRespR(r2)); err == nil && j != nil {
			w.justs[fmt.Sprintf("just:%d:good", i)] = j
		}
		d4 := w.dealer("main", w.dLong, w.secret)
		pd4, _ := d4.PlaintextDeal(i)
		pd4.SecShare.V = base.Scalar().Add(pd4.SecShare.V, one)
		if j, err := d4.ProcessResponse(cloneRespR(r2)); err == nil && j != nil {
			w.justs[fmt.Sprintf("just:%d:bad", i)] = j
		}
		// a justification for i's complaint that reveals ANOTHER verifier's (valid) share, and one that reveals a share
		// of another, self-consistent polynomial (own commitments, this session's id and threshold): neither shows
		// that i's share lies on the committed polynomial - both are incorrect justifications
		if firstOther {
			d7 := w.dealer("main", w.dLong, w.secret)
			o := (i + 1) % n
			if o == k && n > 2 {
				o = (i + 2) % n
			}
			pdi, _ := d7.PlaintextDeal(i)
			if pdo, err := d7.PlaintextDeal(o); err == nil && o != i {
				*pdi = *pdo
				if j, err := d7.ProcessResponse(cloneRespR(r2)); err == nil && j != nil {
					w.justs[fmt.Sprintf("just:%d:bad-another-verifiers-share", i)] = j
				}
			}
			d8 := w.dealer("foreign-polynomial", w.dLong, base.Scalar().Pick(alpha.Stream("c10-foreign-secret")))
			if pd8, err := d8.PlaintextDeal(i); err == nil {
				main := w.dealer("main", w.dLong, w.secret)
				pd8.SessionID = append([]byte{}, main.SessionID()...)
				j := &vss.Justification{SessionID: append([]byte{}, main.SessionID()...), Index: uint32(i), Deal: pd8}
				if sig, err := schnorr.Sign(w.suite("foreign-just"), w.dLong, j.Hash(w.suite("h"))); err == nil {
					j.Signature = sig
					w.justs[fmt.Sprintf("just:%d:bad-foreign-polynomial", i)] = j
				}
			}
		}
		// a justification that reveals a share lying on the committed polynomial - at an index beyond the last
		// verifier: it does not answer i's complaint about share i and must count as an incorrect justification
		if firstOther {
			d6 := w.dealer("main", w.dLong, w.secret)
			var ss, rs []*share.PriShare
			for m := 0; m < n; m++ {
				if pdm, err := d6.PlaintextDeal(m); err == nil {
					ss = append(ss, &share.PriShare{I: pdm.SecShare.I, V: pdm.SecShare.V.Clone()})
					rs = append(rs, &share.PriShare{I: pdm.RndShare.I, V: pdm.RndShare.V.Clone()})
				}
			}
			_ = rs
			if sp, err := share.RecoverPriPoly(base, ss, uint32(w.t), uint32(n)); err == nil {
				pd6, _ := d6.PlaintextDeal(i)
				oobI := uint32(n + 1)
				pd6.SecShare = sp.Eval(oobI)
				if rp, err := share.RecoverPriPoly(base, rs, uint32(w.t), uint32(n)); err == nil {
					pd6.RndShare = rp.Eval(oobI)
				}
				if j, err := d6.ProcessResponse(cloneRespR(r2)); err == nil && j != nil {
					w.justs[fmt.Sprintf("just:%d:bad-share-index-out-of-range", i)] = j
				}
			}
		}
	}
	if !dealerObs {
		first := (k + 1) % n
		ap := w.resps[fmt.Sprintf("resp:%d:approve", first)]
		oob := *ap
		oob.Index = uint32(n)
		w.resps["resp:oob:approve"] = &oob
		own := vss.Response{SessionID: ap.SessionID, Index: uint32(k), Approved: true}
		own.Signature, _ = schnorr.Sign(w.suite("forger"), w.vLong[first], own.Hash(w.suite("h")))
		w.resps["resp:own:forged"] = &own
		// justifications for the observer's own complaint
		d := w.dealer("main", w.dLong, w.secret)
		pd, _ := d.PlaintextDeal(k)
		pd.SecShare.V = base.Scalar().Add(pd.SecShare.V, one)
		e, _ := d.EncryptedDeal(k)
		if rk, err := verifier(k, "own").ProcessEncryptedDeal(e); err == nil && !rk.Approved {
			if j, err := w.dealer("main", w.dLong, w.secret).ProcessResponse(cloneRespR(rk)); err == nil && j != nil {
				w.justs[fmt.Sprintf("just:%d:good", k)] = j
			}
			if j, err := d.ProcessResponse(cloneRespR(rk)); err == nil && j != nil {
				w.justs[fmt.Sprintf("just:%d:bad", k)] = j
			}
		}
		if g, ok := w.justs[fmt.Sprintf("just:%d:good", first)]; ok {
			o := *g
			o.Index = uint32(n)
			w.justs["just:oob:good"] = &o
		}
	} else {
		// the dealer also hears from verifier k... every verifier is "other" for it (k = -1)
	}
	// event list, simplest first
	var dn []string
	for v := range w.deals {
		dn = append(dn, v)
	}
	sort.Slice(dn, func(a, b int) bool {
		if dn[a] == "honest" || dn[b] == "honest" {
			return dn[a] == "honest"
		}
		return dn[a] < dn[b]
	})
	for _, v := range dn {
		w.events = append(w.events, "deal:"+v)
	}
	var rn, jn []string
	for r := range w.resps {
		rn = append(rn, r)
	}
	for j := range w.justs {
		jn = append(jn, j)
	}
	sort.Strings(rn)
	sort.Strings(jn)
	w.events = append(w.events, rn...)
	if !dealerObs {
		w.events = append(w.events, jn...)
	}
	w.events = append(w.events, "timeout")
	return w
}

func cloneRespR(r *vss.Response) *vss.Response {
	c := *r
	c.SessionID = append([]byte{}, r.SessionID...)
	c.Signature = append([]byte{}, r.Signature...)
	return &c
}

type rabObs struct {
	w   *rabWorld
	v   *vss.Verifier
	d   *vss.Dealer
	got bool // a deal reached the aggregator (rabin creates it lazily; its callers guard the nil case)
}

var errNoDealYet = fmt.Errorf("harness: event withheld, no deal processed yet")

func (w *rabWorld) NewObserver() observer {
	o := &rabObs{w: w}
	if w.dealerObs {
		o.d = w.dealer("main", w.dLong, w.secret)
		return o
	}
	v, err := vss.NewVerifier(w.suite("observer"), w.vLong[w.k], w.dPub, w.vPub)
	if err != nil {
		panic(err)
	}
	o.v = v
	return o
}

func (o *rabObs) Apply(ev string) (string, error) {
	w := o.w
	p := strings.Split(ev, ":")
	switch p[0] {
	case "deal":
		e := *w.deals[p[1]]
		r, err := o.v.ProcessEncryptedDeal(&e)
		if r != nil || w.Processable(p[1]) {
			o.got = true // the aggregator exists once a deal was decrypted and addressed to this verifier
		}
		if err != nil || r == nil {
			return "", err
		}
		if r.Approved {
			return "approve", nil
		}
		return "complaint", nil
	case "resp":
		r := cloneRespR(w.resps[ev])
		if o.d != nil {
			_, err := o.d.ProcessResponse(r)
			return "", err
		}
		if !o.got {
			return "", errNoDealYet
		}
		return "", o.v.ProcessResponse(r)
	case "just":
		j := *w.justs[ev]
		dd := *j.Deal
		ss := *dd.SecShare
		dd.SecShare = &ss
		j.Deal = &dd
		if !o.got {
			return "", errNoDealYet
		}
		ss2 := *dd.RndShare
		dd.RndShare = &ss2
		return "", o.v.ProcessJustification(&j)
	case "timeout":
		if o.d != nil {
			o.d.SetTimeout()
		} else if o.got {
			o.v.SetTimeout()
		}
	}
	return "", nil
}

func (o *rabObs) Certified() bool {
	if o.d != nil {
		return o.d.DealCertified()
	}
	if !o.got {
		return false
	}
	return o.v.DealCertified()
}
func (o *rabObs) DealNonNil() bool {
	if o.d != nil {
		return o.d.SecretCommit() != nil
	}
	if !o.got {
		return false
	}
	return o.v.Deal() != nil
}
func (o *rabObs) Obs() string {
	if o.d != nil {
		return fmt.Sprint(o.d.EnoughApprovals())
	}
	if !o.got {
		return "no-deal"
	}
	return fmt.Sprint(o.v.EnoughApprovals())
}
