package c10

import (
	"fmt"

	"go.dedis.ch/kyber/v4"
	"go.dedis.ch/kyber/v4/group/edwards25519"
	vssp "go.dedis.ch/kyber/v4/share/vss/pedersen"
	vssr "go.dedis.ch/kyber/v4/share/vss/rabin"
	"verif/harness/alpha"
	"verif/harness/vf"
)

func subsets(n, t int) [][]int {
	var out [][]int
	for m := 0; m < 1<<n; m++ {
		var s []int
		for i := 0; i < n; i++ {
			if m>>i&1 == 1 {
				s = append(s, i)
			}
		}
		if len(s) == t {
			out = append(out, s)
		}
	}
	return out
}

// honestJobs: S1 - when everybody follows the protocol.
func honestJobs(c *vf.Check) []func() {
	var jobs []func()
	maxN := 5
	if c.Thorough() {
		maxN = 6
	}
	for n := 3; n <= maxN; n++ {
		for t := 2; t <= n; t++ {
			n, t := n, t
			jobs = append(jobs, func() { honestPedersen(c, n, t) }, func() { honestRabin(c, n, t) })
		}
	}
	return jobs
}

func keys(n int) (kyber.Scalar, kyber.Point, []kyber.Scalar, []kyber.Point, kyber.Scalar) {
	ed := edwards25519.NewBlakeSHA256Ed25519()
	var vl []kyber.Scalar
	var vp []kyber.Point
	for i := 0; i < n; i++ {
		s := ed.Scalar().Pick(alpha.Stream(fmt.Sprintf("c10h-v%d", i)))
		vl, vp = append(vl, s), append(vp, ed.Point().Mul(s, nil))
	}
	dl := ed.Scalar().Pick(alpha.Stream("c10h-dealer"))
	return dl, ed.Point().Mul(dl, nil), vl, vp, ed.Scalar().Pick(alpha.Stream("c10h-secret"))
}

func honestPedersen(c *vf.Check, n, t int) {
	pk := "C10/pedersen/honest"
	id := fmt.Sprintf("pedersen honest run n=%d t=%d", n, t)
	c.Case(id, pk, func(x *vf.Ctx) {
		suite := func(l string) vssp.Suite {
			return edwards25519.NewBlakeSHA256Ed25519WithRand(alpha.Stream(id + l))
		}
		dl, dp, vl, vp, secret := keys(n)
		d, err := vssp.NewDealer(suite("d"), dl, secret, vp, uint32(t))
		if err != nil {
			x.Failf(pk, "NewDealer: %v", err)
			return
		}
		var vs []*vssp.Verifier
		var rs []*vssp.Response
		for i := 0; i < n; i++ {
			v, err := vssp.NewVerifier(suite(fmt.Sprint("v", i)), vl[i], dp, vp)
			if err != nil {
				x.Failf(pk, "NewVerifier: %v", err)
				return
			}
			e, err := d.EncryptedDeal(i)
			if err != nil {
				x.Failf(pk, "EncryptedDeal: %v", err)
				return
			}
			r, err := v.ProcessEncryptedDeal(e)
			if err != nil || !r.StatusApproved {
				x.Failf(pk+"/not-approved", "%s: verifier %d does not approve the honest deal (err=%v)", id, i, err)
				return
			}
			vs, rs = append(vs, v), append(rs, r)
		}
		for i, r := range rs {
			for j, v := range vs {
				if i != j {
					if err := v.ProcessResponse(cloneResp(r)); err != nil {
						x.Failf(pk+"/response-rejected", "%s: verifier %d rejects the approval of %d: %v", id, j, i, err)
					}
				}
			}
			if j, err := d.ProcessResponse(cloneResp(r)); err != nil || j != nil {
				x.Failf(pk+"/response-rejected", "%s: dealer rejects the approval of %d: %v", id, i, err)
			}
		}
		c.Eval(1)
		var deals []*vssp.Deal
		for i, v := range vs {
			if !v.DealCertified() || v.Deal() == nil {
				x.Failf(pk+"/not-certified", "%s: verifier %d: deal not certified after n approvals", id, i)
				return
			}
			deals = append(deals, v.Deal())
		}
		if !d.DealCertified() || d.SecretCommit() == nil {
			x.Failf(pk+"/not-certified", "%s: dealer: deal not certified after n approvals", id)
			return
		}
		ed := edwards25519.NewBlakeSHA256Ed25519()
		if !d.SecretCommit().Equal(ed.Point().Mul(secret, nil)) || !d.Commits()[0].Equal(ed.Point().Mul(secret, nil)) {
			x.Failf(pk+"/commitment", "%s: published commitment is not secret*G", id)
		}
		for _, sub := range subsets(n, t) {
			var ds []*vssp.Deal
			for _, i := range sub {
				ds = append(ds, deals[i])
			}
			sec, err := vssp.RecoverSecret(ed, ds, uint32(n), uint32(t))
			c.Eval(1)
			if err != nil || !sec.Equal(secret) {
				x.Failf(pk+"/recover", "%s: deals %v do not reconstruct the dealer's secret (err=%v)", id, sub, err)
			}
		}
	})
	c.Count("transitions", 1)
	c.Nontrivial(id)
}

func honestRabin(c *vf.Check, n, t int) {
	pk := "C10/rabin/honest"
	id := fmt.Sprintf("rabin honest run n=%d t=%d", n, t)
	c.Case(id, pk, func(x *vf.Ctx) {
		suite := func(l string) vssr.Suite {
			return edwards25519.NewBlakeSHA256Ed25519WithRand(alpha.Stream(id + l))
		}
		dl, dp, vl, vp, secret := keys(n)
		d, err := vssr.NewDealer(suite("d"), dl, secret, vp, uint32(t))
		if err != nil {
			x.Failf(pk, "NewDealer: %v", err)
			return
		}
		var vs []*vssr.Verifier
		var rs []*vssr.Response
		for i := 0; i < n; i++ {
			v, err := vssr.NewVerifier(suite(fmt.Sprint("v", i)), vl[i], dp, vp)
			if err != nil {
				x.Failf(pk, "NewVerifier: %v", err)
				return
			}
			e, err := d.EncryptedDeal(i)
			if err != nil {
				x.Failf(pk, "EncryptedDeal: %v", err)
				return
			}
			r, err := v.ProcessEncryptedDeal(e)
			if err != nil || !r.Approved {
				x.Failf(pk+"/not-approved", "%s: verifier %d does not approve the honest deal (err=%v)", id, i, err)
				return
			}
			vs, rs = append(vs, v), append(rs, r)
		}
		for i, r := range rs {
			for j, v := range vs {
				if i != j {
					if err := v.ProcessResponse(cloneRespR(r)); err != nil {
						x.Failf(pk+"/response-rejected", "%s: verifier %d rejects the approval of %d: %v", id, j, i, err)
					}
				}
			}
			if j, err := d.ProcessResponse(cloneRespR(r)); err != nil || j != nil {
				x.Failf(pk+"/response-rejected", "%s: dealer rejects the approval of %d: %v", id, i, err)
			}
		}
		c.Eval(1)
		var deals []*vssr.Deal
		for i, v := range vs {
			if !v.DealCertified() || v.Deal() == nil {
				x.Failf(pk+"/not-certified", "%s: verifier %d: deal not certified after n approvals", id, i)
				return
			}
			deals = append(deals, v.Deal())
		}
		if !d.DealCertified() || d.SecretCommit() == nil {
			x.Failf(pk+"/not-certified", "%s: dealer: deal not certified after n approvals", id)
			return
		}
		ed := edwards25519.NewBlakeSHA256Ed25519()
		if !d.SecretCommit().Equal(ed.Point().Mul(secret, nil)) {
			x.Failf(pk+"/commitment", "%s: published commitment is not secret*G", id)
		}
		for _, sub := range subsets(n, t) {
			var ds []*vssr.Deal
			for _, i := range sub {
				ds = append(ds, deals[i])
			}
			sec, err := vssr.RecoverSecret(ed, ds, uint32(n), uint32(t))
			c.Eval(1)
			if err != nil || !sec.Equal(secret) {
				x.Failf(pk+"/recover", "%s: deals %v do not reconstruct the dealer's secret (err=%v)", id, sub, err)
			}
		}
	})
	c.Count("transitions", 1)
	c.Nontrivial(id)
}
