package c10

import (
	"verif/harness/vf"
)

func Run(c *vf.Check) {
	c.Level = "model_checking"
	type job struct {
		w     world
		first string
		depth int
	}
	var jobs []job
	ns := []int{3}
	if c.Thorough() {
		ns = []int{3, 4}
	}
	var worlds []world
	c.Case("worlds", "C10/setup", func(x *vf.Ctx) {
		worlds = nil
		for _, n := range ns {
			for t := 2; t <= n; t++ {
				worlds = append(worlds, newPedWorld(n, t, 0, false), newPedWorld(n, t, 0, true))
				worlds = append(worlds, newRabWorld(n, t, 0, false), newRabWorld(n, t, 0, true))
				if c.Thorough() {
					worlds = append(worlds, newPedWorld(n, t, n-1, false), newRabWorld(n, t, n-1, false))
				}
			}
		}
	})
	for _, w := range worlds {
		depth := w.N() + 2
		if c.Thorough() && w.N() == 3 {
			depth = w.N() + 4
		}
		for _, ev := range w.Events() {
			jobs = append(jobs, job{w, ev, depth})
		}
	}
	vf.Parallel(len(jobs), func(i int) { explore(c, jobs[i].w, jobs[i].first, jobs[i].depth) })
	hon := honestJobs(c)
	vf.Parallel(len(hon), func(i int) { hon[i]() })
	c.Finish("engine S (explicit-state BFS, observer-centred): for Pedersen and Rabin VSS, n=3 (thorough 3,4), every valid t, observers = verifier 0, verifier n-1 and the dealer's aggregator: all histories up to depth n+3 over the event menu {14 deal variants built by editing the dealer's plaintext deal and encrypting through the real path: honest, share+1, wrong index, wrong index together with another valid threshold, commitment replaced, T in {0,1,n+1}, SessionID replaced, share value absent, wrong recipient, forged dealer, flipped signature, replayed other-session deal; per other verifier: authentic approval, authentic complaint, bad signature, a genuine response with its status flipped and its signature kept, other-session approval, approval of an equivocated deal (another polynomial whose SessionID field claims this session); out-of-range and forged-own responses; per index: correct and incorrect justification, a justification revealing a share on the polynomial at an index beyond the last verifier, one revealing another verifier's valid share, one revealing a share of another self-consistent polynomial under this session's id (also for the observer's own complaint), out-of-range justification; timeout}. "+
		"Lock-step reference model from the statement; after every transition: approval only of consistent deals (S2), DealCertified => >= t distinct approved/justified verifiers, no processed invalid justification, own deal approved/justified, valid threshold (S3), all approved/justified and no invalid justification => certified, Deal()!=nil => certified. States merged on model state + certification + exposed response statuses. Honest runs for n=3..5 (every t): all approve, certified everywhere, every t-subset of Deal()s recovers the dealer's secret and commitment (S1). "+
		"non-trivial = histories of length >= 2 reaching a new canonical state",
		[]string{"messages are generated once per (variant,n,t) from seeded streams through the real Dealer/Verifier code", "state merging assumes the model state plus the exposed observables determine future behaviour (lost coverage, never a false alarm, if not)",
			"Rabin: responses are delivered only after a deal (the only caller guards it)"}, nil)
}
