// Package c10: VSS (Pedersen and Rabin variants). Observer-centred
// explicit-state exploration: one honest verifier (and, separately, the
// dealer's aggregator) is driven through every history of deal variants,
// responses, justifications and timeouts up to a depth bound; a reference
// model derived from the property statement runs in lock-step; states are
// merged on (model state + everything observable through the public API).
package c10

import (
	"fmt"
	"sort"
	"strings"

	"verif/harness/vf"
)

// observer is a fresh real Verifier (index k) that events are applied to.
type observer interface {
	// Apply performs one event; for a deal event it returns "approve",
	// "complaint" or "" with an error; for others "" and the handler's error.
	Apply(ev string) (string, error)
	Certified() bool
	DealNonNil() bool
	Obs() string // other observable state (statuses where the API exposes them)
}

type world interface {
	Name() string
	N() int
	T() int
	K() int // observer index
	Events() []string
	NewObserver() observer
	// deal variant classification (decided by how the harness built the variant)
	Processable(v string) bool // authentic, decryptable by k, for index k
	Approvable(v string) bool  // and consistent: share on commitments, 2<=T<=n
	SameSession(v string) bool // responses of the main session are consistent with it
	ValidT(v string) bool
	RespBeforeDeal() bool // whether responses may be delivered before the deal
	// TimeoutMakesComplaints: the variant turns every absent verifier into a complainer at the timeout (Rabin)
	TimeoutMakesComplaints() bool
}

type mstate struct {
	deal     string // variant of the first processable deal, "" if none
	own      string // "", approve, complaint
	st       []string
	upper    map[int]bool // indices that ever approved authentically or were correctly justified
	badLower bool         // an incorrect justification for a recorded complaint was processed
	badEver  bool         // any justification event carrying an invalid deal occurred
	contra   bool         // a verifier sent two different authentic responses (model makes no liveness claim then)
	timeout  bool
}

func newM(w world) *mstate {
	m := &mstate{st: make([]string, w.N()), upper: map[int]bool{}}
	if w.K() < 0 { // the dealer's own aggregator: it knows its (honest) deal
		m.deal, m.own = "honest", "approve"
	}
	return m
}

func (m *mstate) key() string {
	var up []string
	for i := range m.upper {
		up = append(up, fmt.Sprint(i))
	}
	sort.Strings(up)
	return fmt.Sprintf("d=%s own=%s st=%v up=%v bad=%v/%v c=%v to=%v", m.deal, m.own, m.st, up, m.badLower, m.badEver, m.contra, m.timeout)
}

// apply updates the model for event ev; implRes is what the implementation returned for a deal event.
func (m *mstate) apply(w world, ev string) {
	p := strings.Split(ev, ":")
	k := w.K()
	switch p[0] {
	case "deal":
		v := p[1]
		if m.deal == "" && w.Processable(v) {
			m.deal = v
			if w.Approvable(v) {
				m.own, m.st[k] = "approve", "approve"
				m.upper[k] = true
			} else {
				m.own, m.st[k] = "complaint", "complaint"
			}
		}
	case "resp":
		var i int
		fmt.Sscan(p[1], &i)
		kind := p[2]
		if p[1] == "oob" || p[1] == "own" {
			return
		}
		if m.deal == "other-session" {
			// the observer is in the replayed session: that session's approvals are the authentic ones
			if kind != "othersid" {
				return
			}
			kind = "approve"
		} else {
			if kind != "approve" && kind != "complaint" {
				return // not authentic for this session
			}
			if m.deal == "" && !w.RespBeforeDeal() {
				return
			}
			if m.deal != "" && !w.SameSession(m.deal) {
				return
			}
		}
		if kind == "approve" {
			m.upper[i] = true
		}
		if m.st[i] == "" {
			m.st[i] = kind
		} else if m.st[i] != kind && m.st[i] != "justified" {
			m.contra = true
		}
	case "just":
		var i int
		fmt.Sscan(p[1], &i)
		kind := p[2]
		if p[1] == "oob" || i < 0 || i >= len(m.st) {
			return
		}
		if kind == "good" && m.deal == "commit-replaced" {
			// the observer holds other commitments than the ones the (otherwise correct) justification brings along:
			// for this observer the revealed share does not lie on the committed polynomial
			kind = "bad-commitments-differ-from-the-observers"
		}
		if strings.HasPrefix(kind, "bad") {
			m.badEver = true
		}
		if m.deal == "" || !w.SameSession(m.deal) {
			return
		}
		if m.st[i] == "complaint" {
			if kind == "good" {
				m.st[i] = "justified"
				m.upper[i] = true
				if i == k {
					m.own = "justified"
				}
			} else {
				m.badLower = true
			}
		}
	case "timeout":
		m.timeout = true
		if w.TimeoutMakesComplaints() && m.deal != "" {
			for i := range m.st {
				if m.st[i] == "" {
					m.st[i] = "complaint"
				}
			}
		}
	}
}

func (m *mstate) allApproved() bool {
	for _, s := range m.st {
		if s != "approve" && s != "justified" {
			return false
		}
	}
	return true
}

// explore runs the BFS below one first event.
func explore(c *vf.Check, w world, first string, depth int) {
	pk := "C10/" + w.Name()
	evs := w.Events()
	type node struct{ hist []string }
	seen := map[string]bool{}
	frontier := []node{{[]string{first}}}
	states, trans := 0, 0
	for len(frontier) > 0 {
		var next []node
		for _, nd := range frontier {
			hist := nd.hist
			id := fmt.Sprintf("%s n=%d t=%d k=%d: %s", w.Name(), w.N(), w.T(), w.K(), strings.Join(hist, " ; "))
			var key string
			dealHeld := false
			c.Case(id, pk, func(x *vf.Ctx) {
				o := w.NewObserver()
				m := newM(w)
				for hi, ev := range hist {
					res, err := o.Apply(ev)
					m.apply(w, ev)
					last := hi == len(hist)-1
					if !last {
						continue // prefixes were checked when they were the last event
					}
					c.Eval(1)
					p := strings.Split(ev, ":")
					if p[0] == "deal" {
						v := p[1]
						if res == "approve" && !w.Approvable(v) {
							x.Failf(pk+"/inconsistent-deal-approved", "deal variant %q is approved (history: %s)", v, id)
						}
						if res == "" && err == nil {
							x.Failf(pk+"/deal-no-answer", "deal variant %q: neither a response nor an error", v)
						}
						if w.Approvable(v) && len(hist) == 1 && res != "approve" {
							x.Failf(pk+"/honest-deal-not-approved", "the honest deal variant %q as first event is answered with %q (err=%v)", v, res, err)
						}
					}
				}
				dealHeld = m.deal != "" && w.K() >= 0
				cert := o.Certified()
				nUp := len(m.upper)
				tEff := w.T()
				if cert && m.deal != "" && !w.ValidT(m.deal) {
					x.Failf(pk+"/certified-invalid-threshold", "certified although the deal's threshold is out of range (%s)", id)
				}
				if cert && nUp < tEff {
					x.Failf(pk+"/certified-without-t-approvals", "DealCertified() with only %d verifiers approved/justified (t=%d): %s | model %s", nUp, tEff, id, m.key())
				}
				if cert && m.badLower {
					x.Failf(pk+"/certified-after-bad-justification", "DealCertified() although an incorrect justification for a recorded complaint was processed: %s", id)
				}
				if o.DealNonNil() && !cert {
					x.Failf(pk+"/deal-without-certification", "Deal() is non-nil while DealCertified() is false: %s", id)
				}
				if !cert && m.allApproved() && !m.badEver && !m.contra && m.deal != "" && w.SameSession(m.deal) && w.ValidT(m.deal) {
					x.Failf(pk+"/not-certified-although-all-approved", "all %d verifiers approved or were correctly justified, no invalid justification, yet DealCertified() is false: %s", w.N(), id)
				}
				key = m.key() + "|" + fmt.Sprint(cert, o.DealNonNil()) + "|" + o.Obs()
				c.Class(fmt.Sprintf("%s/certified=%v", w.Name(), cert), func() any { return id })
			})
			trans++
			if key == "" || seen[key] {
				continue
			}
			seen[key] = true
			states++
			if len(hist) > 1 {
				c.Nontrivial(id)
			}
			if len(hist) < depth {
				for _, ev := range evs {
					// once a deal is held, every further deal event is answered "already received";
					// two representatives (a consistent and an inconsistent second deal) are kept
					if dealHeld && strings.HasPrefix(ev, "deal:") && ev != "deal:honest" && ev != "deal:share+1" {
						continue
					}
					next = append(next, node{append(append([]string{}, hist...), ev)})
				}
			}
		}
		frontier = next
		if c.Expired() {
			c.Cap(w.Name() + ": deadline")
			break
		}
	}
	c.Count("states", int64(states))
	c.Count("transitions", int64(trans))
	c.Count("traces_validated_against_impl", int64(trans))
}
