// Package c20: shared read-only use of values, suites and scheme objects.
//
// Part R (this file): exhaustive enumeration of two-thread fork-join programs
// {m1(O) || m2(O)} for every shared object O and every unordered pair of
// read-only methods, executed in a binary built with the race detector. For a
// fork-join program the happens-before relation is the same in every
// schedule, so the vector-clock detector reports a conflicting pair of
// accesses iff one exists in some schedule: each program is decided by one
// run. Results are also compared with the sequential results.
// Part P (sched.go / explore.go): controlled-scheduler exploration of the
// interleavings of the same programs on statement-instrumented kyber code.
package c20

import (
	"bytes"
	"fmt"
	"os"
	"regexp"
	"strings"
	"sync"
	"time"

	"go.dedis.ch/kyber/v4"
	"go.dedis.ch/kyber/v4/share"
	"go.dedis.ch/kyber/v4/sign/bdn"
	"go.dedis.ch/kyber/v4/sign/bls"
	"go.dedis.ch/kyber/v4/sign/cosi"
	"go.dedis.ch/kyber/v4/sign/schnorr"
	"go.dedis.ch/kyber/v4/util/random"
	"verif/harness/alpha"
	"verif/harness/fmod"
	"verif/harness/groups"
	"verif/harness/vf"
)

// method is one read-only use of the shared object; it returns an observation (bytes) to compare with the sequential run.
type method struct {
	name string
	run  func() []byte
}

// scenario: a shared object (built fresh for every program) with its read-only method set.
type scenario struct {
	name    string
	build   func() []method
	pairsOf func(ms []method) [][2]int
}

func allPairs(ms []method) [][2]int {
	var out [][2]int
	for i := range ms {
		for j := i; j < len(ms); j++ {
			out = append(out, [2]int{i, j})
		}
	}
	return out
}

func b2(v bool) []byte {
	if v {
		return []byte{1}
	}
	return []byte{0}
}

func pointScenario(g *groups.G, form string) scenario {
	return scenario{name: g.Name + " point (" + form + ")", pairsOf: allPairs, build: func() []method {
		m := fmod.New(g)
		var O kyber.Point
		switch form {
		case "sum": // non-normalised internal coordinates
			O = g.Point().Add(m.Gens[0], m.Gens[len(m.Gens)-1])
			O = g.Point().Add(O, m.Gens[0])
		case "decoded":
			O = m.Decoded(m.Gen(len(m.Gens) - 1)).P
		case "product":
			O = g.Point().Mul(alpha.ToScalar(g.Scalar(), alpha.Rand("c20-k", g.Order), g.Order), m.Gens[0])
		}
		other := g.Point().Add(m.Gens[0], m.Gens[0])
		sc := alpha.ToScalar(g.Scalar(), alpha.Rand("c20-s", g.Order), g.Order)
		ms := []method{
			{"MarshalBinary", func() []byte { return fmod.Enc(O) }},
			{"MarshalTo", func() []byte { var w bytes.Buffer; _, _ = O.MarshalTo(&w); return w.Bytes() }},
			{"String", func() []byte { return []byte(O.String()) }},
			{"MarshalSize", func() []byte { return []byte{byte(O.MarshalSize())} }},
			{"Equal(O,x)", func() []byte { return b2(O.Equal(other)) }},
			{"Equal(x,O)", func() []byte { return b2(other.Equal(O)) }},
			{"Equal(O,O')", func() []byte { return b2(O.Equal(O)) }},
			{"Clone", func() []byte { return fmod.Enc(O.Clone()) }},
			{"operand of Add", func() []byte { return fmod.Enc(g.Point().Add(O, other)) }},
			{"operand of Sub", func() []byte { return fmod.Enc(g.Point().Sub(other, O)) }},
			{"operand of Neg", func() []byte { return fmod.Enc(g.Point().Neg(O)) }},
			{"operand of Mul", func() []byte { return fmod.Enc(g.Point().Mul(sc, O)) }},
			{"operand of Set", func() []byte { return fmod.Enc(g.Point().Set(O)) }},
		}
		if g.Embed {
			ms = append(ms, method{"Data", func() []byte { d, err := O.Data(); return append(d, b2(err == nil)...) }},
				method{"EmbedLen", func() []byte { return []byte{byte(O.EmbedLen())} }})
		}
		if g.Kind == "G1" || g.Kind == "G2" {
			s := g.Suite
			var q kyber.Point
			if g.Kind == "G1" {
				q = s.G2().Point().Base()
				ms = append(ms, method{"Pair(O,Q)", func() []byte { return fmod.Enc(s.Pair(O, q)) }},
					method{"ValidatePairing(O,Q,O,Q)", func() []byte { return b2(s.ValidatePairing(O, q, O, q)) }})
			} else {
				q = s.G1().Point().Base()
				ms = append(ms, method{"Pair(P,O)", func() []byte { return fmod.Enc(s.Pair(q, O)) }},
					method{"ValidatePairing(P,O,P,O)", func() []byte { return b2(s.ValidatePairing(q, O, q, O)) }})
			}
		}
		return ms
	}}
}

func scalarScenario(g *groups.G) scenario {
	return scenario{name: g.Name + " scalar", pairsOf: allPairs, build: func() []method {
		q := g.Order
		a := g.Scalar().Mul(alpha.ToScalar(g.Scalar(), alpha.Rand("c20-a", q), q), alpha.ToScalar(g.Scalar(), alpha.Rand("c20-b", q), q))
		o := alpha.ToScalar(g.Scalar(), alpha.Rand("c20-o", q), q)
		enc := func(s kyber.Scalar) []byte { b, _ := s.MarshalBinary(); return b }
		ms := []method{
			{"MarshalBinary", func() []byte { return enc(a) }},
			{"String", func() []byte { return []byte(a.String()) }},
			{"Equal", func() []byte { return b2(a.Equal(o)) }},
			{"Clone", func() []byte { return enc(a.Clone()) }},
			{"operand of Add", func() []byte { return enc(g.Scalar().Add(a, o)) }},
			{"operand of Mul", func() []byte { return enc(g.Scalar().Mul(o, a)) }},
			{"operand of Inv", func() []byte { return enc(g.Scalar().Inv(a)) }},
			{"operand of Neg", func() []byte { return enc(g.Scalar().Neg(a)) }},
		}
		if g.MulNil {
			ms = append(ms, method{"Point.Mul(s,nil)", func() []byte { return fmod.Enc(g.Point().Mul(a, nil)) }})
		}
		return ms
	}}
}

type randSuite interface {
	kyber.Group
	kyber.Random
}

func schemeScenarios() []scenario {
	var out []scenario
	// suites: random stream draws and hash/XOF factories on one shared suite object
	for _, gn := range []string{"ed25519", "p256", "bn256.G1"} {
		gn := gn
		out = append(out, scenario{name: "suite " + gn, pairsOf: allPairs, build: func() []method {
			g := groups.ByName(gn)
			s := g.Group.(randSuite)
			st := s.RandomStream() // one stream shared by both threads
			return []method{
				{"RandomStream draw", func() []byte { b := make([]byte, 32); s.RandomStream().XORKeyStream(b, b); return nil }},
				{"shared stream draw", func() []byte { b := make([]byte, 32); st.XORKeyStream(b, b); return nil }},
				{"Scalar().Pick(shared stream)", func() []byte { s.Scalar().Pick(st); return nil }},
				{"Point().Mul(nil)", func() []byte { return fmod.Enc(s.Point().Mul(s.Scalar().One(), nil)) }},
				{"String", func() []byte { return []byte(s.String()) }},
			}
		}})
	}
	out = append(out, scenario{name: "random.New(go readers) stream", pairsOf: allPairs, build: func() []method {
		// entropy sources written in Go (crypto/rand fills buffers through a system call the detector cannot see)
		st := random.New(&lockedReader{seed: 1}, &lockedReader{seed: 2})
		return []method{
			{"XORKeyStream", func() []byte { b := make([]byte, 40); st.XORKeyStream(b, b); return nil }},
			{"random.Bytes", func() []byte { b := make([]byte, 16); random.Bytes(b, st); return nil }},
			{"random.Int", func() []byte { random.Int(groups.ByName("p256").Scalar().GroupOrder(), st); return nil }},
		}
	}})
	out = append(out, scenario{name: "random.New() stream", pairsOf: allPairs, build: func() []method {
		st := random.New()
		return []method{
			{"XORKeyStream", func() []byte { b := make([]byte, 40); st.XORKeyStream(b, b); return nil }},
			{"random.Bytes", func() []byte { b := make([]byte, 16); random.Bytes(b, st); return nil }},
		}
	}})
	// public polynomial
	out = append(out, scenario{name: "share.PubPoly (ed25519)", pairsOf: allPairs, build: func() []method {
		g := groups.ByName("ed25519")
		var cs []kyber.Scalar
		for i := 0; i < 3; i++ {
			cs = append(cs, alpha.ToScalar(g.Scalar(), alpha.Rand(fmt.Sprint("c20-poly", i), g.Order), g.Order))
		}
		pri := share.CoefficientsToPriPoly(g.Group, cs)
		pub := pri.Commit(nil)
		sh := pri.Eval(1)
		return []method{
			{"Eval", func() []byte { return fmod.Enc(pub.Eval(2).V) }},
			{"Check", func() []byte { return b2(pub.Check(sh)) }},
			{"Commit", func() []byte { return fmod.Enc(pub.Commit()) }},
			{"Shares", func() []byte { return fmod.Enc(pub.Shares(3)[2].V) }},
			{"Equal", func() []byte { return b2(pub.Equal(pub)) }},
			{"Info", func() []byte { _, c := pub.Info(); return fmod.Enc(c[0]) }},
		}
	}})
	// Schnorr / BLS verification with a shared key
	out = append(out, scenario{name: "schnorr public key (ed25519)", pairsOf: allPairs, build: func() []method {
		g := groups.ByName("ed25519")
		s := g.Group.(schnorr.Suite)
		priv := alpha.ToScalar(g.Scalar(), alpha.Rand("c20-schnorr", g.Order), g.Order)
		pub := g.Point().Mul(priv, nil)
		pub = g.Point().Add(pub, g.Point().Null()) // computed form
		msg := []byte("c20")
		sig, _ := schnorr.Sign(s, priv, msg)
		return []method{
			{"Verify", func() []byte { return b2(schnorr.Verify(s, pub, msg, sig) == nil) }},
			{"Verify(other msg)", func() []byte { return b2(schnorr.Verify(s, pub, []byte("x"), sig) == nil) }},
			{"MarshalBinary(key)", func() []byte { return fmod.Enc(pub) }},
		}
	}})
	for _, ps := range groups.PairingSuites() {
		ps := ps
		out = append(out, scenario{name: "bls public key (" + ps.Name + ")", pairsOf: allPairs, build: func() []method {
			sch := bls.NewSchemeOnG1(ps.Suite)
			g2 := groups.ByName(ps.Name + ".G2")
			priv := alpha.ToScalar(g2.Scalar(), alpha.Rand("c20-bls", g2.Order), g2.Order)
			pub := g2.Point().Mul(priv, nil)
			msg := []byte("c20 bls")
			sig, _ := sch.Sign(priv, msg)
			return []method{
				{"Verify", func() []byte { return b2(sch.Verify(pub, msg, sig) == nil) }},
				{"Verify(other msg)", func() []byte { return b2(sch.Verify(pub, []byte("x"), sig) == nil) }},
				{"MarshalBinary(key)", func() []byte { return fmod.Enc(pub) }},
				{"shared scheme Sign", func() []byte { s2, _ := sch.Sign(priv, msg); return s2 }},
			}
		}})
	}
	// participation masks
	out = append(out, scenario{name: "bdn.Mask (bn256)", pairsOf: allPairs, build: func() []method {
		ps := groups.PairingSuites()[0]
		g2 := groups.ByName(ps.Name + ".G2")
		var pubs []kyber.Point
		for i := 0; i < 3; i++ {
			pubs = append(pubs, g2.Point().Mul(alpha.ToScalar(g2.Scalar(), alpha.Rand(fmt.Sprint("c20-bdn", i), g2.Order), g2.Order), nil))
		}
		m, _ := bdn.NewMask(g2.Group, pubs, nil)
		_ = m.SetBit(0, true)
		_ = m.SetBit(2, true)
		sch := bdn.NewSchemeOnG1(ps.Suite)
		return []method{
			{"Clone", func() []byte { return m.Clone().Mask() }},
			{"Mask", func() []byte { return m.Mask() }},
			{"Participants", func() []byte { return []byte{byte(len(m.Participants()))} }},
			{"CountEnabled", func() []byte { return []byte{byte(m.CountEnabled())} }},
			{"AggregatePublicKeys", func() []byte { p, _ := sch.AggregatePublicKeys(m); return fmod.Enc(p) }},
			{"IndexOfNthEnabled", func() []byte { return []byte{byte(m.IndexOfNthEnabled(1))} }},
		}
	}})
	// a complete mask (every participant enabled), used directly and through clones taken by each thread
	out = append(out, scenario{name: "bdn.Mask, complete (bn256)", pairsOf: allPairs, build: func() []method {
		ps := groups.PairingSuites()[0]
		g2 := groups.ByName(ps.Name + ".G2")
		sch := bdn.NewSchemeOnG1(ps.Suite)
		var pubs []kyber.Point
		var sigs [][]byte
		for i := 0; i < 3; i++ {
			sk := alpha.ToScalar(g2.Scalar(), alpha.Rand(fmt.Sprint("c20-bdn", i), g2.Order), g2.Order)
			pubs = append(pubs, g2.Point().Mul(sk, nil))
			sg, _ := sch.Sign(sk, []byte("c20 bdn message"))
			sigs = append(sigs, sg)
		}
		m, _ := bdn.NewMask(g2.Group, pubs, nil)
		for i := 0; i < 3; i++ {
			_ = m.SetBit(i, true)
		}
		return []method{
			{"Clone", func() []byte { return m.Clone().Mask() }},
			{"CountEnabled", func() []byte { return []byte{byte(m.CountEnabled())} }},
			{"AggregatePublicKeys", func() []byte { p, _ := sch.AggregatePublicKeys(m); return fmod.Enc(p) }},
			{"Clone then AggregatePublicKeys(clone)", func() []byte { p, _ := sch.AggregatePublicKeys(m.Clone()); return fmod.Enc(p) }},
			{"AggregateSignatures", func() []byte { p, _ := sch.AggregateSignatures(sigs, m); return fmod.Enc(p) }},
			{"Clone then AggregateSignatures(clone)", func() []byte { p, _ := sch.AggregateSignatures(sigs, m.Clone()); return fmod.Enc(p) }},
		}
	}})
	out = append(out, scenario{name: "cosi.Mask (ed25519)", pairsOf: allPairs, build: func() []method {
		g := groups.ByName("ed25519")
		s := g.Group.(cosi.Suite)
		var pubs []kyber.Point
		for i := 0; i < 3; i++ {
			pubs = append(pubs, g.Point().Mul(alpha.ToScalar(g.Scalar(), alpha.Rand(fmt.Sprint("c20-cosi", i), g.Order), g.Order), nil))
		}
		m, _ := cosi.NewMask(s, pubs, nil)
		_ = m.SetBit(1, true)
		return []method{
			{"Mask", func() []byte { return m.Mask() }},
			{"CountEnabled", func() []byte { return []byte{byte(m.CountEnabled())} }},
			{"AggregatePublic.MarshalBinary", func() []byte { return fmod.Enc(m.AggregatePublic) }},
			{"KeyEnabled", func() []byte { e, _ := m.KeyEnabled(pubs[1]); return b2(e) }},
		}
	}})
	return out
}

func scenarios() []scenario {
	var out []scenario
	for _, g := range groups.All() {
		out = append(out, pointScenario(g, "sum"), pointScenario(g, "decoded"))
		if g.Kind != "GT" {
			out = append(out, pointScenario(g, "product"))
		}
		if g.Kind == "" || g.Kind == "G1" {
			out = append(out, scalarScenario(g))
		}
	}
	out = append(out, schemeScenarios()...)
	return append(out, moreScenarios()...)
}

var raceRe = regexp.MustCompile(`(?s)WARNING: DATA RACE.*?==================`)

// raceLog returns the race reports written since offset.
func raceLog(off *int64) string {
	path := os.Getenv("VERIF_RACE_LOG")
	if path == "" {
		return ""
	}
	b, err := os.ReadFile(fmt.Sprintf("%s.%d", path, os.Getpid()))
	if err != nil || int64(len(b)) <= *off {
		return ""
	}
	s := string(b[*off:])
	*off = int64(len(b))
	return s
}

// raceSite names the racing code: the outermost kyber frame (the API method called by the program) of the
// writing access, e.g. group/edwards25519vartime.(*projPoint).MarshalBinary.
func raceSite(report string) string {
	lines := strings.Split(report, "\n")
	pick := func(from int) string {
		site := ""
		for i := from + 1; i < len(lines); i++ {
			l := strings.TrimSpace(lines[i])
			if l == "" {
				break
			}
			if strings.HasPrefix(l, "go.dedis.ch/kyber/v4/") {
				fn := strings.TrimPrefix(l, "go.dedis.ch/kyber/v4/")
				if j := strings.LastIndexByte(fn, '('); j > 0 && strings.HasSuffix(fn, ")") {
					fn = fn[:j]
				}
				site = fn // keep the outermost
			}
		}
		return site
	}
	for i, l := range lines {
		t := strings.TrimSpace(l)
		if strings.HasPrefix(t, "Write at") || strings.HasPrefix(t, "Previous write at") {
			if s := pick(i); s != "" {
				return s
			}
		}
	}
	for i, l := range lines {
		if strings.Contains(l, " at 0x") {
			if s := pick(i); s != "" {
				return s
			}
		}
	}
	return "unknown"
}

func RunRace(c *vf.Check) []func() {
	var jobs []func()
	for _, sc := range scenarios() {
		sc := sc
		jobs = append(jobs, func() {
			pk := "C20/race/" + sc.name
			if os.Getenv("VERIF_DEBUG_TIMING") != "" {
				t0 := time.Now()
				defer func() {
					if fh, err := os.OpenFile(os.Getenv("VERIF_DEBUG_TIMING"), os.O_APPEND|os.O_CREATE|os.O_WRONLY, 0o644); err == nil {
						fmt.Fprintf(fh, "TIMING %6.1fs %s\n", time.Since(t0).Seconds(), sc.name)
						fh.Close()
					}
				}()
			}
			var ms []method
			okb := false
			c.Case(sc.name+": build", pk, func(x *vf.Ctx) { ms = sc.build(); okb = true })
			if !okb {
				return
			}
			var off int64
			raceLog(&off)
			for _, pr := range sc.pairsOf(ms) {
				pr := pr
				id := fmt.Sprintf("%s: %s || %s", sc.name, ms[pr[0]].name, ms[pr[1]].name)
				c.CaseOnce(id, pk, func(x *vf.Ctx) {
					// sequential reference on a fresh object
					ref := sc.build()
					w0, w1 := ref[pr[0]].run(), ref[pr[1]].run()
					// the two-thread program on another fresh object, no synchronisation between fork and join
					live := sc.build()
					raceLog(&off)
					var g0, g1 []byte
					var wg sync.WaitGroup
					wg.Add(2)
					go func() { defer wg.Done(); g0 = live[pr[0]].run() }()
					go func() { defer wg.Done(); g1 = live[pr[1]].run() }()
					wg.Wait()
					c.Eval(1)
					if rep := raceLog(&off); strings.Contains(rep, "DATA RACE") {
						first := raceRe.FindString(rep)
						if first == "" {
							first = rep
						}
						if len(first) > 3000 {
							first = first[:3000]
						}
						x.Fail("C20/race/"+strings.SplitN(sc.name, " (", 2)[0]+"/"+raceSite(first), fmt.Sprintf("data race between %s and %s on a shared %s", ms[pr[0]].name, ms[pr[1]].name, sc.name), first)
					}
					if w0 != nil && !bytes.Equal(g0, w0) || w1 != nil && !bytes.Equal(g1, w1) {
						x.Failf("C20/result/"+sc.name, "%s: concurrent results differ from the sequential ones", id)
					}
				})
				c.Count("transitions", 1)
				c.Count("states", 1)
				c.Nontrivial(id)
				c.Class("race/"+strings.SplitN(sc.name, " ", 2)[0], func() any { return id })
			}
		})
	}
	return jobs
}

// coldStart: the first arithmetic this process performs on each group is done by two goroutines at once, so that
// whatever a package builds lazily on first use (tables, cached constants) meets two first users. Runs in every worker
// process before anything else touches the groups.
func coldStart(c *vf.Check) {
	var off int64
	raceLog(&off)
	for _, g := range groups.All() {
		g := g
		id := "cold start: first arithmetic on " + g.Name + " by two goroutines"
		c.CaseOnce(id, "C20/race/cold start", func(x *vf.Ctx) {
			prog := func() []byte {
				k := g.Scalar().SetInt64(1234567)
				var P kyber.Point
				if g.MulNil {
					P = g.Point().Mul(k, nil)
				} else {
					P = g.Point().Mul(k, g.Gen())
				}
				Q := g.Point().Add(P, g.Point().Neg(P))
				Q = g.Point().Sub(Q, P)
				if hp, ok := g.Point().(kyber.HashablePoint); ok {
					Q = g.Point().Add(Q, hp.Hash([]byte("cold")))
				}
				if g.Pick {
					Q = g.Point().Add(Q, g.Point().Pick(alpha.Stream("c20-cold")))
				}
				return append(fmod.Enc(Q), []byte(P.String())...)
			}
			var r0, r1 []byte
			var wg sync.WaitGroup
			wg.Add(2)
			go func() { defer wg.Done(); r0 = prog() }()
			go func() { defer wg.Done(); r1 = prog() }()
			wg.Wait()
			c.Eval(1)
			if rep := raceLog(&off); strings.Contains(rep, "DATA RACE") {
				first := raceRe.FindString(rep)
				if first == "" {
					first = rep
				}
				if len(first) > 3000 {
					first = first[:3000]
				}
				x.Fail("C20/race/cold start/"+raceSite(first), "data race between the first two users of "+g.Name, first)
			}
			if !bytes.Equal(r0, r1) || !bytes.Equal(r0, prog()) {
				x.Failf("C20/result/cold start "+g.Name, "%s: the two first users and a later sequential run disagree", id)
			}
		})
		c.Count("transitions", 1)
		c.Nontrivial(id)
	}
}

func Run(c *vf.Check) {
	c.Level = "model_checking"
	coldStart(c)
	jobs := RunRace(c)
	vf.Parallel(len(jobs), func(i int) { jobs[i]() })
	raceOn := os.Getenv("VERIF_RACE_LOG") != ""
	if !raceOn {
		c.Broken("C20 must run in the binary built with -race (VERIF_RACE_LOG unset)")
	}
	c.Finish("engine R (this tier): every two-thread fork-join program m1(O) || m2(O) for every shared object O in {a non-normalised sum, a decoded point, a product, a scalar of each of the 20 groups; suites and their random streams; a public polynomial; Schnorr and BLS public keys of all 5 pairing suites; a BDN mask (partial and complete, also through clones taken by each thread) and a CoSi mask} and every unordered pair (m1,m2), incl. m1=m2, of the read-only method set {MarshalBinary, MarshalTo, String, MarshalSize, Equal (both sides and self), Clone, Data, EmbedLen, operand of Add/Sub/Neg/Mul/Set into a private receiver, Pair/ValidatePairing with the shared operand, Verify with the shared key, Eval/Check/Commit/Shares, stream draws, Mask.Clone/Mask/Participants/...} executed once on a fresh object in a binary built with the race detector (fork-join: the happens-before relation is schedule-independent, so one run decides the program); results compared with the sequential run on another fresh object. "+
		"non-trivial = every program; distinct by (object, m1, m2)",
		[]string{"Go's race detector (vector clocks, 4 shadow cells per word): limits are shadow-cell eviction, control flow depending on a racy read, and accesses made by assembly routines, which it does not instrument",
			"the same race in the same pair of call stacks is reported once per process by the detector; violations are keyed by the racing kyber function, not by the program"},
		nil)
}

// lockedReader is a goroutine-safe deterministic entropy source implemented in Go.
type lockedReader struct {
	mu   sync.Mutex
	seed byte
	n    byte
}

func (r *lockedReader) Read(p []byte) (int, error) {
	r.mu.Lock()
	defer r.mu.Unlock()
	for i := range p {
		r.n++
		p[i] = r.seed*31 + r.n
	}
	return len(p), nil
}
