package c20

// Further shared-object scenarios: verification of proofs, ring and EdDSA
// signatures with shared keys, threshold BLS with a shared public polynomial,
// ECIES with shared keys, a secret polynomial, pairing suites as factories.

import (
	"crypto/sha256"
	"fmt"

	"go.dedis.ch/kyber/v4"
	"go.dedis.ch/kyber/v4/encrypt/ecies"
	"go.dedis.ch/kyber/v4/group/edwards25519"
	"go.dedis.ch/kyber/v4/group/edwards25519vartime"
	"go.dedis.ch/kyber/v4/group/p256"
	"go.dedis.ch/kyber/v4/pairing/bls12381/circl"
	"go.dedis.ch/kyber/v4/pairing/bls12381/gnark"
	"go.dedis.ch/kyber/v4/pairing/bls12381/kilic"
	"go.dedis.ch/kyber/v4/pairing/bn254"
	"go.dedis.ch/kyber/v4/pairing/bn256"
	"math/big"
	"go.dedis.ch/kyber/v4/proof"
	"go.dedis.ch/kyber/v4/proof/dleq"
	"go.dedis.ch/kyber/v4/share"
	"go.dedis.ch/kyber/v4/sign/anon"
	"go.dedis.ch/kyber/v4/sign/eddsa"
	"go.dedis.ch/kyber/v4/sign/schnorr"
	"go.dedis.ch/kyber/v4/sign/tbls"
	"verif/harness/alpha"
	"verif/harness/fmod"
	"verif/harness/groups"
)

func sc(g *groups.G, label string) kyber.Scalar {
	return alpha.ToScalar(g.Scalar(), alpha.Rand("c20-"+label, g.Order), g.Order)
}

func moreScenarios() []scenario {
	var out []scenario
	// sigma-protocol proofs: shared predicate, shared public points (computed, i.e. non-normalised, forms), shared proof bytes
	for _, gn := range []string{"ed25519", "ed25519vartime", "p256"} {
		gn := gn
		out = append(out, scenario{name: "proof predicate + public points (" + gn + ")", pairsOf: allPairs, build: func() []method {
			g := groups.ByName(gn)
			s, ok := g.Group.(proof.Suite)
			if !ok {
				return nil
			}
			x, y := sc(g, "px"), sc(g, "py")
			B := g.Point().Base()
			H := g.Point().Add(g.Point().Mul(sc(g, "ph"), nil), g.Point().Null())
			X := g.Point().Add(g.Point().Mul(x, nil), g.Point().Null())
			Y := g.Point().Add(g.Point().Mul(y, H), g.Point().Null())
			Z := g.Point().Add(g.Point().Mul(x, H), g.Point().Null())
			pred := proof.Or(proof.And(proof.Rep("X", "x", "B"), proof.Rep("Z", "x", "H")), proof.Rep("Y", "y", "H"))
			pts := map[string]kyber.Point{"B": B, "H": H, "X": X, "Y": Y, "Z": Z}
			secs := map[string]kyber.Scalar{"x": x, "y": y}
			choice := map[proof.Predicate]int{pred: 0}
			prf, err := proof.HashProve(s, "c20", pred.Prover(s, secs, pts, choice))
			if err != nil {
				panic(err)
			}
			return []method{
				{"HashVerify", func() []byte { return b2(proof.HashVerify(s, "c20", pred.Verifier(s, pts), prf) == nil) }},
				{"HashVerify(other protocol)", func() []byte { return b2(proof.HashVerify(s, "c20x", pred.Verifier(s, pts), prf) == nil) }},
				{"Predicate.String", func() []byte { return []byte(pred.String()) }},
				{"HashProve", func() []byte {
					p2, err := proof.HashProve(s, "c20", pred.Prover(s, secs, pts, choice))
					return b2(err == nil && proof.HashVerify(s, "c20", pred.Verifier(s, pts), p2) == nil)
				}},
				{"MarshalBinary(X)", func() []byte { return fmod.Enc(X) }},
			}
		}})
	}
	// DLEQ proof with shared points
	for _, gn := range []string{"ed25519", "ed25519vartime", "p256"} {
		gn := gn
		out = append(out, scenario{name: "dleq proof (" + gn + ")", pairsOf: allPairs, build: func() []method {
			g := groups.ByName(gn)
			s, ok := g.Group.(dleq.Suite)
			if !ok {
				return nil
			}
			x := sc(g, "dx")
			G := g.Point().Base()
			H := g.Point().Add(g.Point().Mul(sc(g, "dh"), nil), g.Point().Null())
			p, xG, xH, err := dleq.NewDLEQProof(s, G, H, x)
			if err != nil {
				panic(err)
			}
			return []method{
				{"Verify", func() []byte { return b2(p.Verify(s, G, H, xG, xH) == nil) }},
				{"Verify(swapped)", func() []byte { return b2(p.Verify(s, H, G, xG, xH) == nil) }},
				{"MarshalBinary(xH)", func() []byte { return fmod.Enc(xH) }},
				{"operand xG", func() []byte { return fmod.Enc(g.Point().Add(xG, xH)) }},
			}
		}})
	}
	// Schnorr verification with a shared key on the groups with lazily normalised points
	for _, gn := range []string{"ed25519vartime", "p256", "bn256.G1", "ed25519-vt", "qr512"} {
		gn := gn
		out = append(out, scenario{name: "schnorr public key (" + gn + ")", pairsOf: allPairs, build: func() []method {
			g := groups.ByName(gn)
			if g == nil {
				return nil
			}
			s, ok := g.Group.(schnorr.Suite)
			if !ok {
				return nil
			}
			priv := sc(g, "schnorr2")
			pub := g.Point().Add(g.Point().Mul(priv, nil), g.Point().Null())
			msg := []byte("c20")
			sig, err := schnorr.Sign(s, priv, msg)
			if err != nil {
				panic(err)
			}
			return []method{
				{"Verify", func() []byte { return b2(schnorr.Verify(s, pub, msg, sig) == nil) }},
				{"Verify(other msg)", func() []byte { return b2(schnorr.Verify(s, pub, []byte("x"), sig) == nil) }},
				{"MarshalBinary(key)", func() []byte { return fmod.Enc(pub) }},
				{"String(key)", func() []byte { return []byte(pub.String()) }},
			}
		}})
	}
	// EdDSA verification with a shared public key
	out = append(out, scenario{name: "eddsa public key", pairsOf: allPairs, build: func() []method {
		e := eddsa.NewEdDSA(alpha.Stream("c20-eddsa"))
		msg := []byte("c20 eddsa")
		sig, err := e.Sign(msg)
		if err != nil {
			panic(err)
		}
		pub := e.Public
		pb, _ := pub.MarshalBinary()
		return []method{
			{"Verify", func() []byte { return b2(eddsa.Verify(pub, msg, sig) == nil) }},
			{"VerifyWithChecks", func() []byte { return b2(eddsa.VerifyWithChecks(pb, msg, sig) == nil) }},
			{"MarshalBinary(key)", func() []byte { return fmod.Enc(pub) }},
			{"EdDSA.MarshalBinary", func() []byte { b, _ := e.MarshalBinary(); return b }},
		}
	}})
	// ring signatures: shared anonymity set
	for _, gn := range []string{"ed25519", "p256"} {
		gn := gn
		out = append(out, scenario{name: "anon ring (" + gn + ")", pairsOf: allPairs, build: func() []method {
			g := groups.ByName(gn)
			s, ok := g.Group.(anon.Suite)
			if !ok {
				return nil
			}
			var ring anon.Set
			var privs []kyber.Scalar
			for i := 0; i < 3; i++ {
				k := sc(g, fmt.Sprint("ring", i))
				privs = append(privs, k)
				ring = append(ring, g.Point().Add(g.Point().Mul(k, nil), g.Point().Null()))
			}
			msg, scope := []byte("c20 ring"), []byte("scope")
			sig := anon.Sign(s, msg, ring, scope, 1, privs[1])
			return []method{
				{"Verify", func() []byte { t, err := anon.Verify(s, msg, ring, scope, sig); return append(t, b2(err == nil)...) }},
				{"Verify(other msg)", func() []byte { _, err := anon.Verify(s, []byte("x"), ring, scope, sig); return b2(err == nil) }},
				{"Sign(member 2)", func() []byte {
					s2 := anon.Sign(s, msg, ring, scope, 2, privs[2])
					_, err := anon.Verify(s, msg, ring, scope, s2)
					return b2(err == nil)
				}},
				{"MarshalBinary(member)", func() []byte { return fmod.Enc(ring[0]) }},
			}
		}})
	}
	// threshold BLS with a shared public polynomial
	out = append(out, scenario{name: "tbls public polynomial (bn256)", pairsOf: allPairs, build: func() []method {
		ps := groups.PairingSuites()[0]
		g2 := groups.ByName(ps.Name + ".G2")
		var cs []kyber.Scalar
		for i := 0; i < 2; i++ {
			cs = append(cs, sc(g2, fmt.Sprint("tbls", i)))
		}
		pri := share.CoefficientsToPriPoly(g2.Group, cs)
		pub := pri.Commit(g2.Point().Base())
		sch := tbls.NewThresholdSchemeOnG1(ps.Suite)
		msg := []byte("c20 tbls")
		var sigs [][]byte
		for _, sh := range pri.Shares(3) {
			sg, err := sch.Sign(sh, msg)
			if err != nil {
				panic(err)
			}
			sigs = append(sigs, sg)
		}
		return []method{
			{"VerifyPartial", func() []byte { return b2(sch.VerifyPartial(pub, msg, sigs[0]) == nil) }},
			{"Recover", func() []byte { r, _ := sch.Recover(pub, msg, sigs, 2, 3); return r }},
			{"VerifyRecovered", func() []byte {
				r, _ := sch.Recover(pub, msg, sigs[1:], 2, 3)
				return b2(sch.VerifyRecovered(pub.Commit(), msg, r) == nil)
			}},
			{"PubPoly.Eval", func() []byte { return fmod.Enc(pub.Eval(1).V) }},
		}
	}})
	// secret polynomial shared for reading
	out = append(out, scenario{name: "share.PriPoly (ed25519)", pairsOf: allPairs, build: func() []method {
		g := groups.ByName("ed25519")
		var cs []kyber.Scalar
		for i := 0; i < 3; i++ {
			cs = append(cs, sc(g, fmt.Sprint("pri", i)))
		}
		pri := share.CoefficientsToPriPoly(g.Group, cs)
		enc := func(s kyber.Scalar) []byte { b, _ := s.MarshalBinary(); return b }
		return []method{
			{"Eval", func() []byte { return enc(pri.Eval(2).V) }},
			{"Shares", func() []byte { return enc(pri.Shares(4)[3].V) }},
			{"Commit", func() []byte { return fmod.Enc(pri.Commit(nil).Commit()) }},
			{"Secret", func() []byte { return enc(pri.Secret()) }},
			{"Coefficients", func() []byte { return enc(pri.Coefficients()[1]) }},
			{"String", func() []byte { return []byte(pri.String()) }},
		}
	}})
	// share lists handed to the recovery functions by several goroutines (unsorted, complete)
	out = append(out, scenario{name: "share lists (ed25519)", pairsOf: allPairs, build: func() []method {
		g := groups.ByName("ed25519")
		var cs []kyber.Scalar
		for i := 0; i < 3; i++ {
			cs = append(cs, sc(g, fmt.Sprint("sl", i)))
		}
		pri := share.CoefficientsToPriPoly(g.Group, cs)
		pub := pri.Commit(nil)
		ps, qs := pri.Shares(5), pub.Shares(5)
		ps[0], ps[3], ps[1], ps[4] = ps[3], ps[0], ps[4], ps[1]
		qs[0], qs[3], qs[1], qs[4] = qs[3], qs[0], qs[4], qs[1]
		enc := func(s kyber.Scalar) []byte { b, _ := s.MarshalBinary(); return b }
		return []method{
			{"RecoverSecret", func() []byte { v, err := share.RecoverSecret(g.Group, ps, 3, 5); return append(enc(v), b2(err == nil)...) }},
			{"RecoverPriPoly", func() []byte {
				pp, err := share.RecoverPriPoly(g.Group, ps, 3, 5)
				if err != nil {
					return []byte("error")
				}
				return enc(pp.Secret())
			}},
			{"RecoverCommit", func() []byte { v, err := share.RecoverCommit(g.Group, qs, 3, 5); return append(fmod.Enc(v), b2(err == nil)...) }},
			{"RecoverPubPoly", func() []byte {
				pp, err := share.RecoverPubPoly(g.Group, qs, 3, 5)
				if err != nil {
					return []byte("error")
				}
				return fmod.Enc(pp.Commit())
			}},
			{"read first index", func() []byte { return []byte{byte(ps[0].I), byte(qs[0].I)} }},
		}
	}})
	// ECIES with a shared public / private key
	for _, gn := range []string{"ed25519", "p256", "ed25519vartime"} {
		gn := gn
		out = append(out, scenario{name: "ecies keys (" + gn + ")", pairsOf: allPairs, build: func() []method {
			g := groups.ByName(gn)
			if !g.Embed {
				return nil
			}
			priv := sc(g, "ecies")
			pub := g.Point().Add(g.Point().Mul(priv, nil), g.Point().Null())
			msg := []byte("c20 ecies message")
			ct, err := ecies.Encrypt(g.Group, pub, msg, sha256.New)
			if err != nil {
				return nil
			}
			return []method{
				{"Encrypt(shared public)", func() []byte {
					c2, err := ecies.Encrypt(g.Group, pub, msg, sha256.New)
					if err != nil {
						return []byte("error")
					}
					m2, err := ecies.Decrypt(g.Group, priv, c2, sha256.New)
					return append(m2, b2(err == nil)...)
				}},
				{"Decrypt(shared private, shared ciphertext)", func() []byte {
					m2, err := ecies.Decrypt(g.Group, priv, ct, sha256.New)
					return append(m2, b2(err == nil)...)
				}},
				{"MarshalBinary(public)", func() []byte { return fmod.Enc(pub) }},
			}
		}})
	}
	// pairing suites as shared factories
	for _, ps := range groups.PairingSuites() {
		ps := ps
		out = append(out, scenario{name: "pairing suite " + ps.Name, pairsOf: allPairs, build: func() []method {
			s := ps.Suite
			b1, b2p := s.G1().Point().Base(), s.G2().Point().Base()
			return []method{
				{"G1().Point().Base()", func() []byte { return fmod.Enc(s.G1().Point().Base()) }},
				{"G2().Point().Base()", func() []byte { return fmod.Enc(s.G2().Point().Base()) }},
				{"GT().Point().Null()", func() []byte { return fmod.Enc(s.GT().Point().Null()) }},
				{"Pair(B1,B2)", func() []byte { return fmod.Enc(s.Pair(b1, b2p)) }},
				{"G1().Scalar().One()", func() []byte { b, _ := s.G1().Scalar().One().MarshalBinary(); return b }},
				{"String", func() []byte { return []byte(s.G1().String() + s.G2().String() + s.GT().String()) }},
			}
		}})
	}
	// a scalar decoded from a non-reduced encoding (the Ed25519 decoder accepts any 32 bytes)
	for _, gn := range []string{"ed25519", "ed25519-vt"} {
		gn := gn
		out = append(out, scenario{name: gn + " scalar (decoded from l+5)", pairsOf: allPairs, build: func() []method {
			g := groups.ByName(gn)
			if g == nil {
				return nil
			}
			v := new(big.Int).Add(g.Order, big.NewInt(5))
			be := v.FillBytes(make([]byte, 32))
			le := make([]byte, 32)
			for i := range be {
				le[31-i] = be[i]
			}
			a := g.Scalar()
			if err := a.UnmarshalBinary(le); err != nil {
				return nil
			}
			o := sc(g, "unred-o")
			P := g.Point().Base()
			enc := func(s kyber.Scalar) []byte { b, _ := s.MarshalBinary(); return b }
			return []method{
				{"MarshalBinary", func() []byte { return enc(a) }},
				{"String", func() []byte { return []byte(a.String()) }},
				{"Equal", func() []byte { return b2(a.Equal(o)) }},
				{"Clone", func() []byte { return enc(a.Clone()) }},
				{"operand of Add", func() []byte { return enc(g.Scalar().Add(a, o)) }},
				{"operand of Mul", func() []byte { return enc(g.Scalar().Mul(o, a)) }},
				{"Point.Mul(s,P)", func() []byte { return fmod.Enc(g.Point().Mul(a, P)) }},
			}
		}})
	}
	// first use of a freshly constructed suite: whatever a suite object builds lazily must tolerate two first users
	type mkSuite struct {
		name string
		mk   func() []kyber.Group
	}
	fresh := []mkSuite{
		{"ed25519", func() []kyber.Group { return []kyber.Group{edwards25519.NewBlakeSHA256Ed25519()} }},
		{"ed25519vartime", func() []kyber.Group { return []kyber.Group{edwards25519vartime.NewBlakeSHA256Ed25519(false)} }},
		{"p256", func() []kyber.Group { return []kyber.Group{p256.NewBlakeSHA256P256()} }},
		{"qr512", func() []kyber.Group { return []kyber.Group{p256.NewBlakeSHA256QR512()} }},
		{"bn256", func() []kyber.Group { s := bn256.NewSuite(); return []kyber.Group{s.G1(), s.G2(), s.GT()} }},
		{"bn254", func() []kyber.Group { s := bn254.NewSuite(); return []kyber.Group{s.G1(), s.G2(), s.GT()} }},
		{"kilic", func() []kyber.Group { s := kilic.NewBLS12381Suite(); return []kyber.Group{s.G1(), s.G2(), s.GT()} }},
		{"circl", func() []kyber.Group { s := circl.NewSuite(); return []kyber.Group{s.G1(), s.G2(), s.GT()} }},
		{"gnark", func() []kyber.Group { s := gnark.NewSuite(); return []kyber.Group{s.G1(), s.G2(), s.GT()} }},
	}
	for _, fs := range fresh {
		fs := fs
		out = append(out, scenario{name: "freshly constructed suite " + fs.name, pairsOf: allPairs, build: func() []method {
			gs := fs.mk()
			g := gs[0]
			k := g.Scalar().SetInt64(77)
			B := g.Point().Null() // no arithmetic before the fork
			ms := []method{
				{"Neg", func() []byte { return fmod.Enc(g.Point().Neg(B)) }},
				{"Sub", func() []byte { return fmod.Enc(g.Point().Sub(B, B)) }},
				{"Add", func() []byte { return fmod.Enc(g.Point().Add(B, B)) }},
				{"Mul(k,nil)", func() []byte { return fmod.Enc(g.Point().Mul(k, nil)) }},
				{"Base", func() []byte { return fmod.Enc(g.Point().Base()) }},
				{"Scalar ops", func() []byte { b, _ := g.Scalar().Neg(g.Scalar().One()).MarshalBinary(); return b }},
				{"Pick", func() []byte { return fmod.Enc(g.Point().Pick(alpha.Stream("c20-fresh-pick"))) }},
			}
			if hp, ok := g.Point().(kyber.HashablePoint); ok {
				_ = hp
				ms = append(ms, method{"Hash", func() []byte { return fmod.Enc(g.Point().(kyber.HashablePoint).Hash([]byte("c20 fresh"))) }})
			}
			if len(gs) > 1 {
				g2 := gs[1]
				ms = append(ms, method{"G2 Neg", func() []byte { return fmod.Enc(g2.Point().Neg(g2.Point().Null())) }},
					method{"G2 Mul(k,nil)", func() []byte { return fmod.Enc(g2.Point().Mul(g2.Scalar().SetInt64(5), nil)) }})
			}
			return ms
		}})
	}
	// suites with a caller-supplied domain-separation tag of an odd length: concurrent hash-to-group
	dst := []byte("VERIF-C20-DOMAIN-SEPARATION-TAG-OF-43-BYTES")
	out = append(out, scenario{name: "bn254 suite with custom DST", pairsOf: allPairs, build: func() []method {
		s := bn254.NewSuite()
		s.SetDomainG1(append([]byte{}, dst...))
		s.SetDomainG2(append([]byte{}, dst...))
		h := func(g kyber.Group, m string) func() []byte {
			return func() []byte {
				hp, ok := g.Point().(kyber.HashablePoint)
				if !ok {
					return nil
				}
				return fmod.Enc(hp.Hash([]byte(m)))
			}
		}
		return []method{{"G1 Hash(a)", h(s.G1(), "a")}, {"G1 Hash(b)", h(s.G1(), "b")}, {"G2 Hash(a)", h(s.G2(), "a")}}
	}})
	out = append(out, scenario{name: "kilic suite with custom DST", pairsOf: allPairs, build: func() []method {
		s := kilic.NewBLS12381SuiteWithDST(append([]byte{}, dst...), append([]byte{}, dst...))
		h := func(g kyber.Group, m string) func() []byte {
			return func() []byte {
				hp, ok := g.Point().(kyber.HashablePoint)
				if !ok {
					return nil
				}
				return fmod.Enc(hp.Hash([]byte(m)))
			}
		}
		return []method{{"G1 Hash(a)", h(s.G1(), "a")}, {"G1 Hash(b)", h(s.G1(), "b")}, {"G2 Hash(a)", h(s.G2(), "a")}, {"G2 Hash(b)", h(s.G2(), "b")}}
	}})
	return out
}
