// Package c06: pairings are bilinear, non-degenerate and consistent with
// ValidatePairing. Model: G1 and G2 values are coefficient vectors over
// independent generators; e(P,Q) is the bilinear form sum p_i q_j E_ij with
// E_ij = e(gen1_i, gen2_j) computed once; the GT value of a coefficient matrix
// is recomputed with GT.Add only.
package c06

import (
	"bytes"
	"fmt"
	"math/big"

	"go.dedis.ch/kyber/v4"
	"verif/harness/alpha"
	"verif/harness/fmod"
	"verif/harness/groups"
	"verif/harness/vf"
)

type mat [][]*big.Int

func (m mat) key() string {
	s := ""
	for _, r := range m {
		for _, c := range r {
			s += c.Text(62) + ","
		}
	}
	return s
}

type suiteModel struct {
	ps     groups.PS
	g1, g2 *groups.G
	gt     *groups.G
	m1, m2 *fmod.Model
	q      *big.Int
	tab    [][][]kyber.Point // tab[i][j][bit] = 2^bit * E_ij
	cache  map[string]kyber.Point
}

func (s *suiteModel) form(p, q fmod.Vec) mat {
	m := make(mat, len(p))
	for i := range p {
		m[i] = make([]*big.Int, len(q))
		for j := range q {
			m[i][j] = new(big.Int).Mul(p[i], q[j])
			m[i][j].Mod(m[i][j], s.q)
		}
	}
	return m
}

func (s *suiteModel) scale(m mat, k *big.Int) mat {
	o := make(mat, len(m))
	for i := range m {
		o[i] = make([]*big.Int, len(m[i]))
		for j := range m[i] {
			o[i][j] = new(big.Int).Mul(m[i][j], k)
			o[i][j].Mod(o[i][j], s.q)
		}
	}
	return o
}

func (s *suiteModel) canon(m mat) kyber.Point {
	k := m.key()
	if p, ok := s.cache[k]; ok {
		return p
	}
	acc := s.gt.Group.Point().Null()
	for i := range m {
		for j := range m[i] {
			c := m[i][j]
			for b := 0; b < c.BitLen(); b++ {
				if c.Bit(b) == 1 {
					acc = s.gt.Group.Point().Add(acc, s.tab[i][j][b])
				}
			}
		}
	}
	s.cache[k] = acc
	return acc
}

func build(ps groups.PS) *suiteModel {
	s := &suiteModel{ps: ps, cache: map[string]kyber.Point{}}
	s.g1, s.g2, s.gt = groups.ByName(ps.Name+".G1"), groups.ByName(ps.Name+".G2"), groups.ByName(ps.Name+".GT")
	s.q = s.g1.Order
	s.m1, s.m2 = fmod.New(s.g1), fmod.New(s.g2)
	nb := s.q.BitLen()
	for i := range s.m1.Gens {
		var row [][]kyber.Point
		for j := range s.m2.Gens {
			t := make([]kyber.Point, nb)
			t[0] = ps.Suite.Pair(s.m1.Gens[i], s.m2.Gens[j])
			for b := 1; b < nb; b++ {
				t[b] = s.gt.Group.Point().Add(t[b-1], t[b-1])
			}
			row = append(row, t)
		}
		s.tab = append(s.tab, row)
	}
	return s
}

func values(m *fmod.Model, thorough bool) []fmod.V {
	lvl, maxR := 0, 18
	if thorough {
		lvl, maxR = 1, 40
	}
	S := alpha.Scalars(m.Q, lvl)
	if !thorough {
		S = S[:6]
	}
	R := m.Closure(S, maxR)
	// clones of an affine and of a projective value, and a negated generator
	R = append(R, fmod.V{Name: "Clone(B)", P: m.Gens[0].Clone(), Vec: m.Unit(0)})
	dec := m.Decoded(m.Gen(len(m.Gens) - 1))
	R = append(R, fmod.V{Name: "Clone(" + dec.Name + ")", P: dec.P.Clone(), Vec: dec.Vec})
	sum := m.Add(m.Gen(0), m.Gen(len(m.Gens)-1))
	R = append(R, fmod.V{Name: "Clone(" + sum.Name + ")", P: sum.P.Clone(), Vec: sum.Vec})
	R = append(R, m.Neg(m.Gen(0)), m.Neg(sum), m.Neg(dec))
	return R
}

func Run(c *vf.Check) {
	c.Level = "model_checking"
	pss := groups.PairingSuites()
	type job struct {
		s    int
		part int
	}
	models := make([]*suiteModel, len(pss))
	r1s := make([][]fmod.V, len(pss))
	r2s := make([][]fmod.V, len(pss))
	for i, ps := range pss {
		i, ps := i, ps
		c.Case(ps.Name+": model setup", "C06/"+ps.Name+"/setup", func(x *vf.Ctx) {
			models[i] = build(ps)
			r1s[i] = values(models[i].m1, c.Thorough())
			r2s[i] = values(models[i].m2, c.Thorough())
		})
	}
	var jobs []job
	const parts = 8
	for i := range pss {
		if models[i] == nil || r1s[i] == nil {
			continue
		}
		for p := 0; p < parts; p++ {
			jobs = append(jobs, job{i, p})
		}
	}
	vf.Parallel(len(jobs), func(k int) {
		j := jobs[k]
		runSuite(c, models[j.s], r1s[j.s], r2s[j.s], j.part, parts)
	})
	c.Finish("engine E: per suite, G1 value set R1 and G2 value set R2 (identity, generators, Pick/Hash points, decoded/affine forms, projective sums, negations, clones, boundary multiples); every pair (P,Q) in R1xR2: Pair(P,Q) = model bilinear form (GT recomputed with GT.Add only), twice on the same objects; "+
		"e(aP,bQ) = (ab)*e(P,Q) through GT.Mul for all a,b in {0,1,2,q-1,r1,r2} on a reduced point set; Pair(B1,B2) != 1; ValidatePairing(p1,p2,i1,i2) == [model form(p1,p2) = form(i1,i2)] for all quadruples of reduced sets (6x6x6x6), evaluated twice and with aliased arguments. "+
		"An operand object of either group updated in place between two Pair calls (x.Add(x,r), x.Sub(r,x), x.Neg(x), x.Mul(3,x), x.Set(r), x.Null() on 5x5 operand pairs): the second call gives the pairing of the new value, ValidatePairing agrees with freshly decoded copies. Additivity over ALL pairs of each value set against the model, and over all pairs of six internal forms of one element (as made, (v+v)-v, -(-v), decoded, 3v-2v, clone): sums pair to 2e, differences to the identity; the mid-size boundary scalar alphabet (limb, word, window boundaries) in each argument separately. "+
		"non-trivial = neither argument is the identity; distinct by (suite, expressions)",
		[]string{"generators from Pick/Hash have no known discrete-log relation", "GT.Add is the recomputation primitive (C01 checks GT group laws)"}, nil)
}

func runSuite(c *vf.Check, s *suiteModel, R1, R2 []fmod.V, part, parts int) {
	pk := "C06/" + s.ps.Name
	suite := s.ps.Suite
	idx := 0
	mine := func() bool { idx++; return idx%parts == part }
	// 1. all pairs vs model
	for _, p := range R1 {
		for _, q := range R2 {
			if !mine() {
				continue
			}
			p, q := p, q
			id := fmt.Sprintf("%s: Pair(%s, %s)", s.ps.Name, p.Name, q.Name)
			c.Case(id, pk+"/Pair", func(x *vf.Ctx) {
				want := s.canon(s.form(p.Vec, q.Vec))
				for rep := 0; rep < 2; rep++ {
					got := suite.Pair(p.P, q.P)
					c.Eval(1)
					if !got.Equal(want) || !want.Equal(got) {
						x.Failf(pk+"/Pair", "%s (call %d) differs from the bilinear model", id, rep+1)
						return
					}
					if !bytes.Equal(fmod.Enc(got), fmod.Enc(want)) {
						x.Failf(pk+"/Pair-encoding", "%s Equal to the model value but encoded differently", id)
						return
					}
				}
				// a pairing result is a value of its own: updating one in place (an accumulator) changes neither the next
				// result of the same call nor the operands
				acc := suite.Pair(p.P, q.P)
				pe, qe := fmod.Enc(p.P), fmod.Enc(q.P)
				acc.Add(acc, s.gt.Gen())
				acc.Add(s.gt.Gen(), acc)
				acc.Neg(acc)
				next := suite.Pair(p.P, q.P)
				c.Eval(1)
				if !next.Equal(want) || !bytes.Equal(fmod.Enc(next), fmod.Enc(want)) {
					x.Failf(pk+"/Pair-result-shared", "%s: after an earlier result of the same call was updated in place, Pair returns another value", id)
					return
				}
				if !bytes.Equal(fmod.Enc(p.P), pe) || !bytes.Equal(fmod.Enc(q.P), qe) {
					x.Failf(pk+"/Pair-changes-operand", "%s: an operand changed", id)
				}
				// e + e accumulated in either operand position equals 2e
				two := s.gt.Group.Point().Add(want, want)
				a1 := suite.Pair(p.P, q.P)
				a1.Add(a1, want)
				a2 := suite.Pair(p.P, q.P)
				a2.Add(want, a2)
				a3 := suite.Pair(p.P, q.P)
				a3.Add(a3, a3)
				if !a1.Equal(two) || !a2.Equal(two) || !a3.Equal(two) {
					x.Failf(pk+"/GT-accumulate", "%s: accumulating the pairing value in place (r.Add(r,e), r.Add(e,r), r.Add(r,r)) does not give 2e", id)
				}
			})
			c.Count("transitions", 1)
			if !p.Vec.IsZero() && !q.Vec.IsZero() {
				c.Nontrivial(id)
			}
			c.Class(s.ps.Name+"/Pair", func() any { return id })
		}
	}
	// 2. explicit bilinearity with scalars through the API
	S := alpha.Scalars(s.q, 0)[:6]
	P1 := pick(R1, 5)
	P2 := pick(R2, 5)
	for _, a := range S {
		for _, b := range S {
			for _, p := range P1 {
				for _, q := range P2 {
					if !mine() {
						continue
					}
					a, b, p, q := a, b, p, q
					id := fmt.Sprintf("%s: e(%s*%s, %s*%s)", s.ps.Name, a.Name, p.Name, b.Name, q.Name)
					c.Case(id, pk+"/bilinear", func(x *vf.Ctx) {
						ap := s.m1.Mul(a, p)
						bq := s.m2.Mul(b, q)
						lhs := suite.Pair(ap.P, bq.P)
						ab := s.gt.Group.Scalar().Mul(alpha.ToScalar(s.gt.Group.Scalar(), a.V, s.q), alpha.ToScalar(s.gt.Group.Scalar(), b.V, s.q))
						rhs := s.gt.Group.Point().Mul(ab, suite.Pair(p.P, q.P))
						c.Eval(1)
						if !lhs.Equal(rhs) {
							x.Failf(pk+"/bilinear", "%s != (%s*%s)*e(P,Q)", id, a.Name, b.Name)
						}
						if !lhs.Equal(s.canon(s.scale(s.form(p.Vec, q.Vec), new(big.Int).Mul(a.V, b.V)))) {
							x.Failf(pk+"/bilinear-model", "%s differs from the model", id)
						}
						// additivity in each argument
						sum1 := suite.Pair(s.m1.Add(ap, p).P, q.P)
						if !sum1.Equal(s.gt.Group.Point().Add(suite.Pair(ap.P, q.P), suite.Pair(p.P, q.P))) {
							x.Failf(pk+"/additive-1", "e(%s+%s, %s) != e(.,Q)+e(.,Q)", ap.Name, p.Name, q.Name)
						}
						sum2 := suite.Pair(p.P, s.m2.Add(bq, q).P)
						if !sum2.Equal(s.gt.Group.Point().Add(suite.Pair(p.P, bq.P), suite.Pair(p.P, q.P))) {
							x.Failf(pk+"/additive-2", "e(%s, %s+%s) != e(P,.)+e(P,.)", p.Name, bq.Name, q.Name)
						}
					})
					c.Count("transitions", 1)
					if !p.Vec.IsZero() && !q.Vec.IsZero() && a.V.Sign() != 0 && b.V.Sign() != 0 {
						c.Nontrivial(id)
					}
				}
			}
		}
	}
	// 3. non-degeneracy
	if part == 0 {
		c.Case(s.ps.Name+": e(B1,B2) != 1", pk+"/nondegenerate", func(x *vf.Ctx) {
			e := suite.Pair(s.g1.Point().Base(), s.g2.Point().Base())
			c.Eval(1)
			if e.Equal(s.gt.Group.Point().Null()) {
				x.Failf(pk+"/nondegenerate", "pairing of the generators is the identity")
			}
		})
	}
	// 4. ValidatePairing against the model on all quadruples of reduced sets
	V1 := pick(R1, 6)
	V2 := pick(R2, 6)
	for _, p1 := range V1 {
		for _, p2 := range V2 {
			for _, i1 := range V1 {
				for _, i2 := range V2 {
					if !mine() {
						continue
					}
					p1, p2, i1, i2 := p1, p2, i1, i2
					id := fmt.Sprintf("%s: ValidatePairing(%s, %s, %s, %s)", s.ps.Name, p1.Name, p2.Name, i1.Name, i2.Name)
					want := s.form(p1.Vec, p2.Vec).key() == s.form(i1.Vec, i2.Vec).key()
					c.Case(id, pk+"/ValidatePairing", func(x *vf.Ctx) {
						for rep := 0; rep < 2; rep++ {
							got := suite.ValidatePairing(p1.P, p2.P, i1.P, i2.P)
							c.Eval(1)
							if got != want {
								x.Failf(pk+"/ValidatePairing", "%s = %v (call %d), model says %v", id, got, rep+1, want)
								return
							}
						}
						// and it agrees with the two pairings computed afterwards on the same objects
						if suite.Pair(p1.P, p2.P).Equal(suite.Pair(i1.P, i2.P)) != want {
							x.Failf(pk+"/ValidatePairing-vs-Pair", "%s: Pair(p1,p2)==Pair(i1,i2) is %v after the calls, model says %v", id, !want, want)
						}
					})
					c.Count("transitions", 1)
					c.Class(fmt.Sprintf("%s/ValidatePairing/%v", s.ps.Name, want), func() any { return id })
					if !p1.Vec.IsZero() && !p2.Vec.IsZero() && !i1.Vec.IsZero() && !i2.Vec.IsZero() {
						c.Nontrivial(id)
					}
				}
			}
		}
	}
	// 5. an operand object updated in place between two Pair calls: the second call sees the new value (and
	// ValidatePairing agrees with a freshly decoded copy of the new value)
	type upd struct {
		name string
		f    func(m *fmod.Model, o kyber.Point, v fmod.Vec, r fmod.V) fmod.Vec
	}
	upds := []upd{
		{"x.Add(x,r)", func(m *fmod.Model, o kyber.Point, v fmod.Vec, r fmod.V) fmod.Vec { o.Add(o, r.P); return m.VAdd(v, r.Vec) }},
		{"x.Sub(r,x)", func(m *fmod.Model, o kyber.Point, v fmod.Vec, r fmod.V) fmod.Vec { o.Sub(r.P, o); return m.VSub(r.Vec, v) }},
		{"x.Neg(x)", func(m *fmod.Model, o kyber.Point, v fmod.Vec, r fmod.V) fmod.Vec { o.Neg(o); return m.VNeg(v) }},
		{"x.Mul(3,x)", func(m *fmod.Model, o kyber.Point, v fmod.Vec, r fmod.V) fmod.Vec {
			o.Mul(m.Sc(big.NewInt(3)), o)
			return m.VMul(big.NewInt(3), v)
		}},
		{"x.Set(r)", func(m *fmod.Model, o kyber.Point, v fmod.Vec, r fmod.V) fmod.Vec { o.Set(r.P); return r.Vec }},
		{"x.Null()", func(m *fmod.Model, o kyber.Point, v fmod.Vec, r fmod.V) fmod.Vec { o.Null(); return m.Zero() }},
	}
	for side := 0; side < 2; side++ {
		for _, p := range P1 {
			for _, q := range P2 {
				for _, u := range upds {
					if !mine() {
						continue
					}
					side, p, q, u := side, p, q, u
					id := fmt.Sprintf("%s: Pair(%s, %s); G%d operand %s; Pair again", s.ps.Name, p.Name, q.Name, side+1, u.name)
					c.Case(id, pk+"/Pair-after-update", func(x *vf.Ctx) {
						po, qo := p.P.Clone(), q.P.Clone()
						pv, qv := p.Vec, q.Vec
						first := suite.Pair(po, qo)
						if !first.Equal(s.canon(s.form(pv, qv))) {
							x.Failf(pk+"/Pair", "%s: first call differs from the model", id)
							return
						}
						if side == 0 {
							pv = u.f(s.m1, po, pv, R1[len(R1)-1])
						} else {
							qv = u.f(s.m2, qo, qv, R2[len(R2)-1])
						}
						want := s.canon(s.form(pv, qv))
						for rep := 0; rep < 2; rep++ {
							got := suite.Pair(po, qo)
							c.Eval(1)
							if !got.Equal(want) || !bytes.Equal(fmod.Enc(got), fmod.Enc(want)) {
								x.Failf(pk+"/Pair-after-update", "%s: the pairing of the updated object (call %d) is not the pairing of its new value", id, rep+1)
								return
							}
						}
						pf, qf := s.g1.Point(), s.g2.Point()
						if pf.UnmarshalBinary(fmod.Enc(po)) != nil || qf.UnmarshalBinary(fmod.Enc(qo)) != nil {
							x.Failf(pk+"/Pair-after-update", "%s: the updated operand does not decode", id)
							return
						}
						if !suite.ValidatePairing(po, qo, pf, qf) || !suite.ValidatePairing(pf, qf, po, qo) {
							x.Failf(pk+"/ValidatePairing", "%s: ValidatePairing(updated objects, freshly decoded copies) is false", id)
						}
					})
					c.Count("transitions", 1)
					c.Nontrivial(id)
				}
			}
		}
	}
	// 6. additivity over the whole value sets - including pairs that hold the same element in different internal forms
	Q1, Q2 := pick(R2, 2), pick(R1, 2)
	for _, a := range R1 {
		for _, b := range R1 {
			if !mine() {
				continue
			}
			a, b := a, b
			id := fmt.Sprintf("%s: e(%s + %s, Q)", s.ps.Name, a.Name, b.Name)
			c.Case(id, pk+"/additive-1", func(x *vf.Ctx) {
				sum := s.g1.Point().Add(a.P, b.P)
				for _, q := range Q1 {
					c.Eval(1)
					if !suite.Pair(sum, q.P).Equal(s.canon(s.form(s.m1.VAdd(a.Vec, b.Vec), q.Vec))) {
						x.Failf(pk+"/additive-1", "%s with Q=%s is not e(.,Q)+e(.,Q) of the model", id, q.Name)
						return
					}
				}
			})
			c.Count("transitions", 1)
			if a.Vec.Eq(b.Vec) && a.Name != b.Name {
				c.Nontrivial(id)
			}
		}
	}
	for _, a := range R2 {
		for _, b := range R2 {
			if !mine() {
				continue
			}
			a, b := a, b
			id := fmt.Sprintf("%s: e(P, %s + %s)", s.ps.Name, a.Name, b.Name)
			c.Case(id, pk+"/additive-2", func(x *vf.Ctx) {
				sum := s.g2.Point().Add(a.P, b.P)
				for _, q := range Q2 {
					c.Eval(1)
					if !suite.Pair(q.P, sum).Equal(s.canon(s.form(q.Vec, s.m2.VAdd(a.Vec, b.Vec)))) {
						x.Failf(pk+"/additive-2", "%s with P=%s is not e(P,.)+e(P,.) of the model", id, q.Name)
						return
					}
				}
			})
			c.Count("transitions", 1)
			if a.Vec.Eq(b.Vec) && a.Name != b.Name {
				c.Nontrivial(id)
			}
		}
	}
	// 6b. the same element held in different internal forms (as made, (v+v)-v, -(-v), decoded, 3v-2v, a clone): every
	// pair of forms added together pairs to 2*e(v,Q), every difference to the identity - in both groups
	formsOf := func(m *fmod.Model, g *groups.G, v fmod.V) []fmod.V {
		dbl := g.Point().Add(v.P, v.P)
		f1 := g.Point().Sub(dbl, v.P)
		f2 := g.Point().Neg(g.Point().Neg(v.P))
		f3 := g.Point()
		_ = f3.UnmarshalBinary(fmod.Enc(v.P))
		three := g.Point().Mul(m.Sc(big.NewInt(3)), v.P)
		f4 := g.Point().Sub(three, dbl)
		return []fmod.V{v, {Name: "(" + v.Name + "+" + v.Name + ")-" + v.Name, P: f1, Vec: v.Vec}, {Name: "-(-" + v.Name + ")", P: f2, Vec: v.Vec},
			{Name: "decoded " + v.Name, P: f3, Vec: v.Vec}, {Name: "3" + v.Name + "-2" + v.Name, P: f4, Vec: v.Vec}, {Name: "Clone(" + v.Name + ")", P: v.P.Clone(), Vec: v.Vec}}
	}
	for side := 0; side < 2; side++ {
		m, g, set, other := s.m1, s.g1, P1, pick(R2, 2)
		if side == 1 {
			m, g, set, other = s.m2, s.g2, P2, pick(R1, 2)
		}
		for _, v := range set {
			if !mine() {
				continue
			}
			side, m, g, v, other := side, m, g, v, other
			id := fmt.Sprintf("%s: forms of %s in G%d added and subtracted pairwise", s.ps.Name, v.Name, side+1)
			c.Case(id, pk+"/additive-forms", func(x *vf.Ctx) {
				fs := formsOf(m, g, v)
				for _, a := range fs {
					for _, b := range fs {
						sum, diff := g.Point().Add(a.P, b.P), g.Point().Sub(a.P, b.P)
						for _, o := range other {
							var es, ed, want kyber.Point
							if side == 0 {
								es, ed, want = suite.Pair(sum, o.P), suite.Pair(diff, o.P), s.canon(s.scale(s.form(v.Vec, o.Vec), big.NewInt(2)))
							} else {
								es, ed, want = suite.Pair(o.P, sum), suite.Pair(o.P, diff), s.canon(s.scale(s.form(o.Vec, v.Vec), big.NewInt(2)))
							}
							c.Eval(2)
							if !es.Equal(want) {
								x.Failf(pk+"/additive-forms", "%s: e(%s + %s, %s) is not 2e(v,Q)", id, a.Name, b.Name, o.Name)
								return
							}
							if !ed.Equal(s.gt.Group.Point().Null()) {
								x.Failf(pk+"/additive-forms", "%s: e(%s - %s, %s) is not the identity", id, a.Name, b.Name, o.Name)
								return
							}
						}
					}
				}
			})
			c.Count("transitions", 1)
			if !v.Vec.IsZero() {
				c.Nontrivial(id)
			}
		}
	}
	// 7. the wider boundary-scalar alphabet (limb, word and window boundaries) in one argument at a time
	SW := alpha.Scalars(s.q, 1)
	for _, a := range SW {
		if !mine() {
			continue
		}
		a := a
		id := fmt.Sprintf("%s: e(%s*P, Q) and e(P, %s*Q)", s.ps.Name, a.Name, a.Name)
		c.Case(id, pk+"/bilinear", func(x *vf.Ctx) {
			p, q := s.m1.Gen(len(s.m1.Gens)-1), s.m2.Gen(len(s.m2.Gens)-1)
			want := s.canon(s.scale(s.form(p.Vec, q.Vec), a.V))
			c.Eval(2)
			if !suite.Pair(s.m1.Mul(a, p).P, q.P).Equal(want) {
				x.Failf(pk+"/bilinear", "%s: e(aP,Q) differs from a*e(P,Q) of the model", id)
			}
			if !suite.Pair(p.P, s.m2.Mul(a, q).P).Equal(want) {
				x.Failf(pk+"/bilinear", "%s: e(P,aQ) differs from a*e(P,Q) of the model", id)
			}
			ak := alpha.ToScalar(s.gt.Group.Scalar(), a.V, s.q)
			if !s.gt.Group.Point().Mul(ak, suite.Pair(p.P, q.P)).Equal(want) {
				x.Failf(pk+"/bilinear", "%s: a*e(P,Q) through GT.Mul differs from the model", id)
			}
		})
		c.Count("transitions", 1)
		c.Nontrivial(id)
	}
	c.Count("states", int64(len(R1)+len(R2)))
	c.Count("traces_validated_against_impl", int64(idx/parts))
}

// pick returns a reduced set that always contains O, B, -B, 2B-like multiples and a second generator.
func pick(R []fmod.V, n int) []fmod.V {
	var out []fmod.V
	seen := map[string]bool{}
	add := func(v fmod.V) {
		if len(out) < n && !seen[v.Name] {
			seen[v.Name] = true
			out = append(out, v)
		}
	}
	for _, v := range R {
		switch v.Name {
		case "O", "B", "g1", "Neg(B)", "Add(B,B)", "Clone(B)":
			add(v)
		}
	}
	for _, v := range R {
		add(v)
	}
	return out
}
