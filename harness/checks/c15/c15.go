// Package c15: verifiable shuffles verify only re-encryption permutations of
// the input. The harness knows every discrete logarithm, so "is the claimed
// output a permutation of re-encryptions of the input" is decided exactly by
// brute force over permutations in Z_q.
package c15

import (
	"bytes"
	"crypto/cipher"
	"fmt"
	"math/big"

	"go.dedis.ch/kyber/v4"
	"go.dedis.ch/kyber/v4/group/edwards25519"
	"go.dedis.ch/kyber/v4/group/p256"
	"go.dedis.ch/kyber/v4/proof"
	"go.dedis.ch/kyber/v4/shuffle"
	"verif/harness/alpha"
	"verif/harness/groups"
	"verif/harness/vf"
)

type world struct {
	gn   string
	s    shuffle.Suite
	q    *big.Int
	h    *big.Int // H = h*B
	g    *big.Int // G = g*B (1: the standard base point)
	G, H kyber.Point
}

// fixedRand makes the prover randomness a fixed tape: every RandomStream() call
// returns a fresh stream from the same seed (the default suites draw from
// crypto/rand, so a re-run of a case would otherwise see another proof).
type fixedRand struct{ shuffle.Suite }

func (f fixedRand) RandomStream() cipher.Stream { return alpha.Stream("c15-prover-randomness") }

func newWorld(gn string) *world {
	w := &world{gn: gn, q: groups.ByName(gn).Order}
	if gn == "p256" {
		w.s = fixedRand{p256.NewBlakeSHA256P256()}
	} else {
		w.s = fixedRand{edwards25519.NewBlakeSHA256Ed25519()}
	}
	w.h = alpha.Rand("c15-h", w.q)
	w.g = big.NewInt(1)
	w.G = w.s.Point().Base()
	w.H = w.pt(w.h)
	return w
}

// newWorldG: the same with a generator G that is not the standard base point.
func newWorldG(gn string) *world {
	w := newWorld(gn)
	w.g = alpha.Rand("c15-g", w.q)
	w.G = w.pt(w.g)
	return w
}

func (w *world) sc(v *big.Int) kyber.Scalar { return alpha.ToScalar(w.s.Scalar(), v, w.q) }
func (w *world) pt(v *big.Int) kyber.Point  { return w.s.Point().Mul(w.sc(v), nil) }

// pairs: ciphertexts as discrete logs (a_j, b_j): X_j = a_j G, Y_j = b_j G.
type pairs struct{ a, b []*big.Int }

func (w *world) input(k int, variant int) pairs {
	var p pairs
	for j := 0; j < k; j++ {
		r := alpha.Rand(fmt.Sprintf("c15-r-%d-%d", variant, j), w.q)
		m := alpha.Rand(fmt.Sprintf("c15-m-%d-%d", variant, j), w.q)
		switch variant {
		case 1: // small plaintexts and blinding factors
			r, m = big.NewInt(int64(j+1)), big.NewInt(int64(2*j+1))
		case 2: // duplicate input ciphertexts
			if j > 0 {
				r, m = alpha.Rand("c15-r-2-0", w.q), alpha.Rand("c15-m-2-0", w.q)
			}
		}
		p.a = append(p.a, r)
		p.b = append(p.b, new(big.Int).Mod(new(big.Int).Add(m, new(big.Int).Mul(r, w.h)), w.q))
	}
	return p
}

func (w *world) points(v []*big.Int) []kyber.Point {
	var out []kyber.Point
	for _, x := range v {
		out = append(out, w.pt(x))
	}
	return out
}

// isShuffle: exists a permutation pi with g (bbar_i - b_pi(i)) = h (abar_i - a_pi(i)) for all i.
func (w *world) isShuffle(in, out pairs) bool {
	k := len(in.a)
	if len(out.a) != k || len(out.b) != k {
		return false
	}
	used := make([]bool, k)
	var rec func(i int) bool
	rec = func(i int) bool {
		if i == k {
			return true
		}
		for j := 0; j < k; j++ {
			if used[j] {
				continue
			}
			da := new(big.Int).Sub(out.a[i], in.a[j])
			db := new(big.Int).Sub(out.b[i], in.b[j])
			if new(big.Int).Mod(new(big.Int).Sub(new(big.Int).Mul(db, w.g), new(big.Int).Mul(w.h, da)), w.q).Sign() == 0 {
				used[j] = true
				if rec(i + 1) {
					return true
				}
				used[j] = false
			}
		}
		return false
	}
	return rec(0)
}

func perms(k int) [][]int {
	var out [][]int
	var rec func(cur []int, used []bool)
	rec = func(cur []int, used []bool) {
		if len(cur) == k {
			out = append(out, append([]int{}, cur...))
			return
		}
		for i := 0; i < k; i++ {
			if !used[i] {
				used[i] = true
				rec(append(cur, i), used)
				used[i] = false
			}
		}
	}
	rec(nil, make([]bool, k))
	return out
}

// honestOutput applies pi and beta in Z_q.
func (w *world) honestOutput(in pairs, pi []int, beta []*big.Int) pairs {
	var o pairs
	for i := range pi {
		o.a = append(o.a, new(big.Int).Mod(new(big.Int).Add(in.a[pi[i]], new(big.Int).Mul(beta[pi[i]], w.g)), w.q))
		o.b = append(o.b, new(big.Int).Mod(new(big.Int).Add(in.b[pi[i]], new(big.Int).Mul(beta[pi[i]], w.h)), w.q))
	}
	return o
}

func (w *world) verifyPair(in, out pairs, prf []byte, G, H kyber.Point) (err error) {
	defer func() {
		if r := recover(); r != nil {
			err = fmt.Errorf("verifier panic: %v", r) // the package rejects mismatched lengths by panicking
		}
	}()
	return proof.HashVerify(w.s, "c15", shuffle.Verifier(w.s, G, H, w.points(in.a), w.points(in.b), w.points(out.a), w.points(out.b)), prf)
}

func Run(c *vf.Check) {
	c.Level = "model_checking"
	var jobs []func()
	maxK := 4
	if c.Thorough() {
		maxK = 5
	}
	for _, gn := range []string{"ed25519", "p256"} {
		for k := 2; k <= maxK; k++ {
			ps := perms(k)
			for pi := range ps {
				if gn == "p256" && k == 4 && pi%4 != 0 && !c.Thorough() {
					continue
				}
				gn, k, p := gn, k, ps[pi]
				jobs = append(jobs, func() { runPair(c, gn, k, p, false) })
				if k <= 3 {
					jobs = append(jobs, func() { runPair(c, gn, k, p, true) })
				}
			}
			gn, k := gn, k
			jobs = append(jobs, func() { runSimple(c, gn, k) }, func() { runForge(c, gn, k) }, func() { runAdjustedOutput(c, gn, k) }, func() { runLinkedForge(c, gn, k) })
			for nq := 1; nq <= 3; nq++ {
				nq := nq
				jobs = append(jobs, func() { runSequences(c, gn, k, nq) })
			}
		}
		gn := gn
		jobs = append(jobs, func() { runBiffle(c, gn) })
		jobs = append(jobs, func() { runBiffleForge(c, gn) })
	}
	if c.Thorough() {
		jobs = append(jobs, func() { runPair(c, "ed25519", 8, []int{7, 6, 5, 4, 3, 2, 1, 0}, false) }, func() { runPair(c, "ed25519", 12, []int{1, 2, 3, 4, 5, 6, 7, 8, 9, 10, 11, 0}, true) })
	}
	for _, gn := range []string{"ed25519", "p256"} {
		gn := gn
		jobs = append(jobs, func() { runSpellings(c, gn) })
	}
	vf.Parallel(len(jobs), func(i int) { jobs[i]() })
	c.Finish("engine E: pair shuffle on Ed25519 and P-256, k=2..4 (thorough 5, and 8/12 with fixed permutations): EVERY permutation x 3 input variants (random, small, duplicate ciphertexts), with the standard base point as generator and (k<=3) with another generator g*B: the honest proof verifies; with the honest proof, every output slot replaced / duplicated / scaled / summed with its neighbour / outputs swapped / output extended or shortened, proof of another instance, proof bytes flipped and truncated, G or H replaced: accepted only if the model (brute force over permutations with known discrete logs) says the claimed output is a re-encryption permutation and nothing else changed. "+
		"Forged-transcript family F1: a prover that builds a FRESH proof for X'=M*X+beta*G, Y'=M*Y+beta*H with M in {I+E01, I+E10, diag(2,1,..)} (solving M^T sigma = rho + l after the first challenge, D_i = sigma_i*Gamma - W_i, any valid simple-shuffle tail): must be rejected. Simple shuffle: honest vectors verify; y not a gamma-permutation of x (replaced, duplicated, unscaled entry) -> rejected. Biffle: both bits, slot replacement / duplication, proof alterations, and a forging prover: for each of the 8 relations an output violating exactly that relation with a fresh transcript built from a same-shape predicate in which the relation is replaced by a copy of another one (24 forgeries per branch) - all must be rejected. Sequence shuffle NQ=1..3: permutations reached through seeded streams (all k! for k<=3), honest verifies, one sequence's output altered -> rejected. "+
		"Strategy F2: an honest proof against an output adjusted afterwards along the kernel of Zsigma (read from the proof) - the Fiat-Shamir transcript does not bind the statement, an open known finding. Strategies F3/F4: fresh transcripts for output0 = input0+input1 whose embedded simple shuffle is an honest one of R = A+lambda*B only / of S = C+lambda*D only. Parameter spellings: every effective (G,H) in {B, g*B} x {B, h*B} with B given as nil or as the base point, on the prover side and on the verifier side (biffle and Shuffle()): accepted iff the effective parameters agree. Sequence shuffle with challenge vectors having a leading 1, all ones, a trailing 1; verified twice; the caller's matrices intact after proving and verifying. non-trivial = non-identity permutations and forged instances; distinct by (group, k, permutation, variant, attack)",
		[]string{"soundness is only probed by the enumerated output alterations and the F1 forging strategy; absence of a finding is not a soundness proof", "the forger mirrors the transcript layout of the package (if the layout changes the forged proof merely fails to parse)"}, nil)
}

func (w *world) provePair(k int, pi []int, in pairs, beta []*big.Int, label string) ([]byte, error) {
	var ps shuffle.PairShuffle
	ps.Init(w.s, k)
	var bs []kyber.Scalar
	for _, b := range beta {
		bs = append(bs, w.sc(b))
	}
	prover := func(ctx proof.ProverContext) error {
		return ps.Prove(pi, w.G, w.H, bs, w.points(in.a), w.points(in.b), alpha.Stream("c15-prove-"+label), ctx)
	}
	return proof.HashProve(w.s, "c15", prover)
}

func cp(p pairs) pairs {
	var o pairs
	for i := range p.a {
		o.a = append(o.a, new(big.Int).Set(p.a[i]))
		o.b = append(o.b, new(big.Int).Set(p.b[i]))
	}
	return o
}

func runPair(c *vf.Check, gn string, k int, pi []int, otherG bool) {
	pk := "C15/pair/" + gn
	w := newWorld(gn)
	gl := ""
	if otherG {
		w = newWorldG(gn)
		gl = " generator g*B"
	}
	// the convenience entry point Shuffle(): its prover may be run more than once (one transcript per verifier, a
	// retry), every transcript verifies, and the output is a shuffle of the input
	if pi[0] == 0 && (len(pi) < 2 || pi[1] == 1) {
		id := fmt.Sprintf("shuffle.Shuffle %s k=%d%s: prover run three times", gn, k, gl)
		c.Case(id, pk, func(x *vf.Ctx) {
			in := w.input(k, 0)
			X, Y := w.points(in.a), w.points(in.b)
			Xb, Yb, prover := shuffle.Shuffle(w.s, w.G, w.H, X, Y, alpha.Stream("c15-Shuffle-"+id))
			for run := 0; run < 3; run++ {
				prf, err := proof.HashProve(w.s, fmt.Sprintf("c15-run%d", run), prover)
				c.Eval(1)
				if err != nil {
					x.Failf(pk+"/prove-failed", "%s: run %d: %v", id, run, err)
					return
				}
				var verr error
				func() {
					defer func() {
						if r := recover(); r != nil {
							verr = fmt.Errorf("panic: %v", r)
						}
					}()
					verr = proof.HashVerify(w.s, fmt.Sprintf("c15-run%d", run), shuffle.Verifier(w.s, w.G, w.H, X, Y, Xb, Yb), prf)
				}()
				if verr != nil {
					x.Failf(pk+"/honest-rejected", "%s: the transcript of run %d of the same prover is rejected: %v", id, run, verr)
					return
				}
			}
		})
		c.Count("transitions", 3)
		c.Nontrivial(id)
	}
	for variant := 0; variant < 3; variant++ {
		variant := variant
		if otherG && variant == 2 {
			continue
		}
		id := fmt.Sprintf("pair %s k=%d pi=%v input#%d%s", gn, k, pi, variant, gl)
		c.Case(id, pk, func(x *vf.Ctx) {
			in := w.input(k, variant)
			var beta []*big.Int
			for j := 0; j < k; j++ {
				beta = append(beta, alpha.Rand(fmt.Sprintf("c15-beta-%d", j), w.q))
			}
			if variant == 1 {
				beta[0] = big.NewInt(0)
			}
			out := w.honestOutput(in, pi, beta)
			prf, err := w.provePair(k, pi, in, beta, id)
			c.Eval(1)
			if err != nil {
				x.Failf(pk+"/prove-failed", "%s: Prove: %v", id, err)
				return
			}
			if !w.isShuffle(in, out) {
				c.Broken("%s: the model rejects an honest shuffle", id)
				return
			}
			if err := w.verifyPair(in, out, prf, w.G, w.H); err != nil {
				x.Failf(pk+"/honest-rejected", "%s: honest proof rejected: %v", id, err)
				return
			}
			one := big.NewInt(1)
			try := func(name string, in2, out2 pairs, prf2 []byte, G, H kyber.Point, paramsChanged bool) {
				c.Eval(1)
				if w.verifyPair(in2, out2, prf2, G, H) == nil {
					if paramsChanged || !w.isShuffle(in2, out2) {
						x.Failf(pk+"/"+name+"-accepted", "%s: attack %q accepted (claimed output is a re-encryption permutation: %v)", id, name, w.isShuffle(in2, out2))
					}
				}
				c.Nontrivial(id + " " + name)
			}
			for i := 0; i < k; i++ {
				o := cp(out)
				o.a[i] = new(big.Int).Mod(new(big.Int).Add(o.a[i], one), w.q)
				try("slot-X-replaced", in, o, prf, w.G, w.H, false)
				o = cp(out)
				o.b[i] = new(big.Int).Mod(new(big.Int).Add(o.b[i], one), w.q)
				try("slot-Y-replaced", in, o, prf, w.G, w.H, false)
				o = cp(out)
				o.a[i], o.b[i] = o.a[(i+1)%k], o.b[(i+1)%k]
				try("slot-duplicated", in, o, prf, w.G, w.H, false)
				o = cp(out)
				o.a[i], o.b[i] = new(big.Int).Mod(new(big.Int).Lsh(o.a[i], 1), w.q), new(big.Int).Mod(new(big.Int).Lsh(o.b[i], 1), w.q)
				try("slot-scaled", in, o, prf, w.G, w.H, false)
				o = cp(out)
				o.a[i] = new(big.Int).Mod(new(big.Int).Add(o.a[i], o.a[(i+1)%k]), w.q)
				o.b[i] = new(big.Int).Mod(new(big.Int).Add(o.b[i], o.b[(i+1)%k]), w.q)
				try("slot-summed", in, o, prf, w.G, w.H, false)
				o = cp(out)
				j := (i + 1) % k
				o.a[i], o.a[j], o.b[i], o.b[j] = o.a[j], o.a[i], o.b[j], o.b[i]
				// a swap keeps the output a valid shuffle: whether the old proof still verifies is not constrained
				try("outputs-swapped", in, o, prf, w.G, w.H, false)
				// input altered instead
				i2 := cp(in)
				i2.a[i] = new(big.Int).Mod(new(big.Int).Add(i2.a[i], one), w.q)
				try("input-replaced", i2, out, prf, w.G, w.H, false)
			}
			ext := cp(out)
			ext.a, ext.b = append(ext.a, out.a[0]), append(ext.b, out.b[0])
			try("output-extended", in, ext, prf, w.G, w.H, true)
			sh := cp(out)
			sh.a, sh.b = sh.a[:k-1], sh.b[:k-1]
			try("output-shortened", in, sh, prf, w.G, w.H, true)
			try("G-replaced", in, out, prf, w.pt(big.NewInt(2)), w.H, true)
			try("H-replaced", in, out, prf, w.G, w.pt(new(big.Int).Add(w.h, one)), true)
			// proof of another honest instance
			in2 := w.input(k, (variant+1)%3)
			if prf2, err := w.provePair(k, pi, in2, beta, id+"other"); err == nil {
				if !(variant == 2 || (variant+1)%3 == 2) || !w.samePairs(in, in2) {
					try("proof-of-other-instance", in, out, prf2, w.G, w.H, true)
				}
			}
			step := 16
			if c.Thorough() {
				step = 1
			}
			for bi := 0; bi < len(prf); bi += step {
				mut := append([]byte{}, prf...)
				mut[bi] ^= 1 << (bi % 8)
				c.Eval(1)
				if w.verifyPair(in, out, mut, w.G, w.H) == nil {
					x.Failf(pk+"/proof-altered-accepted", "%s: proof with byte %d altered accepted", id, bi)
					break
				}
			}
			for _, l := range []int{0, 1, 32, len(prf) / 2, len(prf) - 32, len(prf) - 1} {
				if w.verifyPair(in, out, prf[:l], w.G, w.H) == nil {
					x.Failf(pk+"/proof-truncated-accepted", "%s: proof truncated to %d bytes accepted", id, l)
				}
			}
		})
		c.Count("transitions", 1)
		c.Count("states", 1)
		c.Class("pair/"+gn, func() any { return id })
	}
}

func (w *world) samePairs(a, b pairs) bool {
	for i := range a.a {
		if a.a[i].Cmp(b.a[i]) != 0 || a.b[i].Cmp(b.b[i]) != 0 {
			return false
		}
	}
	return true
}

func runSimple(c *vf.Check, gn string, k int) {
	pk := "C15/simple/" + gn
	w := newWorld(gn)
	for pi, p := range perms(k) {
		if pi%3 != 0 && k > 3 {
			continue
		}
		p := p
		id := fmt.Sprintf("simple %s k=%d pi=%v", gn, k, p)
		c.Case(id, pk, func(x *vf.Ctx) {
			gamma := alpha.Rand("c15-gamma", w.q)
			var xs, ys []kyber.Scalar
			var xv []*big.Int
			for i := 0; i < k; i++ {
				xv = append(xv, alpha.Rand(fmt.Sprintf("c15-sx-%d", i), w.q))
				xs = append(xs, w.sc(xv[i]))
			}
			for i := 0; i < k; i++ {
				ys = append(ys, w.sc(new(big.Int).Mul(gamma, xv[p[i]])))
			}
			Gamma := w.pt(gamma)
			run := func(ys2 []kyber.Scalar) error {
				var ss shuffle.SimpleShuffle
				ss.Init(w.s, k)
				prf, err := proof.HashProve(w.s, "c15s", func(ctx proof.ProverContext) error {
					return ss.Prove(w.G, w.sc(gamma), xs, ys2, alpha.Stream(id), ctx)
				})
				if err != nil {
					return err
				}
				var sv shuffle.SimpleShuffle
				sv.Init(w.s, k)
				return proof.HashVerify(w.s, "c15s", func(ctx proof.VerifierContext) error { return sv.Verify(w.G, Gamma, ctx) }, prf)
			}
			c.Eval(1)
			if err := run(ys); err != nil {
				x.Failf(pk+"/honest-rejected", "%s: honest simple shuffle rejected: %v", id, err)
				return
			}
			one := w.s.Scalar().One()
			for i := 0; i < k; i++ {
				bad := append([]kyber.Scalar{}, ys...)
				bad[i] = w.s.Scalar().Add(bad[i], one)
				if run(bad) == nil {
					x.Failf(pk+"/non-permutation-accepted", "%s: y with entry %d replaced verifies", id, i)
				}
				bad = append([]kyber.Scalar{}, ys...)
				bad[i] = bad[(i+1)%k]
				if !bad[i].Equal(ys[i]) && run(bad) == nil {
					x.Failf(pk+"/non-permutation-accepted", "%s: y with entry %d duplicated verifies", id, i)
				}
				bad = append([]kyber.Scalar{}, ys...)
				bad[i] = w.sc(xv[p[i]]) // not scaled by gamma
				if run(bad) == nil {
					x.Failf(pk+"/non-permutation-accepted", "%s: y with entry %d left unscaled verifies", id, i)
				}
				c.Eval(3)
			}
		})
		c.Count("transitions", 1)
		c.Nontrivial(id)
	}
}

func runBiffle(c *vf.Check, gn string) {
	pk := "C15/biffle/" + gn
	w := newWorld(gn)
	for seed := 0; seed < 8; seed++ {
		seed := seed
		id := fmt.Sprintf("biffle %s stream #%d", gn, seed)
		c.Case(id, pk, func(x *vf.Ctx) {
			in := w.input(2, seed%3)
			X := [2]kyber.Point{w.pt(in.a[0]), w.pt(in.a[1])}
			Y := [2]kyber.Point{w.pt(in.b[0]), w.pt(in.b[1])}
			Xb, Yb, prover := shuffle.Biffle(w.s, w.G, w.H, X, Y, alpha.Stream(id))
			prf, err := proof.HashProve(w.s, "c15b", prover)
			c.Eval(1)
			if err != nil {
				x.Failf(pk+"/prove-failed", "%s: %v", id, err)
				return
			}
			ver := func(X, Y, Xb, Yb [2]kyber.Point, p []byte) error {
				return proof.HashVerify(w.s, "c15b", shuffle.BiffleVerifier(w.s, w.G, w.H, X, Y, Xb, Yb), p)
			}
			if err := ver(X, Y, Xb, Yb, prf); err != nil {
				x.Failf(pk+"/honest-rejected", "%s: honest biffle rejected: %v", id, err)
				return
			}
			B := w.s.Point().Base()
			for i := 0; i < 2; i++ {
				xb := Xb
				xb[i] = w.s.Point().Add(xb[i], B)
				if ver(X, Y, xb, Yb, prf) == nil {
					x.Failf(pk+"/slot-replaced-accepted", "%s: output X[%d] replaced accepted", id, i)
				}
				yb := Yb
				yb[i] = w.s.Point().Add(yb[i], B)
				if ver(X, Y, Xb, yb, prf) == nil {
					x.Failf(pk+"/slot-replaced-accepted", "%s: output Y[%d] replaced accepted", id, i)
				}
				xb, yb = Xb, Yb
				xb[i], yb[i] = Xb[1-i], Yb[1-i]
				if !(Xb[0].Equal(Xb[1]) && Yb[0].Equal(Yb[1])) && ver(X, Y, xb, yb, prf) == nil {
					x.Failf(pk+"/slot-duplicated-accepted", "%s: output %d duplicated accepted", id, i)
				}
				c.Eval(3)
			}
			for bi := 0; bi < len(prf); bi += 8 {
				mut := append([]byte{}, prf...)
				mut[bi] ^= 1 << (bi % 8)
				if ver(X, Y, Xb, Yb, mut) == nil {
					x.Failf(pk+"/proof-altered-accepted", "%s: proof with byte %d altered accepted", id, bi)
					break
				}
			}
		})
		c.Count("transitions", 1)
		c.Nontrivial(id)
	}
}

func runSequences(c *vf.Check, gn string, k, nq int) {
	pk := "C15/sequences/" + gn
	w := newWorld(gn)
	seen := map[string]bool{}
	want := len(perms(k))
	tries := 3 * want
	if k >= 4 {
		tries = 8
	}
	for seed := 0; seed < tries && len(seen) < want; seed++ {
		seed := seed
		id := fmt.Sprintf("sequences %s k=%d NQ=%d stream #%d", gn, k, nq, seed)
		c.Case(id, pk, func(x *vf.Ctx) {
			var X, Y [][]kyber.Point
			var ins []pairs
			for j := 0; j < nq; j++ {
				in := w.input(k, j%3)
				if j > 0 { // distinct sequences
					for i := range in.a {
						in.a[i] = new(big.Int).Mod(new(big.Int).Add(in.a[i], big.NewInt(int64(j*101))), w.q)
					}
				}
				ins = append(ins, in)
				X, Y = append(X, w.points(in.a)), append(Y, w.points(in.b))
			}
			var rs cipher.Stream = alpha.Stream(fmt.Sprintf("c15-seq-%d-%d-%d", k, nq, seed))
			Xb, Yb, getProver := shuffle.SequencesShuffle(w.s, w.G, w.H, X, Y, rs)
			var e []kyber.Scalar
			for j := 0; j < nq; j++ {
				e = append(e, w.sc(alpha.Rand(fmt.Sprintf("c15-e-%d", j), w.q)))
			}
			// challenge vectors with the values the verifier may legally pick: a leading 1 (Remark 7 of the paper), all
			// ones, a trailing 1
			switch seed % 4 {
			case 1:
				e[0] = w.sc(big.NewInt(1))
			case 2:
				for j := range e {
					e[j] = w.sc(big.NewInt(1))
				}
			case 3:
				if nq > 1 {
					e[nq-1] = w.sc(big.NewInt(1)) // (a zero entry would not be a challenge: it erases its sequence)
				}
			}
			encAll := func(ms ...[][]kyber.Point) (out [][]byte) {
				for _, m := range ms {
					for _, row := range m {
						for _, p := range row {
							b, _ := p.MarshalBinary()
							out = append(out, b)
						}
					}
				}
				return
			}
			before := encAll(X, Y, Xb, Yb)
			intact := func(when string) bool {
				after := encAll(X, Y, Xb, Yb)
				for i := range before {
					if !bytes.Equal(before[i], after[i]) {
						x.Failf(pk+"/inputs-changed", "%s: %s changed the caller's ciphertext matrices (entry %d)", id, when, i)
						return false
					}
				}
				return true
			}
			prover, err := getProver(e)
			if err != nil {
				x.Failf(pk+"/prover", "%s: %v", id, err)
				return
			}
			prf, err := proof.HashProve(w.s, "c15q", prover)
			c.Eval(1)
			if err != nil {
				x.Failf(pk+"/prove-failed", "%s: %v", id, err)
				return
			}
			ver := func(Xb, Yb [][]kyber.Point) (err error) {
				defer func() {
					if r := recover(); r != nil {
						err = fmt.Errorf("panic: %v", r)
					}
				}()
				xu, yu, xd, yd := shuffle.GetSequenceVerifiable(w.s, X, Y, Xb, Yb, e)
				return proof.HashVerify(w.s, "c15q", shuffle.Verifier(w.s, w.G, w.H, xu, yu, xd, yd), prf)
			}
			if !intact("proving") {
				return
			}
			if err := ver(Xb, Yb); err != nil {
				x.Failf(pk+"/honest-rejected", "%s: honest sequence shuffle rejected: %v", id, err)
				return
			}
			if err := ver(Xb, Yb); err != nil {
				x.Failf(pk+"/honest-rejected", "%s: honest sequence shuffle rejected when verified a second time: %v", id, err)
				return
			}
			if !intact("verifying") {
				return
			}
			// which permutation was it? (first sequence, by brute force on the points)
			key := ""
			for i := 0; i < k; i++ {
				for j := 0; j < k; j++ {
					d := w.s.Point().Sub(Xb[0][i], X[0][j])
					d2 := w.s.Point().Sub(Yb[0][i], Y[0][j])
					if w.s.Point().Mul(w.sc(w.h), d).Equal(d2) {
						key += fmt.Sprint(j)
						break
					}
				}
			}
			seen[key] = true
			// a mixer that drops the last column: it shuffles and honestly proves the first k-1 columns only and presents
			// that as the output for the full input (also with one column added)
			if k >= 3 {
				var Xt, Yt [][]kyber.Point
				for j := 0; j < nq; j++ {
					Xt, Yt = append(Xt, X[j][:k-1]), append(Yt, Y[j][:k-1])
				}
				func() {
					defer func() { _ = recover() }()
					Xs, Ys, gp := shuffle.SequencesShuffle(w.s, w.G, w.H, Xt, Yt, alpha.Stream(fmt.Sprintf("c15-seq-drop-%d-%d-%d", k, nq, seed)))
					pr, err := gp(e)
					if err != nil {
						return
					}
					p2, err := proof.HashProve(w.s, "c15q", pr)
					if err != nil {
						return
					}
					c.Eval(1)
					accepted := false
					func() {
						defer func() { _ = recover() }()
						xu, yu, xd, yd := shuffle.GetSequenceVerifiable(w.s, X, Y, Xs, Ys, e)
						accepted = proof.HashVerify(w.s, "c15q", shuffle.Verifier(w.s, w.G, w.H, xu, yu, xd, yd), p2) == nil
					}()
					if accepted {
						x.Failf(pk+"/dropped-column-accepted", "%s: an output with %d of the %d ciphertexts per sequence, honestly shuffled and proven for those, is accepted for the full input", id, k-1, k)
					}
				}()
			}
			B := w.s.Point().Base()
			for j := 0; j < nq; j++ {
				for i := 0; i < k; i++ {
					xb := clone2(Xb)
					xb[j][i] = w.s.Point().Add(xb[j][i], B)
					c.Eval(1)
					if ver(xb, Yb) == nil {
						x.Failf(pk+"/slot-replaced-accepted", "%s: sequence %d output %d replaced accepted", id, j, i)
					}
					if k > 1 {
						xb, yb := clone2(Xb), clone2(Yb)
						xb[j][i], yb[j][i] = Xb[j][(i+1)%k], Yb[j][(i+1)%k]
						if !(Xb[j][i].Equal(Xb[j][(i+1)%k]) && Yb[j][i].Equal(Yb[j][(i+1)%k])) && ver(xb, yb) == nil {
							x.Failf(pk+"/slot-duplicated-accepted", "%s: sequence %d output %d duplicated accepted", id, j, i)
						}
					}
				}
			}
		})
		c.Count("transitions", 1)
		c.Nontrivial(id)
	}
	c.Note(fmt.Sprintf("sequences %s k=%d NQ=%d: %d of %d permutations reached", gn, k, nq, len(seen), want))
}

func clone2(a [][]kyber.Point) [][]kyber.Point {
	var o [][]kyber.Point
	for _, r := range a {
		o = append(o, append([]kyber.Point{}, r...))
	}
	return o
}
