package c15

import (
	"fmt"
	"math/big"

	"go.dedis.ch/kyber/v4"
	"go.dedis.ch/kyber/v4/proof"
	"go.dedis.ch/kyber/v4/shuffle"
	"verif/harness/alpha"
	"verif/harness/vf"
)

// mirror structs with the transcript layout of the pair shuffle
type fEga1 struct {
	Gamma            kyber.Point
	A, C, U, W       []kyber.Point
	Lambda1, Lambda2 kyber.Point
}
type fEga2 struct{ Zrho []kyber.Scalar }
type fEga3 struct{ D []kyber.Point }
type fEga4 struct{ Zlambda kyber.Scalar }
type fEga5 struct {
	Zsigma []kyber.Scalar
	Ztau   kyber.Scalar
}

// runForge: prover strategy F1 - a fresh "proof" for an output that is an
// invertible linear map of the input but not a permutation.
func runForge(c *vf.Check, gn string, k int) {
	pk := "C15/pair/" + gn
	w := newWorld(gn)
	type mat struct {
		name string
		// solve M^T sigma = v for sigma; apply M to a vector of Z_q values
		apply func(v []*big.Int) []*big.Int
		solve func(v []*big.Int) []*big.Int
	}
	q := w.q
	md := func(v *big.Int) *big.Int { return new(big.Int).Mod(v, q) }
	half := new(big.Int).ModInverse(big.NewInt(2), q)
	mats := []mat{
		{"I+E01 (output0 = input0+input1)", func(v []*big.Int) []*big.Int {
			o := append([]*big.Int{}, v...)
			o[0] = md(new(big.Int).Add(v[0], v[1]))
			return o
		}, func(v []*big.Int) []*big.Int { // rows of M^T: j=0: s0 ; j=1: s0+s1
			s := append([]*big.Int{}, v...)
			s[1] = md(new(big.Int).Sub(v[1], v[0]))
			return s
		}},
		{"I+E10 (output1 = input1+input0)", func(v []*big.Int) []*big.Int {
			o := append([]*big.Int{}, v...)
			o[1] = md(new(big.Int).Add(v[1], v[0]))
			return o
		}, func(v []*big.Int) []*big.Int { // j=0: s0+s1 ; j=1: s1
			s := append([]*big.Int{}, v...)
			s[0] = md(new(big.Int).Sub(v[0], v[1]))
			return s
		}},
		{"diag(2,1,..) (output0 = 2*input0)", func(v []*big.Int) []*big.Int {
			o := append([]*big.Int{}, v...)
			o[0] = md(new(big.Int).Lsh(v[0], 1))
			return o
		}, func(v []*big.Int) []*big.Int {
			s := append([]*big.Int{}, v...)
			s[0] = md(new(big.Int).Mul(v[0], half))
			return s
		}},
	}
	for _, m := range mats {
		m := m
		id := fmt.Sprintf("pair %s k=%d forged transcript for M = %s", gn, k, m.name)
		c.Case(id, pk, func(x *vf.Ctx) {
			in := w.input(k, 0)
			var beta []*big.Int
			for j := 0; j < k; j++ {
				beta = append(beta, alpha.Rand(fmt.Sprintf("c15-fbeta-%d", j), q))
			}
			var out pairs
			ma, mb := m.apply(in.a), m.apply(in.b)
			for i := 0; i < k; i++ {
				out.a = append(out.a, md(new(big.Int).Add(ma[i], beta[i])))
				out.b = append(out.b, md(new(big.Int).Add(mb[i], new(big.Int).Mul(beta[i], w.h))))
			}
			if w.isShuffle(in, out) {
				c.Broken("%s: the forged output is a genuine shuffle", id)
				return
			}
			s := w.s
			rnd := func(l string) *big.Int { return alpha.Rand("c15-forge-"+l, q) }
			gamma := rnd("gamma")
			var l, wv []*big.Int
			for j := 0; j < k; j++ {
				l = append(l, rnd(fmt.Sprint("l", j)))
				wv = append(wv, rnd(fmt.Sprint("w", j)))
			}
			cc := rnd("c")
			forger := func(ctx proof.ProverContext) error {
				p1 := fEga1{Gamma: w.pt(gamma)}
				L1, L2 := new(big.Int).Set(cc), md(new(big.Int).Mul(cc, w.h))
				for j := 0; j < k; j++ {
					p1.A = append(p1.A, w.pt(rnd(fmt.Sprint("a", j))))
					p1.C = append(p1.C, w.pt(rnd(fmt.Sprint("c", j))))
					p1.U = append(p1.U, w.pt(rnd(fmt.Sprint("u", j))))
					p1.W = append(p1.W, w.pt(md(new(big.Int).Mul(gamma, wv[j]))))
					L1 = md(new(big.Int).Add(L1, new(big.Int).Mul(l[j], in.a[j])))
					L2 = md(new(big.Int).Add(L2, new(big.Int).Mul(l[j], in.b[j])))
				}
				p1.Lambda1, p1.Lambda2 = w.pt(L1), w.pt(L2)
				if err := ctx.Put(p1); err != nil {
					return err
				}
				v2 := fEga2{Zrho: make([]kyber.Scalar, k)}
				if err := ctx.PubRand(&v2); err != nil {
					return err
				}
				var rhs []*big.Int
				for j := 0; j < k; j++ {
					rhs = append(rhs, md(new(big.Int).Add(alpha.FromScalar(v2.Zrho[j]), l[j])))
				}
				sigma := m.solve(rhs)
				p3 := fEga3{}
				tau := md(new(big.Int).Neg(cc))
				for i := 0; i < k; i++ {
					p3.D = append(p3.D, w.pt(md(new(big.Int).Mul(gamma, new(big.Int).Sub(sigma[i], wv[i])))))
					tau = md(new(big.Int).Add(tau, new(big.Int).Mul(sigma[i], beta[i])))
				}
				if err := ctx.Put(p3); err != nil {
					return err
				}
				var v4 fEga4
				if err := ctx.PubRand(&v4); err != nil {
					return err
				}
				p5 := fEga5{Ztau: w.sc(tau)}
				for i := 0; i < k; i++ {
					p5.Zsigma = append(p5.Zsigma, w.sc(sigma[i]))
				}
				if err := ctx.Put(p5); err != nil {
					return err
				}
				// any valid simple shuffle as the tail
				var ss shuffle.SimpleShuffle
				ss.Init(s, k)
				var xs, ys []kyber.Scalar
				for i := 0; i < k; i++ {
					r := rnd(fmt.Sprint("r", i))
					xs = append(xs, w.sc(r))
					ys = append(ys, w.sc(md(new(big.Int).Mul(gamma, r))))
				}
				return ss.Prove(w.G, w.sc(gamma), xs, ys, alpha.Stream("c15-forge-tail"), ctx)
			}
			prf, err := proof.HashProve(s, "c15", forger)
			c.Eval(1)
			if err != nil {
				c.Class("pair/forge-not-buildable", func() any { return id + ": " + err.Error() })
				return
			}
			if w.verifyPair(in, out, prf, w.G, w.H) == nil {
				x.Failf(pk+"/forged-proof-accepted", "%s: a freshly built proof for an output that is not a permutation of re-encryptions is ACCEPTED (%d bytes)", id, len(prf))
			}
			c.Class("pair/forge-rejected", func() any { return id })
		})
		c.Count("transitions", 1)
		c.Nontrivial(id)
	}
}

// runAdjustedOutput: prover strategy F2 - no new transcript at all. The output lists enter the pair-shuffle
// verification only through sum_i Zsigma_i * Xbar_i (and the same for Ybar), with Zsigma readable from the proof. An
// output adjusted AFTER the proof was made by (Xbar_0 + Zsigma_1*D, Xbar_1 - Zsigma_0*D) leaves that sum unchanged;
// it is not a permutation of re-encryptions, so the unchanged honest proof must not verify for it.
func runAdjustedOutput(c *vf.Check, gn string, k int) {
	pk := "C15/pair/" + gn
	w := newWorld(gn)
	q := w.q
	md := func(v *big.Int) *big.Int { return new(big.Int).Mod(v, q) }
	for which := 0; which < 3; which++ {
		which := which
		names := []string{"Xbar adjusted", "Ybar adjusted", "both adjusted"}
		id := fmt.Sprintf("pair %s k=%d honest proof, output adjusted afterwards along the kernel of Zsigma (%s)", gn, k, names[which])
		c.Case(id, pk, func(x *vf.Ctx) {
			in := w.input(k, 0)
			var beta []*big.Int
			pi := make([]int, k)
			for j := 0; j < k; j++ {
				beta = append(beta, alpha.Rand(fmt.Sprintf("c15-beta-%d", j), q))
				pi[j] = (j + 1) % k
			}
			out := w.honestOutput(in, pi, beta)
			prf, err := w.provePair(k, pi, in, beta, id)
			if err != nil {
				x.Failf(pk+"/prove-failed", "%s: Prove: %v", id, err)
				return
			}
			if err := w.verifyPair(in, out, prf, w.G, w.H); err != nil {
				x.Failf(pk+"/honest-rejected", "%s: honest proof rejected: %v", id, err)
				return
			}
			// read Zsigma out of the transcript with a reading verifier of the same message shapes
			var zs []kyber.Scalar
			reader := func(ctx proof.VerifierContext) error {
				mk := func() []kyber.Point { return make([]kyber.Point, k) }
				p1 := fEga1{A: mk(), C: mk(), U: mk(), W: mk()}
				if err := ctx.Get(&p1); err != nil {
					return err
				}
				v2 := fEga2{Zrho: make([]kyber.Scalar, k)}
				if err := ctx.PubRand(&v2); err != nil {
					return err
				}
				p3 := fEga3{D: mk()}
				if err := ctx.Get(&p3); err != nil {
					return err
				}
				var v4 fEga4
				if err := ctx.PubRand(&v4); err != nil {
					return err
				}
				p5 := fEga5{Zsigma: make([]kyber.Scalar, k)}
				if err := ctx.Get(&p5); err != nil {
					return err
				}
				zs = p5.Zsigma
				return nil
			}
			_ = proof.HashVerify(w.s, "c15", reader, prf)
			if len(zs) != k || zs[0] == nil || zs[1] == nil {
				c.Class("pair/adjusted-output-not-buildable", func() any { return id })
				return
			}
			s0, s1 := alpha.FromScalar(zs[0]), alpha.FromScalar(zs[1])
			d := alpha.Rand("c15-adjust-delta", q)
			adj := pairs{a: append([]*big.Int{}, out.a...), b: append([]*big.Int{}, out.b...)}
			if which != 1 {
				adj.a[0] = md(new(big.Int).Add(adj.a[0], new(big.Int).Mul(s1, d)))
				adj.a[1] = md(new(big.Int).Sub(adj.a[1], new(big.Int).Mul(s0, d)))
			}
			if which != 0 {
				adj.b[0] = md(new(big.Int).Add(adj.b[0], new(big.Int).Mul(s1, d)))
				adj.b[1] = md(new(big.Int).Sub(adj.b[1], new(big.Int).Mul(s0, d)))
			}
			if w.isShuffle(in, adj) {
				c.Class("pair/adjusted-output-is-a-shuffle", func() any { return id })
				return
			}
			c.Eval(1)
			if w.verifyPair(in, adj, prf, w.G, w.H) == nil {
				x.Failf(pk+"/adjusted-output-accepted", "%s: the unchanged honest proof verifies for an output that is not a permutation of re-encryptions (output_0 + Zsigma_1*D, output_1 - Zsigma_0*D)", id)
				return
			}
			c.Class("pair/adjusted-output-rejected", func() any { return id })
		})
		c.Count("transitions", 1)
		c.Nontrivial(id)
	}
}

// runLinkedForge: prover strategies F3 / F4 - as F1 a fresh transcript for output_0 = input_0 + input_1 (+ fresh
// re-encryption), but the embedded simple shuffle is an honest one of exactly one half of the link between the two
// proofs: F3 of R = A + lambda*B (so S = C + lambda*D differs from the simple shuffle's second vector in one slot),
// F4 of S (so R differs). A verifier that checks only one half of the link accepts one of them.
func runLinkedForge(c *vf.Check, gn string, k int) {
	pk := "C15/pair/" + gn
	w := newWorld(gn)
	grp := w.s
	for variant := 0; variant < 2; variant++ {
		variant := variant
		id := fmt.Sprintf("pair %s k=%d forged transcript for output0 = input0+input1, embedded simple shuffle bound to %s only", gn, k, []string{"R = A+lambda*B", "S = C+lambda*D"}[variant])
		c.Case(id, pk, func(x *vf.Ctx) {
			in := w.input(k, 0)
			X, Y := w.points(in.a), w.points(in.b)
			G, H := w.G, w.H
			if G == nil {
				G = grp.Point().Base()
			}
			rand := alpha.Stream("c15-linked-forge-" + id)
			pick := func() kyber.Scalar { return grp.Scalar().Pick(rand) }
			picks := func() []kyber.Scalar {
				v := make([]kyber.Scalar, k)
				for i := range v {
					v[i] = pick()
				}
				return v
			}
			mul := func(a, b kyber.Scalar) kyber.Scalar { return grp.Scalar().Mul(a, b) }
			m := func(i, j int) bool { return i == j || (i == 0 && j == 1) }
			beta := picks()
			xbar, ybar := make([]kyber.Point, k), make([]kyber.Point, k)
			for i := 0; i < k; i++ {
				xbar[i], ybar[i] = grp.Point().Mul(beta[i], G), grp.Point().Mul(beta[i], H)
				for j := 0; j < k; j++ {
					if m(i, j) {
						xbar[i].Add(xbar[i], X[j])
						ybar[i].Add(ybar[i], Y[j])
					}
				}
			}
			forger := func(ctx proof.ProverContext) error {
				u, wv, a := picks(), picks(), picks()
				tau0, gamma := pick(), pick()
				mk := func() []kyber.Point { return make([]kyber.Point, k) }
				p1 := fEga1{Gamma: grp.Point().Mul(gamma, G), A: mk(), C: mk(), U: mk(), W: mk(), Lambda1: grp.Point().Null(), Lambda2: grp.Point().Null()}
				gsum := grp.Scalar().Set(tau0)
				for i := 0; i < k; i++ {
					p1.A[i] = grp.Point().Mul(a[i], G)
					p1.C[i] = grp.Point().Mul(mul(gamma, a[i]), G)
					p1.U[i] = grp.Point().Mul(u[i], G)
					p1.W[i] = grp.Point().Mul(mul(gamma, wv[i]), G)
					gsum.Add(gsum, mul(wv[i], beta[i]))
				}
				for j := 0; j < k; j++ {
					coef := grp.Scalar().Neg(u[j])
					for i := 0; i < k; i++ {
						if m(i, j) {
							coef.Add(coef, wv[i])
						}
					}
					p1.Lambda1.Add(p1.Lambda1, grp.Point().Mul(coef, X[j]))
					p1.Lambda2.Add(p1.Lambda2, grp.Point().Mul(coef, Y[j]))
				}
				p1.Lambda1.Add(p1.Lambda1, grp.Point().Mul(gsum, G))
				p1.Lambda2.Add(p1.Lambda2, grp.Point().Mul(gsum, H))
				if err := ctx.Put(p1); err != nil {
					return err
				}
				v2 := fEga2{Zrho: make([]kyber.Scalar, k)}
				if err := ctx.PubRand(&v2); err != nil {
					return err
				}
				b, f := make([]kyber.Scalar, k), make([]kyber.Scalar, k)
				for i := 0; i < k; i++ {
					b[i] = grp.Scalar().Sub(v2.Zrho[i], u[i])
					f[i] = grp.Scalar().Set(b[i])
				}
				f[1] = grp.Scalar().Sub(b[1], b[0]) // f = M^-T b
				p3 := fEga3{D: mk()}
				for i := 0; i < k; i++ {
					p3.D[i] = grp.Point().Mul(mul(gamma, f[i]), G)
				}
				if err := ctx.Put(p3); err != nil {
					return err
				}
				var v4 fEga4
				if err := ctx.PubRand(&v4); err != nil {
					return err
				}
				p5 := fEga5{Zsigma: make([]kyber.Scalar, k), Ztau: grp.Scalar().Neg(tau0)}
				r, sv := make([]kyber.Scalar, k), make([]kyber.Scalar, k)
				for i := 0; i < k; i++ {
					p5.Zsigma[i] = grp.Scalar().Add(wv[i], f[i])
					p5.Ztau.Add(p5.Ztau, mul(f[i], beta[i]))
					link := b[i] // F3: the simple shuffle is one of R
					if variant == 1 {
						link = f[i] // F4: of S
					}
					r[i] = grp.Scalar().Add(a[i], mul(v4.Zlambda, link))
					sv[i] = mul(gamma, r[i])
				}
				if err := ctx.Put(p5); err != nil {
					return err
				}
				var ss shuffle.SimpleShuffle
				ss.Init(grp, k)
				return ss.Prove(G, gamma, r, sv, rand, ctx)
			}
			prf, err := proof.HashProve(grp, "c15", forger)
			c.Eval(1)
			if err != nil {
				c.Class("pair/forge-not-buildable", func() any { return id + ": " + err.Error() })
				return
			}
			var verr error
			func() {
				defer func() {
					if r := recover(); r != nil {
						verr = fmt.Errorf("panic: %v", r)
					}
				}()
				verr = proof.HashVerify(grp, "c15", shuffle.Verifier(grp, w.G, w.H, X, Y, xbar, ybar), prf)
			}()
			if verr == nil {
				x.Failf(pk+"/forged-proof-accepted", "%s: a freshly built proof for an output that is not a permutation of re-encryptions is ACCEPTED (%d bytes)", id, len(prf))
			}
			c.Class("pair/forge-rejected", func() any { return id })
		})
		c.Count("transitions", 1)
		c.Nontrivial(id)
	}
}

// runSpellings: the generator G and the public key H may each be given as nil, which stands for the standard base
// point. Every effective pair (G,H) in {B, g*B} x {B, h*B}, every spelling of it on the prover's side and every
// spelling on the verifier's side: the honest biffle / pair-shuffle proof verifies, and does not verify under another
// effective pair.
func runSpellings(c *vf.Check, gn string) {
	pk := "C15/spelling/" + gn
	w := newWorldG(gn)
	B := w.s.Point().Base()
	type sp struct {
		name string
		p    kyber.Point
		eff  string
	}
	Gs := []sp{{"nil", nil, "B"}, {"Base", B, "B"}, {"g*B", w.G, "g*B"}}
	Hs := []sp{{"nil", nil, "B"}, {"Base", B, "B"}, {"h*B", w.H, "h*B"}}
	for _, scheme := range []string{"biffle", "pair"} {
		for _, pg := range Gs {
			for _, ph := range Hs {
				scheme, pg, ph := scheme, pg, ph
				id := fmt.Sprintf("%s %s proven with G=%s H=%s", scheme, gn, pg.name, ph.name)
				c.Case(id, pk, func(x *vf.Ctx) {
					in := w.input(3, 0)
					X, Y := w.points(in.a), w.points(in.b)
					var prf []byte
					var verify func(G, H kyber.Point) error
					var err error
					if scheme == "biffle" {
						X2, Y2 := [2]kyber.Point{X[0], X[1]}, [2]kyber.Point{Y[0], Y[1]}
						Xb, Yb, prover := shuffle.Biffle(w.s, pg.p, ph.p, X2, Y2, alpha.Stream(id))
						prf, err = proof.HashProve(w.s, "c15s", prover)
						verify = func(G, H kyber.Point) error {
							return proof.HashVerify(w.s, "c15s", shuffle.BiffleVerifier(w.s, G, H, X2, Y2, Xb, Yb), prf)
						}
					} else {
						Xb, Yb, prover := shuffle.Shuffle(w.s, pg.p, ph.p, X, Y, alpha.Stream(id))
						prf, err = proof.HashProve(w.s, "c15s", prover)
						verify = func(G, H kyber.Point) (err error) {
							defer func() {
								if r := recover(); r != nil {
									err = fmt.Errorf("panic: %v", r)
								}
							}()
							return proof.HashVerify(w.s, "c15s", shuffle.Verifier(w.s, G, H, X, Y, Xb, Yb), prf)
						}
					}
					if err != nil {
						x.Failf(pk+"/prove-failed", "%s: %v", id, err)
						return
					}
					for _, vg := range Gs {
						for _, vh := range Hs {
							same := vg.eff == pg.eff && vh.eff == ph.eff
							verr := verify(vg.p, vh.p)
							c.Eval(1)
							if same && verr != nil {
								x.Failf(pk+"/honest-rejected", "%s: rejected when verified with G=%s H=%s (the same parameters): %v", id, vg.name, vh.name, verr)
								return
							}
							if !same && verr == nil {
								x.Failf(pk+"/other-parameters-accepted", "%s: accepted when verified with G=%s H=%s (other parameters)", id, vg.name, vh.name)
								return
							}
						}
					}
				})
				c.Count("transitions", 9)
				c.Nontrivial(id)
			}
		}
	}
}
