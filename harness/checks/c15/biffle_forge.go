package c15

// Forging prover for the biffle: for each of the eight relations of the
// Or(And x4, And x4) predicate an output is built that violates exactly that
// relation, and a FRESH transcript is produced with a predicate of the same
// shape in which the violated relation is replaced by a copy of another
// relation of its branch (the transcript layout is unchanged). The real
// verifier must reject every one of them: each relation has to be enforced.

import (
	"fmt"

	"go.dedis.ch/kyber/v4"
	"go.dedis.ch/kyber/v4/proof"
	"go.dedis.ch/kyber/v4/shuffle"
	"verif/harness/alpha"
	"verif/harness/checks/c14"
	"verif/harness/groups"
	"verif/harness/vf"
)

type brel struct {
	pt, sec, base string
	slot          int  // output slot the relation pins
	isY           bool // pins Ybar (else Xbar)
}

var biffleRels = [2][4]brel{
	{{"Xbar0-X0", "beta0", "G", 0, false}, {"Ybar0-Y0", "beta0", "H", 0, true}, {"Xbar1-X1", "beta1", "G", 1, false}, {"Ybar1-Y1", "beta1", "H", 1, true}},
	{{"Xbar0-X1", "beta1", "G", 0, false}, {"Ybar0-Y1", "beta1", "H", 0, true}, {"Xbar1-X0", "beta0", "G", 1, false}, {"Ybar1-Y0", "beta0", "H", 1, true}},
}

func runBiffleForge(c *vf.Check, gn string) {
	pk := "C15/biffle/" + gn
	w := newWorld(gn)
	s := w.s
	in := w.input(2, 0)
	X := [2]kyber.Point{w.pt(in.a[0]), w.pt(in.a[1])}
	Y := [2]kyber.Point{w.pt(in.b[0]), w.pt(in.b[1])}
	// simulator-style forgery: both branches simulated with their own sub-challenges, for outputs that have nothing
	// to do with the input (and, as a control of the same shape, for an honest output)
	for variant := 0; variant < 3; variant++ {
		variant := variant
		id := fmt.Sprintf("biffle %s simulated transcript, output variant %d", gn, variant)
		c.Case(id, pk, func(x *vf.Ctx) {
			var Xb, Yb [2]kyber.Point
			for i := 0; i < 2; i++ {
				switch variant {
				case 0: // unrelated points
					Xb[i] = s.Point().Pick(alpha.Stream(fmt.Sprintf("c15-sim-x%d", i)))
					Yb[i] = s.Point().Pick(alpha.Stream(fmt.Sprintf("c15-sim-y%d", i)))
				case 1: // both outputs are re-encryptions of input 0
					b := alpha.ToScalar(s.Scalar(), alpha.Rand(fmt.Sprintf("c15-sim-b%d", i), w.q), w.q)
					Xb[i] = s.Point().Add(s.Point().Mul(b, w.G), X[0])
					Yb[i] = s.Point().Add(s.Point().Mul(b, w.H), Y[0])
				default: // an honest re-encryption in the identity order
					b := alpha.ToScalar(s.Scalar(), alpha.Rand(fmt.Sprintf("c15-sim-h%d", i), w.q), w.q)
					Xb[i] = s.Point().Add(s.Point().Mul(b, w.G), X[i])
					Yb[i] = s.Point().Add(s.Point().Mul(b, w.H), Y[i])
				}
			}
			pts := map[string]kyber.Point{"G": w.G, "H": w.H,
				"Xbar0-X0": s.Point().Sub(Xb[0], X[0]), "Ybar0-Y0": s.Point().Sub(Yb[0], Y[0]),
				"Xbar1-X1": s.Point().Sub(Xb[1], X[1]), "Ybar1-Y1": s.Point().Sub(Yb[1], Y[1]),
				"Xbar0-X1": s.Point().Sub(Xb[0], X[1]), "Ybar0-Y1": s.Point().Sub(Yb[0], Y[1]),
				"Xbar1-X0": s.Point().Sub(Xb[1], X[0]), "Ybar1-Y0": s.Point().Sub(Yb[1], Y[0])}
			var brs [][]c14.SimRep
			for b := 0; b < 2; b++ {
				var br []c14.SimRep
				for _, r := range biffleRels[b] {
					br = append(br, c14.SimRep{P: r.pt, Terms: [][2]string{{r.sec, r.base}}})
				}
				brs = append(brs, br)
			}
			prf, err := c14.SimulateOr(s, groups.ByName(gn), "c15b", brs, pts, id)
			c.Eval(1)
			if err != nil {
				return
			}
			if proof.HashVerify(s, "c15b", shuffle.BiffleVerifier(s, w.G, w.H, X, Y, Xb, Yb), prf) == nil {
				x.Failf(pk+"/forged-proof-accepted", "%s: a transcript in which both Or-branches are simulated with freely chosen sub-challenges is accepted", id)
			}
		})
		c.Count("transitions", 1)
		c.Nontrivial(id)
	}
	D := s.Point().Mul(alpha.ToScalar(s.Scalar(), alpha.Rand("c15-biffle-forge-d", w.q), w.q), nil)
	for bit := 0; bit < 2; bit++ {
		for k := 0; k < 4; k++ {
			for j := 0; j < 4; j++ {
				if j == k {
					continue
				}
				bit, k, j := bit, k, j
				id := fmt.Sprintf("biffle %s forged: branch %d, relation %s violated and replaced by a copy of %s", gn, bit, biffleRels[bit][k].pt, biffleRels[bit][j].pt)
				c.Case(id, pk, func(x *vf.Ctx) {
					beta := [2]kyber.Scalar{alpha.ToScalar(s.Scalar(), alpha.Rand("c15-bf-b0", w.q), w.q), alpha.ToScalar(s.Scalar(), alpha.Rand("c15-bf-b1", w.q), w.q)}
					var Xb, Yb [2]kyber.Point
					for i := 0; i < 2; i++ {
						pi := i ^ bit
						Xb[i] = s.Point().Add(s.Point().Mul(beta[pi], w.G), X[pi])
						Yb[i] = s.Point().Add(s.Point().Mul(beta[pi], w.H), Y[pi])
					}
					v := biffleRels[bit][k]
					if v.isY {
						Yb[v.slot] = s.Point().Add(Yb[v.slot], D)
					} else {
						Xb[v.slot] = s.Point().Add(Xb[v.slot], D)
					}
					mkAnd := func(b int) proof.Predicate {
						var reps []proof.Predicate
						for r := 0; r < 4; r++ {
							rel := biffleRels[b][r]
							if b == bit && r == k {
								rel = biffleRels[b][j]
							}
							reps = append(reps, proof.Rep(rel.pt, rel.sec, rel.base))
						}
						return proof.And(reps...)
					}
					or := proof.Or(mkAnd(0), mkAnd(1))
					pts := map[string]kyber.Point{"G": w.G, "H": w.H,
						"Xbar0-X0": s.Point().Sub(Xb[0], X[0]), "Ybar0-Y0": s.Point().Sub(Yb[0], Y[0]),
						"Xbar1-X1": s.Point().Sub(Xb[1], X[1]), "Ybar1-Y1": s.Point().Sub(Yb[1], Y[1]),
						"Xbar0-X1": s.Point().Sub(Xb[0], X[1]), "Ybar0-Y1": s.Point().Sub(Yb[0], Y[1]),
						"Xbar1-X0": s.Point().Sub(Xb[1], X[0]), "Ybar1-Y0": s.Point().Sub(Yb[1], Y[0])}
					secs := map[string]kyber.Scalar{"beta0": beta[0], "beta1": beta[1]}
					prf, err := proof.HashProve(s, "c15b", or.Prover(s, secs, pts, map[proof.Predicate]int{or: bit}))
					c.Eval(1)
					if err != nil {
						c.Class("biffle-forge/prover-refused", func() any { return id })
						return
					}
					if proof.HashVerify(s, "c15b", shuffle.BiffleVerifier(s, w.G, w.H, X, Y, Xb, Yb), prf) == nil {
						x.Failf(pk+"/forged-proof-accepted", "%s: the verifier accepts a freshly built proof although the output is not a re-encryption permutation of the input", id)
					}
					c.Class("biffle-forge/rejected", func() any { return id })
				})
				c.Count("transitions", 1)
				c.Nontrivial(id)
			}
		}
	}
}
