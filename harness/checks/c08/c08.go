// Package c08: Schnorr, EdDSA and ring signatures accept exactly honest
// signatures. Exhaustive alphabets of keys, message lengths, every single-bit
// mutation of signature / key / message, the Ed25519 malleability families
// (S+kl, small-order and non-canonical R and A) and a differential oracle
// against crypto/ed25519.
package c08

import (
	"bytes"
	"crypto/cipher"
	"crypto/ed25519"
	"encoding/hex"
	"fmt"
	"math/big"

	"go.dedis.ch/kyber/v4"
	"go.dedis.ch/kyber/v4/group/edwards25519"
	"go.dedis.ch/kyber/v4/group/p256"
	"go.dedis.ch/kyber/v4/pairing/bn256"
	"go.dedis.ch/kyber/v4/sign/anon"
	"go.dedis.ch/kyber/v4/sign/eddsa"
	"go.dedis.ch/kyber/v4/sign/schnorr"
	"verif/harness/alpha"
	"verif/harness/fmod"
	"verif/harness/groups"
	"verif/harness/vf"
)

type schnorrSuite struct {
	kyber.Group
	rs cipher.Stream
}

func (s *schnorrSuite) RandomStream() cipher.Stream { return s.rs }

var msgLens = []int{0, 1, 31, 32, 33, 64, 65, 4096}

func message(n int) []byte {
	m := make([]byte, n)
	for i := range m {
		m[i] = byte(i*7 + n)
	}
	return m
}

func Run(c *vf.Check) {
	c.Level = "model_checking"
	var jobs []func()
	for _, g := range groups.All() {
		g := g
		if !g.MulNil {
			continue
		}
		for ki := 0; ki < 4; ki++ {
			ki := ki
			jobs = append(jobs, func() { runSchnorr(c, g, ki) })
		}
	}
	jobs = append(jobs, func() { runSmallOrder(c, 0) }, func() { runSmallOrder(c, 1) }, func() { runSPlusL(c) })
	for s := 0; s < 64; s += 8 {
		s := s
		jobs = append(jobs, func() { runEdDSADiff(c, s, s+8) })
	}
	for _, rs := range []string{"ed25519", "p256", "bn256.G1"} {
		maxN := 5
		if c.Thorough() || rs == "ed25519" {
			maxN = 8
		}
		for n := 1; n <= maxN; n++ {
			rs, n := rs, n
			jobs = append(jobs, func() { runRing(c, rs, n) })
		}
	}
	// signing objects used over several calls
	od := 3
	if c.Thorough() {
		od = 4
	}
	for _, gn := range []string{"ed25519", "p256"} {
		gn := gn
		jobs = append(jobs, func() { runSchnorrObject(c, gn, od) })
	}
	jobs = append(jobs, func() { runEdDSAObject(c, od+1) })
	vf.Parallel(len(jobs), func(i int) { jobs[i]() })
	c.Finish("engine E: Schnorr on the 17 group instances with an implicit generator: keys {1,q-1,r1,r2} x message lengths {0,1,31,32,33,64,65,4096}: honest signature verifies; every single-bit flip of the signature and of the key encoding (all bits for the first key/two messages, one bit per byte elsewhere), of the message (<=65 bytes), +-1 byte -> rejected unless the mutated encoding decodes to the same (R, S mod q, key). "+
		"Ed25519 (schnorr.VerifyWithChecks and eddsa.VerifyWithChecks): S+k*l for all k with S+k*l < 2^256; every (A,R) pair from 14 encodings of the 8 small-order points (canonical, non-canonical y>=p, sign-bit variants) with S in {0, and S making the equation hold} x 8 messages -> rejected. "+
		"Signing objects over several calls (engine S, no merging): every sequence of depth <= 3 (thorough 4) over {Scheme.Sign with caller scalar K for message a / b, with another scalar K2, K updated in place (+1, Set, Pick), NewKeyPair, verify everything held} on a schnorr.NewScheme value (Ed25519, P-256), and of depth <= 4 (thorough 5) over {Sign a/b/c, load key 1/2, MarshalBinary+UnmarshalBinary, verify everything held} on one eddsa.EdDSA value: every signature handed out is kept and judged at the end - unchanged since it was returned, valid under the key of that moment, EdDSA byte-identical to crypto/ed25519. "+
		"EdDSA vs crypto/ed25519: 64 seeds x 12 message lengths: identical public key and signature bytes; for every mutant: kyber accepts => crypto/ed25519 accepts. Ring signatures (Ed25519, P-256, bn256.G1): ring sizes 1..8 on Ed25519, 1..5 on the others (thorough 1..8) x every signer x scopes {nil, empty, a, b} x 2 messages: verifies; tag relations over all pairs; every 32/64-byte component replaced or bit-flipped, message/ring member/scope replaced -> error. "+
		"non-trivial = mutated inputs that still decode; distinct by (scheme, group, key, message length, mutation)",
		[]string{"a mutated signature verifying by chance (2^-250) is ignored", "signing randomness is a seeded stream per case (deterministic replay)"}, nil)
}

func sameSem(g *groups.G, sig, mut []byte) bool {
	pl, sl := g.Group.PointLen(), g.Group.ScalarLen()
	if len(mut) != pl+sl {
		return false
	}
	R, R2 := g.Point(), g.Point()
	if R.UnmarshalBinary(sig[:pl]) != nil || R2.UnmarshalBinary(mut[:pl]) != nil || !R.Equal(R2) {
		return false
	}
	s, s2 := g.Scalar(), g.Scalar()
	if s.UnmarshalBinary(sig[pl:]) != nil || s2.UnmarshalBinary(mut[pl:]) != nil {
		return false
	}
	return alpha.FromScalar(s).Cmp(alpha.FromScalar(s2)) == 0
}

func runSchnorr(c *vf.Check, g *groups.G, ki int) {
	pk := "C08/schnorr/" + g.Name
	q := g.Order
	keys := []alpha.NS{{Name: "1", V: big.NewInt(1)}, {Name: "q-1", V: new(big.Int).Sub(q, big.NewInt(1))}, {Name: "r1", V: alpha.Rand("c08-k1", q)}, {Name: "r2", V: alpha.Rand("c08-k2", q)}}
	key := keys[ki]
	lens := msgLens
	if g.Slow && !c.Thorough() {
		lens = []int{0, 33, 4096}
		if ki%2 == 1 {
			return
		}
	}
	for mi, ml := range lens {
		ml := ml
		id := fmt.Sprintf("schnorr %s key=%s msglen=%d", g.Name, key.Name, ml)
		full := ki == 2 && (mi == 0 || ml == 33)
		c.Case(id, pk, func(x *vf.Ctx) {
			s := &schnorrSuite{g.Group, alpha.Stream(id)}
			priv := alpha.ToScalar(g.Scalar(), key.V, q)
			pub := g.Point().Mul(priv, nil)
			msg := message(ml)
			sig, err := schnorr.Sign(s, priv, msg)
			if err != nil {
				x.Failf(pk+"/sign", "Sign failed: %v", err)
				return
			}
			c.Eval(1)
			if err := schnorr.Verify(g.Group, pub, msg, sig); err != nil {
				x.Failf(pk+"/honest-rejected", "honest signature rejected: %v", err)
				return
			}
			if sch := schnorr.NewScheme(s); sch.Verify(pub, msg, sig) != nil {
				x.Failf(pk+"/honest-rejected", "honest signature rejected by Scheme.Verify")
			}
			// verification is repeatable and leaves its arguments as they were
			{
				m2, s2 := append([]byte{}, msg...), append([]byte{}, sig...)
				pe := fmod.Enc(pub)
				e1 := schnorr.Verify(g.Group, pub, m2, s2)
				e2 := schnorr.Verify(g.Group, pub, m2, s2)
				if e1 != nil || e2 != nil {
					x.Failf(pk+"/honest-rejected", "honest signature rejected when verified repeatedly (%v, %v)", e1, e2)
				}
				if !bytes.Equal(m2, msg) || !bytes.Equal(s2, sig) || !bytes.Equal(fmod.Enc(pub), pe) {
					x.Failf(pk+"/verify-clobbers-input", "Verify changed its message, signature or key argument (%s)", id)
				}
				m3 := append([]byte{}, msg...)
				sig3, err := schnorr.Sign(s, priv, m3)
				if err != nil || !bytes.Equal(m3, msg) || schnorr.Verify(g.Group, pub, msg, sig3) != nil {
					x.Failf(pk+"/sign-clobbers-input", "a second Sign fails, changes its message argument, or gives a signature that does not verify (%s): %v", id, err)
				}
			}
			pubB, _ := pub.MarshalBinary()
			step := 8
			if full || (c.Thorough() && !g.Slow) {
				step = 1
			}
			if g.Slow && !full {
				step = 24
			}
			// signature mutations
			for bit := 0; bit < len(sig)*8; bit += step {
				b := bit
				if step > 1 {
					b = bit + (bit/8)%8 // a different bit position in each byte
				}
				if b >= len(sig)*8 {
					break
				}
				mut := append([]byte{}, sig...)
				mut[b/8] ^= 1 << (b % 8)
				c.Eval(1)
				if schnorr.Verify(g.Group, pub, msg, mut) == nil && !sameSem(g, sig, mut) {
					x.Failf(pk+"/sig-bitflip-accepted", "signature with bit %d flipped is accepted (%s)", b, id)
					return
				}
				c.Nontrivial(fmt.Sprintf("%s sigflip %d", id, b))
			}
			for _, mut := range [][]byte{sig[:len(sig)-1], append(append([]byte{}, sig...), 0), sig[1:], {}} {
				c.Eval(1)
				if schnorr.Verify(g.Group, pub, msg, mut) == nil {
					x.Failf(pk+"/sig-length-accepted", "signature of length %d accepted (honest length %d)", len(mut), len(sig))
				}
			}
			// key mutations (through the byte-level entry point)
			for bit := 0; bit < len(pubB)*8; bit += step {
				mut := append([]byte{}, pubB...)
				mut[bit/8] ^= 1 << (bit % 8)
				c.Eval(1)
				if schnorr.VerifyWithChecks(g.Group, mut, msg, sig) == nil {
					p2 := g.Point()
					if p2.UnmarshalBinary(mut) != nil || !p2.Equal(pub) {
						x.Failf(pk+"/key-bitflip-accepted", "verification under a key with bit %d flipped succeeds (%s)", bit, id)
						return
					}
				}
			}
			// message mutations
			if ml <= 65 {
				for bit := 0; bit < ml*8; bit++ {
					mut := append([]byte{}, msg...)
					mut[bit/8] ^= 1 << (bit % 8)
					c.Eval(1)
					if schnorr.Verify(g.Group, pub, mut, sig) == nil {
						x.Failf(pk+"/msg-bitflip-accepted", "signature verifies for the message with bit %d flipped (%s)", bit, id)
						return
					}
				}
			}
			for _, mut := range [][]byte{append(append([]byte{}, msg...), 0), append([]byte{0}, msg...)} {
				if schnorr.Verify(g.Group, pub, mut, sig) == nil {
					x.Failf(pk+"/msg-extended-accepted", "signature verifies for an extended message (%s)", id)
				}
			}
			if ml > 0 && schnorr.Verify(g.Group, pub, msg[:ml-1], sig) == nil {
				x.Failf(pk+"/msg-truncated-accepted", "signature verifies for a truncated message (%s)", id)
			}
			// structured alterations: negated response, negated commitment, negated key, R and S of another signature
			pl := g.Group.PointLen()
			if len(sig) == pl+g.Group.ScalarLen() {
				R, S := g.Point(), g.Scalar()
				if R.UnmarshalBinary(sig[:pl]) == nil && S.UnmarshalBinary(sig[pl:]) == nil {
					nS, _ := g.Scalar().Neg(S).MarshalBinary()
					nR, _ := g.Point().Neg(R).MarshalBinary()
					for nm, mut := range map[string][]byte{
						"S negated":       append(append([]byte{}, sig[:pl]...), nS...),
						"R negated":       append(append([]byte{}, nR...), sig[pl:]...),
						"R and S negated": append(append([]byte{}, nR...), nS...),
					} {
						c.Eval(1)
						// (judged by bytes: a negation that leaves the encoding unchanged - S = 0, R of order <= 2 - is no alteration)
						if !bytes.Equal(mut, sig) && schnorr.Verify(g.Group, pub, msg, mut) == nil {
							x.Failf(pk+"/sig-altered-accepted", "signature with %s is accepted (%s)", nm, id)
						}
					}
					if schnorr.Verify(g.Group, g.Point().Neg(pub), msg, sig) == nil && !g.Point().Neg(pub).Equal(pub) {
						x.Failf(pk+"/other-key-accepted", "signature verifies under the negated key (%s)", id)
					}
				}
			}
			// another key
			other := g.Point().Mul(alpha.ToScalar(g.Scalar(), new(big.Int).Add(key.V, big.NewInt(1)), q), nil)
			if schnorr.Verify(g.Group, other, msg, sig) == nil {
				x.Failf(pk+"/other-key-accepted", "signature verifies under another key (%s)", id)
			}
		})
		c.Count("transitions", 1)
		c.Count("states", 1)
		c.Count("traces_validated_against_impl", 1)
		c.Class("schnorr/"+g.Name, func() any { return id })
	}
}

// the 8 small-order points of Ed25519 in canonical and non-canonical encodings
var smallOrder = []string{
	"0100000000000000000000000000000000000000000000000000000000000000", // (0,1) order 1
	"ecffffffffffffffffffffffffffffffffffffffffffffffffffffffffffff7f", // (0,-1) order 2
	"0000000000000000000000000000000000000000000000000000000000000000", // order 4
	"0000000000000000000000000000000000000000000000000000000000000080", // order 4
	"c7176a703d4dd84fba3c0b760d10670f2a2053fa2c39ccc64ec7fd7792ac037a", // order 8
	"c7176a703d4dd84fba3c0b760d10670f2a2053fa2c39ccc64ec7fd7792ac03fa", // order 8
	"26e8958fc2b227b045c3f489f2ef98f0d5dfac05d3c63339b13802886d53fc05", // order 8
	"26e8958fc2b227b045c3f489f2ef98f0d5dfac05d3c63339b13802886d53fc85", // order 8
	"0100000000000000000000000000000000000000000000000000000000000080", // (-0,1) non-canonical sign
	"ecffffffffffffffffffffffffffffffffffffffffffffffffffffffffffffff", // (-0,-1)
	"eeffffffffffffffffffffffffffffffffffffffffffffffffffffffffffff7f", // y = p+1
	"eeffffffffffffffffffffffffffffffffffffffffffffffffffffffffffffff",
	"edffffffffffffffffffffffffffffffffffffffffffffffffffffffffffff7f", // y = p
	"edffffffffffffffffffffffffffffffffffffffffffffffffffffffffffffff",
}

func unhex(s string) []byte { b, _ := hex.DecodeString(s); return b }

// runSmallOrder: every (A,R) pair of small-order encodings, S = 0 and S = 1..7,
// 8 messages: an accepting verifier would accept a key-independent forgery.
func runSmallOrder(c *vf.Check, which int) {
	ed := edwards25519.NewBlakeSHA256Ed25519()
	name := []string{"schnorr.VerifyWithChecks", "eddsa.VerifyWithChecks"}[which]
	pk := "C08/ed25519-small-order/" + name
	verify := func(pub, msg, sig []byte) error {
		if which == 0 {
			return schnorr.VerifyWithChecks(ed, pub, msg, sig)
		}
		return eddsa.VerifyWithChecks(pub, msg, sig)
	}
	for ai, A := range smallOrder {
		ai, A := ai, A
		id := fmt.Sprintf("%s small-order A=%s..", name, A[:8]+A[56:])
		c.Case(id, pk, func(x *vf.Ctx) {
			for _, R := range smallOrder {
				for sv := 0; sv < 2; sv++ {
					for mi := 0; mi < 24; mi++ {
						sig := append(unhex(R), make([]byte, 32)...)
						sig[32] = byte(sv)
						msg := []byte(fmt.Sprintf("small-order message %d", mi))
						c.Eval(1)
						if verify(unhex(A), msg, sig) == nil {
							x.Failf(pk+"/accepted", "A=%s R=%s S=%d msg=%q is accepted (small-order / non-canonical key or R)", A, R, sv, msg)
							return
						}
						// differential: whatever kyber accepts, crypto/ed25519 must accept too (vacuous when kyber rejects)
					}
				}
			}
			// key-independent forgery for a small-order key alone: R = k*B, S = k satisfies S*B = R + h*A whenever
			// h*A = O (always for the identity, with probability 1/order otherwise): R is an ordinary point here
			kb := alpha.ToScalar(ed.Scalar(), alpha.Rand("c08-so-k", groups.OrderEd25519), groups.OrderEd25519)
			Rb, _ := ed.Point().Mul(kb, nil).MarshalBinary()
			Sb, _ := kb.MarshalBinary()
			for mi := 0; mi < 64; mi++ {
				msg := []byte(fmt.Sprintf("small-order key message %d", mi))
				c.Eval(1)
				if verify(unhex(A), msg, append(append([]byte{}, Rb...), Sb...)) == nil {
					x.Failf(pk+"/accepted", "A=%s with R=k*B, S=k, msg=%q is accepted (small-order / non-canonical public key)", A, msg)
					return
				}
			}
			// a valid signature, R or A then replaced by each small-order encoding
			e := eddsa.NewEdDSA(alpha.Stream("c08-so"))
			msg := []byte("m")
			sig, _ := e.Sign(msg)
			pub, _ := e.Public.MarshalBinary()
			mut := append(unhex(A), sig[32:]...)
			if verify(pub, msg, mut) == nil {
				x.Failf(pk+"/R-replaced-accepted", "valid signature with R replaced by %s accepted", A)
			}
			if verify(unhex(A), msg, sig) == nil {
				x.Failf(pk+"/A-replaced-accepted", "valid signature verifies under small-order key %s", A)
			}
		})
		c.Count("transitions", 1)
		c.Nontrivial(id)
		_ = ai
	}
}

// runSPlusL: S + k*l for every k while the sum fits 256 bits.
func runSPlusL(c *vf.Check) {
	ed := edwards25519.NewBlakeSHA256Ed25519()
	pk := "C08/ed25519-S-malleability"
	l := groups.OrderEd25519
	// S+l over a family of 3000 signatures under one key: a canonicity test that is wrong for a small fraction of
	// the values in [l, 2^253) shows only on many different S
	for blk := 0; blk < 3000; blk += 250 {
		blk := blk
		id := fmt.Sprintf("S+l on the signatures of messages %d..%d", blk, blk+249)
		c.Case(id, pk, func(x *vf.Ctx) {
			e := eddsa.NewEdDSA(alpha.Stream("c08-spl-family"))
			pub, _ := e.Public.MarshalBinary()
			for i := blk; i < blk+250; i++ {
				msg := []byte(fmt.Sprintf("message %d", i))
				sig, _ := e.Sign(msg)
				S := new(big.Int).SetBytes(rev(sig[32:]))
				v := new(big.Int).Add(S, l)
				if v.BitLen() > 256 {
					continue
				}
				mut := append(append([]byte{}, sig[:32]...), rev(v.FillBytes(make([]byte, 32)))...)
				c.Eval(2)
				if eddsa.VerifyWithChecks(pub, msg, mut) == nil || schnorr.VerifyWithChecks(ed, pub, msg, mut) == nil {
					x.Failf(pk+"/accepted", "%s: S+l accepted for the signature on %q", id, msg)
					return
				}
			}
		})
		c.Count("transitions", 250)
		c.Nontrivial(id)
	}
	// many key objects alive at the same time: each must keep signing exactly like crypto/ed25519
	c.Case("eddsa: 48 key objects created first, then used", "C08/eddsa-vs-stdlib", func(x *vf.Ctx) {
		var es []*eddsa.EdDSA
		var seeds [][]byte
		for i := 0; i < 48; i++ {
			seed := alpha.Bytes(fmt.Sprintf("c08-alive-%d", i), 32)
			if i%2 == 0 {
				e := new(eddsa.EdDSA)
				if err := e.UnmarshalBinary(append(append([]byte{}, seed...), make([]byte, 32)...)); err != nil {
					x.Failf("C08/eddsa-vs-stdlib/load", "UnmarshalBinary: %v", err)
					return
				}
				es, seeds = append(es, e), append(seeds, seed)
			} else {
				// a key made from a stream: its seed is what MarshalBinary exports
				ne := eddsa.NewEdDSA(alpha.Stream(fmt.Sprintf("c08-alive-stream-%d", i)))
				b, _ := ne.MarshalBinary()
				es, seeds = append(es, ne), append(seeds, append([]byte{}, b[:32]...))
			}
		}
		for round := 0; round < 2; round++ {
			for i, e := range es {
				msg := []byte(fmt.Sprintf("alive %d %d", i, round))
				sig, err := e.Sign(msg)
				c.Eval(1)
				if err != nil {
					x.Failf("C08/eddsa-vs-stdlib/sign", "Sign: %v", err)
					return
				}
				if want := ed25519.Sign(ed25519.NewKeyFromSeed(seeds[i]), msg); !bytes.Equal(sig, want) {
					x.Failf("C08/eddsa-vs-stdlib/signature-bytes", "key object #%d of 48 alive at the same time: signature differs from crypto/ed25519 (round %d)", i, round)
					return
				}
			}
		}
	})
	for si := 0; si < 8; si++ {
		si := si
		id := fmt.Sprintf("S+k*l seed %d", si)
		c.Case(id, pk, func(x *vf.Ctx) {
			e := eddsa.NewEdDSA(alpha.Stream(fmt.Sprintf("c08-spl-%d", si)))
			msg := message(si * 9)
			sig, _ := e.Sign(msg)
			pub, _ := e.Public.MarshalBinary()
			if eddsa.VerifyWithChecks(pub, msg, sig) != nil || schnorr.VerifyWithChecks(ed, pub, msg, sig) != nil {
				x.Failf(pk+"/honest-rejected", "honest EdDSA signature rejected")
				return
			}
			S := new(big.Int).SetBytes(rev(sig[32:]))
			for k := int64(1); ; k++ {
				v := new(big.Int).Add(S, new(big.Int).Mul(big.NewInt(k), l))
				if v.BitLen() > 256 {
					break
				}
				mut := append(append([]byte{}, sig[:32]...), rev(v.FillBytes(make([]byte, 32)))...)
				c.Eval(2)
				if eddsa.VerifyWithChecks(pub, msg, mut) == nil || eddsa.Verify(e.Public, msg, mut) == nil {
					x.Failf(pk+"/eddsa-accepted", "EdDSA accepts S+%d*l (second encoding of a valid signature)", k)
				}
				if schnorr.VerifyWithChecks(ed, pub, msg, mut) == nil || schnorr.Verify(ed, e.Public, msg, mut) == nil {
					x.Failf(pk+"/schnorr-accepted", "Schnorr on Ed25519 accepts S+%d*l (second encoding of a valid signature)", k)
				}
				if ed25519.Verify(pub, msg, mut) {
					c.Note("crypto/ed25519 accepts S+k*l ?!")
				}
				c.Nontrivial(fmt.Sprintf("%s k=%d", id, k))
			}
		})
		c.Count("transitions", 1)
	}
}

func rev(b []byte) []byte {
	r := make([]byte, len(b))
	for i := range b {
		r[len(b)-1-i] = b[i]
	}
	return r
}

// runEdDSADiff: seeds x message lengths against crypto/ed25519.
func runEdDSADiff(c *vf.Check, from, to int) {
	pk := "C08/eddsa-vs-stdlib"
	lens := []int{0, 1, 2, 31, 32, 33, 63, 64, 65, 127, 128, 4096}
	for si := from; si < to; si++ {
		si := si
		var seed []byte
		switch {
		case si == 0:
			seed = make([]byte, 32)
		case si == 1:
			seed = bytes.Repeat([]byte{0xff}, 32)
		case si < 10:
			seed = make([]byte, 32)
			seed[(si-2)*4] = byte(1 << (si % 8))
		default:
			seed = alpha.Bytes(fmt.Sprintf("c08-seed-%d", si), 32)
		}
		id := fmt.Sprintf("eddsa seed #%d %x..", si, seed[:6])
		c.Case(id, pk, func(x *vf.Ctx) {
			var e eddsa.EdDSA
			if err := e.UnmarshalBinary(append(append([]byte{}, seed...), make([]byte, 32)...)); err != nil {
				x.Failf(pk+"/load", "UnmarshalBinary: %v", err)
				return
			}
			std := ed25519.NewKeyFromSeed(seed)
			pub, _ := e.Public.MarshalBinary()
			if !bytes.Equal(pub, std.Public().(ed25519.PublicKey)) {
				x.Failf(pk+"/public-key", "public key %x differs from crypto/ed25519's %x", pub, std.Public())
				return
			}
			for _, ml := range lens {
				msg := message(ml)
				sig, err := e.Sign(msg)
				c.Eval(1)
				if err != nil {
					x.Failf(pk+"/sign", "Sign: %v", err)
					return
				}
				sig2, _ := e.Sign(msg)
				if !bytes.Equal(sig, sig2) {
					x.Failf(pk+"/deterministic", "two signatures of the same message differ")
				}
				want := ed25519.Sign(std, msg)
				if !bytes.Equal(sig, want) {
					x.Failf(pk+"/signature-bytes", "signature differs from crypto/ed25519 (msglen %d)", ml)
					return
				}
				if eddsa.Verify(e.Public, msg, sig) != nil {
					x.Failf(pk+"/honest-rejected", "own signature rejected (msglen %d)", ml)
				}
				// mutants: kyber accepts => stdlib accepts
				for i := 0; i < 64; i++ {
					mut := append([]byte{}, sig...)
					mut[i] ^= 1 << ((i + si) % 8)
					c.Eval(1)
					if eddsa.Verify(e.Public, msg, mut) == nil && !ed25519.Verify(pub, msg, mut) {
						x.Failf(pk+"/accepts-more-than-stdlib", "signature with byte %d mutated accepted by kyber, rejected by crypto/ed25519", i)
						return
					}
					if eddsa.Verify(e.Public, msg, mut) == nil {
						x.Failf(pk+"/sig-bitflip-accepted", "signature with byte %d mutated accepted", i)
						return
					}
				}
				// structured alterations: S replaced by l-S, R by -R (math/big and the group code respectively)
				{
					L := groups.OrderEd25519
					sv := new(big.Int).SetBytes(rev(sig[32:]))
					ns := new(big.Int).Mod(new(big.Int).Neg(sv), L)
					negS := append(append([]byte{}, sig[:32]...), rev(ns.FillBytes(make([]byte, 32)))...)
					edg := edwards25519.NewBlakeSHA256Ed25519()
					R := edg.Point()
					if R.UnmarshalBinary(sig[:32]) == nil {
						nR, _ := edg.Point().Neg(R).MarshalBinary()
						negR := append(append([]byte{}, nR...), sig[32:]...)
						for nm, mut := range map[string][]byte{"S -> l-S": negS, "R -> -R": negR} {
							c.Eval(1)
							if bytes.Equal(mut, sig) {
								continue
							}
							if eddsa.Verify(e.Public, msg, mut) == nil {
								x.Failf(pk+"/sig-altered-accepted", "signature with %s accepted by kyber (crypto/ed25519 accepts: %v)", nm, ed25519.Verify(pub, msg, mut))
								return
							}
						}
					}
				}
				if ml > 0 {
					m2 := append([]byte{}, msg...)
					m2[ml/2] ^= 0x10
					if eddsa.Verify(e.Public, m2, sig) == nil {
						x.Failf(pk+"/msg-bitflip-accepted", "signature verifies for a different message")
					}
				}
				c.Nontrivial(fmt.Sprintf("%s len%d", id, ml))
			}
			// re-loading another key into the same object, then signing
			var e2 eddsa.EdDSA
			_ = e2.UnmarshalBinary(append(bytes.Repeat([]byte{0x42}, 32), make([]byte, 32)...))
			_, _ = e2.Sign([]byte("warm-up"))
			_ = e2.UnmarshalBinary(append(append([]byte{}, seed...), make([]byte, 32)...))
			s3, _ := e2.Sign(message(33))
			if !bytes.Equal(s3, ed25519.Sign(std, message(33))) {
				x.Failf(pk+"/reload", "after Sign with key A, UnmarshalBinary(key B), Sign: signature differs from crypto/ed25519 for key B")
			}
		})
		c.Count("transitions", 1)
	}
}

type ringSuite struct {
	anon.Suite
	rs cipher.Stream
}

func (r *ringSuite) RandomStream() cipher.Stream { return r.rs }

func ringBase(name string) anon.Suite {
	switch name {
	case "ed25519":
		return edwards25519.NewBlakeSHA256Ed25519()
	case "p256":
		return p256.NewBlakeSHA256P256()
	default:
		return bn256.NewSuiteG1()
	}
}

func runRing(c *vf.Check, sname string, n int) {
	pk := "C08/ring/" + sname
	base := ringBase(sname)
	g := groups.ByName(sname)
	q := g.Order
	var privs []kyber.Scalar
	var set anon.Set
	for i := 0; i < n+1; i++ {
		s := alpha.ToScalar(base.Scalar(), alpha.Rand(fmt.Sprintf("c08-ring-%d", i), q), q)
		privs = append(privs, s)
		set = append(set, base.Point().Mul(s, nil))
	}
	ring := set[:n]
	scopes := [][]byte{nil, {}, []byte("a"), []byte("b")}
	msgs := [][]byte{[]byte("ring message one"), {}}
	sl, pl := base.ScalarLen(), base.PointLen()
	tags := map[string][]byte{} // signer|scope -> tag
	for mine := 0; mine < n; mine++ {
		for si, scope := range scopes {
			for mi, msg := range msgs {
				mine, si, scope, mi, msg := mine, si, scope, mi, msg
				id := fmt.Sprintf("ring %s n=%d signer=%d scope=%d msg=%d", sname, n, mine, si, mi)
				c.Case(id, pk, func(x *vf.Ctx) {
					s := &ringSuite{base, alpha.Stream(id)}
					sig := anon.Sign(s, msg, ring, scope, mine, privs[mine])
					c.Eval(1)
					tag, err := anon.Verify(s, msg, ring, scope, sig)
					if err != nil {
						x.Failf(pk+"/honest-rejected", "%s: honest ring signature rejected: %v", id, err)
						return
					}
					wantLen := sl * (n + 1)
					if scope != nil {
						wantLen += pl
					}
					if len(sig) != wantLen {
						x.Failf(pk+"/layout", "signature has %d bytes, expected %d", len(sig), wantLen)
						return
					}
					if scope != nil {
						k := fmt.Sprintf("%d|%d", mine, si)
						if old, ok := tags[k]; ok && !bytes.Equal(old, tag) {
							x.Failf(pk+"/tag-unstable", "same key and scope, different tags across messages")
						}
						tags[k] = tag
						for k2, t2 := range tags {
							if k2 != k && bytes.Equal(t2, tag) {
								x.Failf(pk+"/tag-collision", "tags equal for (signer|scope) %s and %s", k, k2)
							}
						}
						// same key in a larger ring: same tag
						if n < len(set) {
							sig2 := anon.Sign(s, msg, set, scope, mine, privs[mine])
							tag2, err := anon.Verify(s, msg, set, scope, sig2)
							if err != nil || !bytes.Equal(tag2, tag) {
								x.Failf(pk+"/tag-ring-size", "tag changes with the ring size (err=%v)", err)
							}
						}
					} else if len(tag) != 0 {
						x.Failf(pk+"/tag", "unlinkable signature returned a tag")
					}
					// component replacement: every scalar chunk replaced by its value+1, tag by another point
					for ch := 0; ch <= n; ch++ {
						mut := append([]byte{}, sig...)
						v := base.Scalar()
						_ = v.UnmarshalBinary(mut[ch*sl : (ch+1)*sl])
						v.Add(v, base.Scalar().One())
						vb, _ := v.MarshalBinary()
						copy(mut[ch*sl:], vb)
						c.Eval(1)
						if _, err := anon.Verify(s, msg, ring, scope, mut); err == nil {
							x.Failf(pk+"/component-accepted", "%s: scalar component %d replaced by value+1 is accepted", id, ch)
						}
					}
					if scope != nil {
						mut := append([]byte{}, sig...)
						ob, _ := set[(mine+1)%len(set)].MarshalBinary()
						copy(mut[sl*(n+1):], ob)
						if _, err := anon.Verify(s, msg, ring, scope, mut); err == nil {
							x.Failf(pk+"/tag-replaced-accepted", "%s: tag replaced by another point is accepted", id)
						}
					}
					// one bit per byte
					for i := 0; i < len(sig); i++ {
						mut := append([]byte{}, sig...)
						mut[i] ^= 1 << (i % 8)
						c.Eval(1)
						if _, err := anon.Verify(s, msg, ring, scope, mut); err == nil {
							// same semantic value? (non-canonical scalar encodings that reduce to the same value)
							if !ringSame(base, sig, mut, n, scope != nil) {
								x.Failf(pk+"/sig-bitflip-accepted", "%s: signature with byte %d mutated is accepted", id, i)
								return
							}
						}
					}
					for _, mut := range [][]byte{sig[:len(sig)-1], sig[:sl], {}} {
						func() {
							defer func() {
								if r := recover(); r != nil {
									x.Failf(pk+"/truncated-panic", "%s: truncated signature (%d bytes) panics: %v", id, len(mut), r)
								}
							}()
							if _, err := anon.Verify(s, msg, ring, scope, mut); err == nil {
								x.Failf(pk+"/truncated-accepted", "%s: truncated signature (%d bytes) accepted", id, len(mut))
							}
						}()
					}
					// other message, other ring member, other scope
					if _, err := anon.Verify(s, append([]byte("x"), msg...), ring, scope, sig); err == nil {
						x.Failf(pk+"/other-message-accepted", "%s: verifies for another message", id)
					}
					for j := 0; j < n; j++ {
						r2 := append(anon.Set{}, ring...)
						r2[j] = set[n]
						if _, err := anon.Verify(s, msg, r2, scope, sig); err == nil {
							x.Failf(pk+"/other-ring-accepted", "%s: verifies for a ring with member %d replaced", id, j)
						}
					}
					if scope != nil {
						if _, err := anon.Verify(s, msg, ring, []byte("other-scope"), sig); err == nil {
							x.Failf(pk+"/other-scope-accepted", "%s: verifies under another scope", id)
						}
					}
				})
				c.Count("transitions", 1)
				c.Nontrivial(id)
				c.Class("ring/"+sname, func() any { return id })
			}
		}
	}
}

func ringSame(s anon.Suite, sig, mut []byte, n int, linkable bool) bool {
	sl := s.ScalarLen()
	for ch := 0; ch <= n; ch++ {
		a, b := s.Scalar(), s.Scalar()
		if a.UnmarshalBinary(sig[ch*sl:(ch+1)*sl]) != nil || b.UnmarshalBinary(mut[ch*sl:(ch+1)*sl]) != nil {
			return false
		}
		if alpha.FromScalar(a).Cmp(alpha.FromScalar(b)) != 0 {
			return false
		}
	}
	if linkable {
		a, b := s.Point(), s.Point()
		if a.UnmarshalBinary(sig[sl*(n+1):]) != nil || b.UnmarshalBinary(mut[sl*(n+1):]) != nil || !a.Equal(b) {
			return false
		}
	}
	return true
}
