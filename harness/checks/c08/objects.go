package c08

import (
	"bytes"
	"crypto/ed25519"
	"fmt"
	"math/big"
	"strings"

	"go.dedis.ch/kyber/v4"
	"go.dedis.ch/kyber/v4/sign/eddsa"
	"go.dedis.ch/kyber/v4/sign/schnorr"
	"verif/harness/alpha"
	"verif/harness/groups"
	"verif/harness/vf"
)

// Signing *objects* used over several calls (engine S, stateless, no merging): every operation sequence up to the
// depth over a small menu is run on a fresh object; every signature handed out during the sequence is kept and judged
// only at the end - a signature must stay what it was when it was returned, and must belong to the key the object (or
// the caller's scalar variable) held at that moment.

// runSchnorrObject: a schnorr.NewScheme value and two caller-owned scalar variables.
func runSchnorrObject(c *vf.Check, gname string, depth int) {
	pk := "C08/schnorr-object/" + gname
	g := groups.ByName(gname)
	q := g.Order
	ops := []string{"sign(K,a)", "sign(K,b)", "sign(K2,a)", "K+=1", "K.Set(K2)", "K.Pick", "keypair->K", "verify-held"}
	var seqs [][]int
	var gen func(pre []int)
	gen = func(pre []int) {
		if len(pre) > 0 {
			seqs = append(seqs, append([]int{}, pre...))
		}
		if len(pre) == depth {
			return
		}
		for o := range ops {
			gen(append(pre, o))
		}
	}
	gen(nil)
	for _, seq := range seqs {
		seq := seq
		signs := 0
		var names []string
		for _, o := range seq {
			names = append(names, ops[o])
			if o <= 2 {
				signs++
			}
		}
		if signs == 0 || seq[len(seq)-1] > 2 && seq[len(seq)-1] != 7 {
			continue // nothing signed, or a trailing key edit nobody observes
		}
		id := fmt.Sprintf("schnorr object %s: %s", gname, strings.Join(names, " ; "))
		c.Case(id, pk, func(x *vf.Ctx) {
			s := &schnorrSuite{g.Group, alpha.Stream(id)}
			sch := schnorr.NewScheme(s)
			K := alpha.ToScalar(g.Scalar(), alpha.Rand("c08-obj-k", q), q)
			K2 := alpha.ToScalar(g.Scalar(), alpha.Rand("c08-obj-k2", q), q)
			one := g.Scalar().One()
			type held struct {
				sig, sigCopy, msg []byte
				pub               kyber.Point
				step              int
			}
			var hs []held
			check := func(when string) bool {
				for _, h := range hs {
					c.Eval(1)
					if !bytes.Equal(h.sig, h.sigCopy) {
						x.Failf(pk+"/signature-changed-later", "%s: the signature returned at step %d was changed by later calls (%s)", id, h.step, when)
						return false
					}
					if err := schnorr.Verify(g.Group, h.pub, h.msg, h.sig); err != nil {
						x.Failf(pk+"/honest-rejected", "%s: the signature made at step %d does not verify under the public key of the scalar it was made with (%s): %v", id, h.step, when, err)
						return false
					}
					if err := sch.Verify(h.pub, h.msg, h.sig); err != nil {
						x.Failf(pk+"/honest-rejected", "%s: Scheme.Verify rejects the signature made at step %d (%s): %v", id, h.step, when, err)
						return false
					}
				}
				return true
			}
			for step, o := range seq {
				switch o {
				case 0, 1, 2:
					k, m := K, message(5)
					if o == 1 {
						m = message(40)
					}
					if o == 2 {
						k = K2
					}
					before, _ := k.MarshalBinary()
					sig, err := sch.Sign(k, m)
					if err != nil {
						x.Failf(pk+"/sign", "%s: Sign: %v", id, err)
						return
					}
					if after, _ := k.MarshalBinary(); !bytes.Equal(before, after) {
						x.Failf(pk+"/key-changed", "%s: Sign changed the caller's private scalar", id)
						return
					}
					// the public key is computed by the harness from the encoding the scalar had at that moment
					kc := g.Scalar()
					_ = kc.UnmarshalBinary(before)
					hs = append(hs, held{sig, append([]byte{}, sig...), m, g.Point().Mul(kc, nil), step})
				case 3:
					K.Add(K, one)
				case 4:
					K.Set(K2)
				case 5:
					K.Pick(alpha.Stream(fmt.Sprintf("%s pick %d", id, step)))
				case 6:
					nk, np := sch.NewKeyPair(alpha.Stream(fmt.Sprintf("%s keypair %d", id, step)))
					if !np.Equal(g.Point().Mul(nk, nil)) {
						x.Failf(pk+"/keypair", "%s: NewKeyPair returns a public key that is not private*B", id)
						return
					}
					K = nk
				case 7:
					if !check("in the middle") {
						return
					}
				}
			}
			check("at the end")
		})
		c.Count("transitions", int64(len(seq)))
		c.Nontrivial(id)
		c.Class("schnorr-object/"+gname, func() any { return id })
	}
}

// runEdDSAObject: one eddsa.EdDSA value signing several messages, re-loaded with another key, marshalled in between.
func runEdDSAObject(c *vf.Check, depth int) {
	pk := "C08/eddsa-object"
	ops := []string{"sign(a)", "sign(b)", "sign(c)", "load(key2)", "load(key1)", "marshal+load(own)", "verify-held"}
	seedsOf := [][]byte{alpha.Bytes("c08-obj-seed1", 32), alpha.Bytes("c08-obj-seed2", 32)}
	msgs := [][]byte{message(0), message(33), message(200)}
	var seqs [][]int
	var gen func(pre []int)
	gen = func(pre []int) {
		if len(pre) > 0 {
			seqs = append(seqs, append([]int{}, pre...))
		}
		if len(pre) == depth {
			return
		}
		for o := range ops {
			gen(append(pre, o))
		}
	}
	gen(nil)
	for _, seq := range seqs {
		seq := seq
		signs := 0
		var names []string
		for _, o := range seq {
			names = append(names, ops[o])
			if o <= 2 {
				signs++
			}
		}
		if signs == 0 || seq[len(seq)-1] > 2 && seq[len(seq)-1] != 6 {
			continue
		}
		id := "eddsa object: " + strings.Join(names, " ; ")
		c.Case(id, pk, func(x *vf.Ctx) {
			var e eddsa.EdDSA
			load := func(seed []byte) bool {
				if err := e.UnmarshalBinary(append(append([]byte{}, seed...), make([]byte, 32)...)); err != nil {
					x.Failf(pk+"/load", "%s: UnmarshalBinary: %v", id, err)
					return false
				}
				return true
			}
			cur := 0
			if !load(seedsOf[0]) {
				return
			}
			type held struct {
				sig, want, msg []byte
				pub            ed25519.PublicKey
				step           int
			}
			var hs []held
			check := func(when string) bool {
				for _, h := range hs {
					c.Eval(1)
					if !bytes.Equal(h.sig, h.want) {
						x.Failf(pk+"/signature-bytes", "%s: the signature returned at step %d is not (or no longer) the RFC 8032 signature of crypto/ed25519 (%s)", id, h.step, when)
						return false
					}
					if err := eddsa.VerifyWithChecks(h.pub, h.msg, h.sig); err != nil {
						x.Failf(pk+"/honest-rejected", "%s: the signature made at step %d is rejected (%s): %v", id, h.step, when, err)
						return false
					}
				}
				return true
			}
			for step, o := range seq {
				switch o {
				case 0, 1, 2:
					sig, err := e.Sign(msgs[o])
					if err != nil {
						x.Failf(pk+"/sign", "%s: Sign: %v", id, err)
						return
					}
					std := ed25519.NewKeyFromSeed(seedsOf[cur])
					hs = append(hs, held{sig, ed25519.Sign(std, msgs[o]), msgs[o], std.Public().(ed25519.PublicKey), step})
				case 3, 4:
					cur = 4 - o // load(key2) -> 1, load(key1) -> 0
					if !load(seedsOf[cur]) {
						return
					}
				case 5:
					b, err := e.MarshalBinary()
					if err != nil || len(b) != 64 || !bytes.Equal(b[:32], seedsOf[cur]) {
						x.Failf(pk+"/marshal", "%s: MarshalBinary = %x, %v (expected the seed followed by the public key)", id, b, err)
						return
					}
					buf := append([]byte{}, b...)
					if err := e.UnmarshalBinary(buf); err != nil {
						x.Failf(pk+"/load", "%s: UnmarshalBinary(MarshalBinary()): %v", id, err)
						return
					}
					// (the buffer is left alone: EdDSA.UnmarshalBinary keeps a slice of it as the seed that a later
					// MarshalBinary returns - real, but key serialisation is outside the statement of C08; DESIGN section 8)
				case 6:
					if !check("in the middle") {
						return
					}
				}
			}
			check("at the end")
		})
		c.Count("transitions", int64(len(seq)))
		c.Nontrivial(id)
		c.Class("eddsa-object", func() any { return id })
	}
	_ = big.NewInt
}
