// Package c03: encodings are fixed-length, canonical and round-trip, for every
// point representation reachable through the API and every reduced scalar,
// through MarshalBinary/UnmarshalBinary, MarshalTo/UnmarshalFrom under a
// reader-behaviour alphabet, and the hexadecimal helpers.
package c03

import (
	"bytes"
	"encoding/hex"
	"fmt"
	"io"
	"math/big"
	"strings"
	"testing/iotest"

	"go.dedis.ch/kyber/v4"
	kenc "go.dedis.ch/kyber/v4/util/encoding"
	"verif/harness/alpha"
	"verif/harness/fmod"
	"verif/harness/groups"
	"verif/harness/vf"
)

func Run(c *vf.Check) {
	c.Level = "model_checking"
	gs := groups.All()
	vf.Parallel(len(gs), func(i int) {
		runPoints(c, gs[i])
		runScalars(c, gs[i])
	})
	runAdvertised(c)
	runSmallCoordinates(c)
	runCustomDST(c)
	c.Finish("engine S/E: per group, the closure R of API-reachable point representations (seeds, sums, negations, multiples incl. Mul(s,nil), decoded forms) and the reduced scalar set (alphabet S(q) + arithmetic results). "+
		"Per value: encoding length = MarshalSize = PointLen/ScalarLen; decode into receivers in 4 prior states (fresh, identity, base, projective sum) succeeds, is Equal, re-encodes identically; MarshalTo writes exactly the bytes; "+
		"UnmarshalFrom under readers {whole, one-byte, half, data+EOF, trailing data} gives the value and under {one byte short, empty} an error; hex helpers (ToStringHex/StringHexTo/ReadHex/WriteHex) carry exactly hex(bytes); encoding twice is identical and leaves the value Equal to a prior copy; all pairs: Equal <=> identical bytes <=> model equality. "+
		"Advertised lengths on every exported configuration of edwards25519vartime ({Curve1174, Ed25519, E-382, Curve41417, E-521, and Ed448-Goldilocks supplied as a caller's Param - 57-byte points} x {projective, extended} x {prime-order subgroup, full group}): encodings of points and scalars have exactly PointLen / ScalarLen bytes and round-trip. Points of P-256, bn256.G1 and bn254.G1 with x in 0..399 (up to 24 per curve, both signs of y; leading zero bytes in the fixed-width encoding) built from the curve equation: decoded, re-encoded through every encoder, negated, and reached by arithmetic. kilic G1/G2 groups with a caller-supplied tag: originals, clones, decoded copies: Equal <=> identical bytes. non-trivial = value is not the identity/zero; distinct by (group, value expression, sub-check)",
		[]string{"model equality of points is decided by the free-module model of C01", "readers are io.Reader-conformant (testing/iotest)"}, nil)
}

type readerKind struct {
	name string
	mk   func(b []byte) io.Reader
	ok   bool // must succeed with the value
}

var readers = []readerKind{
	{"whole", func(b []byte) io.Reader { return bytes.NewReader(b) }, true},
	{"one-byte", func(b []byte) io.Reader { return iotest.OneByteReader(bytes.NewReader(b)) }, true},
	{"half", func(b []byte) io.Reader { return iotest.HalfReader(bytes.NewReader(b)) }, true},
	{"data+EOF", func(b []byte) io.Reader { return iotest.DataErrReader(bytes.NewReader(b)) }, true},
	{"trailing", func(b []byte) io.Reader { return bytes.NewReader(append(append([]byte{}, b...), 0xAA, 0xBB)) }, true},
	{"short-by-1", func(b []byte) io.Reader {
		if len(b) == 0 {
			return bytes.NewReader(nil)
		}
		return bytes.NewReader(b[:len(b)-1])
	}, false},
	{"empty", func(b []byte) io.Reader { return bytes.NewReader(nil) }, false},
}

type countWriter struct {
	bytes.Buffer
	calls int
}

func (w *countWriter) Write(p []byte) (int, error) { w.calls++; return w.Buffer.Write(p) }

func runPoints(c *vf.Check, g *groups.G) {
	pk := "C03/" + g.Name
	var m *fmod.Model
	var R []fmod.V
	ok := false
	c.Case(g.Name+": value set", pk+"/setup", func(x *vf.Ctx) {
		m = fmod.New(g)
		lvl, maxR := 1, 100
		if c.Thorough() {
			lvl, maxR = 2, 160
		}
		if g.Slow && !c.Thorough() {
			maxR = 40
		}
		S := alpha.Scalars(g.Order, lvl)
		if g.Slow && !c.Thorough() {
			S = S[:8]
		}
		R = m.Closure(S, maxR)
		ok = true
	})
	if !ok {
		return
	}
	plen := g.Group.PointLen()
	receivers := []struct {
		name string
		mk   func() kyber.Point
	}{
		{"fresh", func() kyber.Point { return g.Point() }},
		{"identity", func() kyber.Point { return g.Point().Null() }},
		{"base", func() kyber.Point { return g.Gen().Clone() }},
		{"sum", func() kyber.Point { return g.Point().Add(m.Gens[0], m.Gens[len(m.Gens)-1]) }},
	}
	encs := make([][]byte, len(R))
	for i, v := range R {
		i, v := i, v
		c.Case(g.Name+": point "+v.Name, pk+"/point", func(x *vf.Ctx) {
			before := m.Canon(v.Vec)
			b, err := v.P.MarshalBinary()
			if err != nil {
				x.Failf(pk+"/MarshalBinary", "%s: error %v", v.Name, err)
				return
			}
			encs[i] = b
			c.Eval(1)
			if len(b) != plen || v.P.MarshalSize() != plen {
				x.Failf(pk+"/length", "%s: %d bytes, MarshalSize=%d, PointLen=%d", v.Name, len(b), v.P.MarshalSize(), plen)
			}
			b2, _ := v.P.MarshalBinary()
			if !bytes.Equal(b, b2) {
				x.Failf(pk+"/encode-twice", "%s: second MarshalBinary differs", v.Name)
			}
			// writing into a returned encoding does not change the value
			for i := range b2 {
				b2[i] ^= 0x5a
			}
			if b3, _ := v.P.MarshalBinary(); !bytes.Equal(b, b3) {
				x.Failf(pk+"/encoding-aliases-value", "%s: writing into the slice returned by MarshalBinary changed the point", v.Name)
			}
			if !v.P.Equal(before) {
				x.Failf(pk+"/encode-changes-value", "%s: not Equal to the model value after encoding", v.Name)
			}
			{
				// decoding leaves the caller's buffer as it was, and the decoded object is an ordinary value: reset to the
				// identity or the base point it encodes as a fresh identity / base point
				arg := append([]byte{}, b...)
				y := g.Point()
				if err := y.UnmarshalBinary(arg); err == nil {
					if !bytes.Equal(arg, b) {
						x.Failf(pk+"/decode-mutates-input", "%s: UnmarshalBinary changed the buffer it decoded from", v.Name)
					}
					y.Null()
					if !bytes.Equal(fmod.Enc(y), fmod.Enc(g.Point().Null())) {
						x.Failf(pk+"/decoded-then-Null", "%s: a point decoded from this encoding and then set to Null() does not encode as the identity", v.Name)
					}
					if g.Base {
						y2 := g.Point()
						_ = y2.UnmarshalBinary(append([]byte{}, b...))
						y2.Base()
						if !bytes.Equal(fmod.Enc(y2), fmod.Enc(g.Point().Base())) {
							x.Failf(pk+"/decoded-then-Base", "%s: a point decoded from this encoding and then set to Base() does not encode as the base point", v.Name)
						}
					}
				}
			}
			for _, rc := range receivers {
				y := rc.mk()
				if err := y.UnmarshalBinary(append([]byte{}, b...)); err != nil {
					x.Failf(pk+"/decode", "%s: UnmarshalBinary(own encoding) into %s receiver: %v", v.Name, rc.name, err)
					continue
				}
				c.Eval(1)
				if !y.Equal(v.P) || !v.P.Equal(y) {
					x.Failf(pk+"/decode-equal", "%s: decoded value (into %s receiver) not Equal to the original", v.Name, rc.name)
				}
				if rb, _ := y.MarshalBinary(); !bytes.Equal(rb, b) {
					x.Failf(pk+"/reencode", "%s: re-encoding after decode into %s receiver differs: %x vs %x", v.Name, rc.name, head(rb), head(b))
				}
				// behaves as the value: y + B == v + B
				if !g.Point().Add(y, m.Gens[0]).Equal(g.Point().Add(v.P, m.Gens[0])) {
					x.Failf(pk+"/decode-usable", "%s: decoded value (into %s receiver) behaves differently under Add", v.Name, rc.name)
				}
			}
			// MarshalTo
			var w countWriter
			n, err := v.P.MarshalTo(&w)
			c.Eval(1)
			if err != nil || n != len(b) || !bytes.Equal(w.Bytes(), b) {
				x.Failf(pk+"/MarshalTo", "%s: MarshalTo wrote %d bytes err=%v, equal=%v", v.Name, n, err, bytes.Equal(w.Bytes(), b))
			}
			// UnmarshalFrom under the reader alphabet
			for _, rk := range readers {
				y := g.Gen().Clone()
				_, err := y.UnmarshalFrom(rk.mk(b))
				c.Eval(1)
				if rk.ok {
					if err != nil {
						x.Failf(pk+"/UnmarshalFrom", "%s: reader %s: error %v", v.Name, rk.name, err)
					} else if !y.Equal(v.P) {
						x.Failf(pk+"/UnmarshalFrom-value", "%s: reader %s: different value", v.Name, rk.name)
					}
				} else if err == nil {
					x.Failf(pk+"/UnmarshalFrom-short", "%s: reader %s: no error", v.Name, rk.name)
				}
			}
			// hex helpers
			hs, err := kenc.PointToStringHex(g.Group, v.P)
			if err != nil || hs != hex.EncodeToString(b) {
				x.Failf(pk+"/hex", "%s: PointToStringHex=%q err=%v", v.Name, hs, err)
			}
			var hw bytes.Buffer
			if err := kenc.WriteHexPoint(&hw, v.P); err != nil || hw.String() != hex.EncodeToString(b) {
				x.Failf(pk+"/hex", "%s: WriteHexPoint wrote %q err=%v", v.Name, hw.String(), err)
			}
			hp, err := kenc.StringHexToPoint(g.Group, hex.EncodeToString(b))
			if err != nil || !hp.Equal(v.P) {
				x.Failf(pk+"/hex", "%s: StringHexToPoint err=%v", v.Name, err)
			}
			hp2, err := kenc.ReadHexPoint(g.Group, strings.NewReader(strings.ToUpper(hex.EncodeToString(b))+"zz"))
			if err != nil || !hp2.Equal(v.P) {
				x.Failf(pk+"/hex", "%s: ReadHexPoint(upper-case + trailing) err=%v", v.Name, err)
			}
			// odd readers: the same value or an error, never another value
			hp3, err := kenc.ReadHexPoint(g.Group, iotest.OneByteReader(strings.NewReader(hex.EncodeToString(b))))
			if err == nil && !hp3.Equal(v.P) {
				x.Failf(pk+"/hex", "%s: ReadHexPoint(one-byte reader) gave another value", v.Name)
			}
			c.Eval(5)
			if !v.Vec.IsZero() {
				c.Nontrivial(g.Name + "|point|" + v.Name)
			}
			c.Class(g.Name+"/point-roundtrip", func() any { return fmt.Sprintf("%s -> %x..", v.Name, head(b)) })
		})
	}
	c.Case(g.Name+": pairwise Equal<=>bytes", pk+"/pairs", func(x *vf.Ctx) {
		for i, a := range R {
			for j, b := range R {
				if encs[i] == nil || encs[j] == nil {
					continue
				}
				c.Eval(1)
				me := a.Vec.Eq(b.Vec)
				eq := a.P.Equal(b.P)
				be := bytes.Equal(encs[i], encs[j])
				if eq != be {
					x.Failf(pk+"/Equal-vs-bytes", "%s vs %s: Equal=%v bytes-equal=%v", a.Name, b.Name, eq, be)
					return
				}
				if eq != me {
					x.Failf(pk+"/Equal-vs-model", "%s vs %s: Equal=%v model=%v", a.Name, b.Name, eq, me)
					return
				}
			}
		}
	})
	c.Count("states", int64(len(R)))
	c.Count("transitions", int64(len(R)*(len(receivers)+len(readers)+6)))
	c.Count("traces_validated_against_impl", int64(len(R)*(len(receivers)+len(readers)+6)))
}

func runScalars(c *vf.Check, g *groups.G) {
	if g.Kind == "G2" || g.Kind == "GT" || g.Name == "ed25519-vt" {
		return // same scalar type as G1 / ed25519
	}
	pk := "C03/" + g.Name + ".Scalar"
	q := g.Order
	slen := g.Group.ScalarLen()
	lvl := 1
	if c.Thorough() {
		lvl = 2
	}
	type sv struct {
		name string
		s    kyber.Scalar
		v    *big.Int
	}
	var vals []sv
	ok := false
	c.Case(g.Name+": scalar set", pk+"/setup", func(x *vf.Ctx) {
		vals = nil
		A := alpha.Scalars(q, lvl)
		for _, n := range A {
			vals = append(vals, sv{n.Name, alpha.ToScalar(g.Scalar(), n.V, q), n.V})
		}
		core := alpha.Scalars(q, 0)
		for _, a := range core {
			for _, b := range core {
				sa, sb := alpha.ToScalar(g.Scalar(), a.V, q), alpha.ToScalar(g.Scalar(), b.V, q)
				vals = append(vals,
					sv{"Add(" + a.Name + "," + b.Name + ")", g.Scalar().Add(sa, sb), new(big.Int).Mod(new(big.Int).Add(a.V, b.V), q)},
					sv{"Mul(" + a.Name + "," + b.Name + ")", g.Scalar().Mul(sa, sb), new(big.Int).Mod(new(big.Int).Mul(a.V, b.V), q)},
					sv{"Sub(" + a.Name + "," + b.Name + ")", g.Scalar().Sub(sa, sb), new(big.Int).Mod(new(big.Int).Sub(a.V, b.V), q)})
			}
			vals = append(vals, sv{"SetBytes(" + a.Name + "||ff*40)", g.Scalar().SetBytes(append(a.V.Bytes(), bytes.Repeat([]byte{0xff}, 40)...)), nil})
			vals = append(vals, sv{"Pick(" + a.Name + ")", g.Scalar().Pick(alpha.Stream("c03-pick-" + a.Name)), nil})
		}
		vals = append(vals, sv{"SetInt64(-7)", g.Scalar().SetInt64(-7), new(big.Int).Sub(q, big.NewInt(7))})
		// Pick under streams whose first bytes are the encodings of q-1, q, q+1 (either byte order) and all ones:
		// a sampler that lets a candidate >= q through produces a scalar that is not in reduced form
		ql := (q.BitLen() + 7) / 8
		for _, cand := range []struct {
			n string
			v *big.Int
		}{{"q-1", new(big.Int).Sub(q, big.NewInt(1))}, {"q", q}, {"q+1", new(big.Int).Add(q, big.NewInt(1))}} {
			be := cand.v.FillBytes(make([]byte, ql))
			le := make([]byte, ql)
			for i := range be {
				le[ql-1-i] = be[i]
			}
			for on, pre := range map[string][]byte{"BE": be, "LE": le} {
				st := &alpha.PrefixStream{Prefix: append([]byte{}, pre...), Next: alpha.Stream("c03-pick-tail")}
				vals = append(vals, sv{"Pick(stream starting with " + cand.n + " " + on + ")", g.Scalar().Pick(st), nil})
			}
		}
		vals = append(vals, sv{"Pick(0xff..)", g.Scalar().Pick(&alpha.PrefixStream{Prefix: bytes.Repeat([]byte{0xff}, ql+8), Next: alpha.Stream("c03-pick-tail")}), nil})
		ok = true
	})
	if !ok {
		return
	}
	encs := make([][]byte, len(vals))
	for i, v := range vals {
		i, v := i, v
		c.Case(g.Name+": scalar "+v.name, pk+"/scalar", func(x *vf.Ctx) {
			b, err := v.s.MarshalBinary()
			if err != nil {
				x.Failf(pk+"/MarshalBinary", "%s: %v", v.name, err)
				return
			}
			encs[i] = b
			c.Eval(1)
			if len(b) != slen || v.s.MarshalSize() != slen {
				x.Failf(pk+"/length", "%s: %d bytes, MarshalSize=%d ScalarLen=%d", v.name, len(b), v.s.MarshalSize(), slen)
			}
			if v.v != nil && alpha.FromScalar(v.s).Cmp(v.v) != 0 {
				x.Failf(pk+"/value", "%s: encodes %s, model %s", v.name, alpha.FromScalar(v.s), v.v)
			}
			// the returned encoding and the value are independent of each other: writing into the buffer does not
			// change the value, changing (a clone-free copy of) the value in place does not change the buffer
			{
				tmp := g.Scalar()
				if tmp.UnmarshalBinary(append([]byte{}, b...)) == nil {
					e1, _ := tmp.MarshalBinary()
					keep := append([]byte{}, e1...)
					for i := range e1 {
						e1[i] ^= 0x5a
					}
					if e2, _ := tmp.MarshalBinary(); !bytes.Equal(e2, keep) {
						x.Failf(pk+"/encoding-aliases-value", "%s: writing into the slice returned by MarshalBinary changed the scalar", v.name)
					}
					e3, _ := tmp.MarshalBinary()
					keep3 := append([]byte{}, e3...)
					tmp.Add(tmp, g.Scalar().One())
					if !bytes.Equal(e3, keep3) {
						x.Failf(pk+"/encoding-aliases-value", "%s: changing the scalar in place changed a slice MarshalBinary returned earlier", v.name)
					}
				}
			}
			for _, rn := range []string{"fresh", "one", "junk"} {
				y := g.Scalar()
				switch rn {
				case "one":
					y.One()
				case "junk":
					y = alpha.ToScalar(y, alpha.Rand("c03junk", q), q)
				}
				if err := y.UnmarshalBinary(append([]byte{}, b...)); err != nil {
					x.Failf(pk+"/decode", "%s: UnmarshalBinary(own encoding) into %s receiver: %v", v.name, rn, err)
					continue
				}
				c.Eval(1)
				if !y.Equal(v.s) || !v.s.Equal(y) {
					x.Failf(pk+"/decode-equal", "%s: decoded (into %s) not Equal", v.name, rn)
				}
				if rb, _ := y.MarshalBinary(); !bytes.Equal(rb, b) {
					x.Failf(pk+"/reencode", "%s: re-encoding differs", v.name)
				}
			}
			var w countWriter
			n, err := v.s.MarshalTo(&w)
			if err != nil || n != len(b) || !bytes.Equal(w.Bytes(), b) {
				x.Failf(pk+"/MarshalTo", "%s: MarshalTo wrote %d bytes err=%v", v.name, n, err)
			}
			for _, rk := range readers {
				y := g.Scalar().One()
				_, err := y.UnmarshalFrom(rk.mk(b))
				c.Eval(1)
				if rk.ok {
					if err != nil {
						x.Failf(pk+"/UnmarshalFrom", "%s: reader %s: error %v", v.name, rk.name, err)
					} else if !y.Equal(v.s) {
						x.Failf(pk+"/UnmarshalFrom-value", "%s: reader %s: different value", v.name, rk.name)
					}
				} else if err == nil {
					x.Failf(pk+"/UnmarshalFrom-short", "%s: reader %s: no error", v.name, rk.name)
				}
			}
			hs, err := kenc.ScalarToStringHex(g.Group, v.s)
			if err != nil || hs != hex.EncodeToString(b) {
				x.Failf(pk+"/hex", "%s: ScalarToStringHex=%q want %q err=%v", v.name, hs, hex.EncodeToString(b), err)
			}
			var hw bytes.Buffer
			if err := kenc.WriteHexScalar(g.Group, &hw, v.s); err != nil || hw.String() != hex.EncodeToString(b) {
				x.Failf(pk+"/hex", "%s: WriteHexScalar wrote %q err=%v", v.name, hw.String(), err)
			}
			hsv, err := kenc.StringHexToScalar(g.Group, hex.EncodeToString(b))
			if err != nil || !hsv.Equal(v.s) {
				x.Failf(pk+"/hex", "%s: StringHexToScalar err=%v", v.name, err)
			}
			hs2, err := kenc.ReadHexScalar(g.Group, strings.NewReader(hex.EncodeToString(b)+"00"))
			if err != nil || !hs2.Equal(v.s) {
				x.Failf(pk+"/hex", "%s: ReadHexScalar(+trailing) err=%v", v.name, err)
			}
			c.Eval(4)
			if v.v == nil || v.v.Sign() != 0 {
				c.Nontrivial(g.Name + "|scalar|" + v.name)
			}
			c.Class(g.Name+"/scalar-roundtrip", func() any { return fmt.Sprintf("%s -> %x", v.name, b) })
		})
	}
	c.Case(g.Name+": scalar pairs", pk+"/pairs", func(x *vf.Ctx) {
		for i, a := range vals {
			for j, b := range vals {
				if encs[i] == nil || encs[j] == nil {
					continue
				}
				c.Eval(1)
				if a.s.Equal(b.s) != bytes.Equal(encs[i], encs[j]) {
					x.Failf(pk+"/Equal-vs-bytes", "%s vs %s: Equal=%v bytes-equal=%v", a.name, b.name, a.s.Equal(b.s), bytes.Equal(encs[i], encs[j]))
					return
				}
			}
		}
	})
	c.Count("states", int64(len(vals)))
	c.Count("transitions", int64(len(vals)*(3+len(readers)+5)))
	c.Count("traces_validated_against_impl", int64(len(vals)*(3+len(readers)+5)))
}

func head(b []byte) []byte {
	if len(b) > 24 {
		return b[:24]
	}
	return b
}
