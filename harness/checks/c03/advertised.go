//go:build !constantTime

package c03

import (
	"bytes"
	"fmt"

	"go.dedis.ch/kyber/v4"
	ev "go.dedis.ch/kyber/v4/group/edwards25519vartime"
	"verif/harness/alpha"
	"verif/harness/vf"
)

// runAdvertised: every exported curve configuration of edwards25519vartime (five parameter sets, two coordinate
// systems, prime-order subgroup or full group) - not all of them are wrapped in a suite, all are reachable through
// the exported Init functions: the advertised lengths are the lengths of the encodings.
func runAdvertised(c *vf.Check) {
	type cfg struct {
		name string
		mk   func() kyber.Group
	}
	var cfgs []cfg
	for _, ps := range []struct {
		n string
		p func() *ev.Param
	}{{"Curve1174", ev.Param1174}, {"Ed25519", ev.ParamEd25519}, {"E-382", ev.ParamE382}, {"Curve41417", ev.Param41417}, {"E-521", ev.ParamE521}} {
		for _, full := range []bool{false, true} {
			ps, full := ps, full
			cfgs = append(cfgs,
				cfg{fmt.Sprintf("edwards25519vartime projective %s full=%v", ps.n, full), func() kyber.Group { return new(ev.ProjectiveCurve).Init(ps.p(), full) }},
				cfg{fmt.Sprintf("edwards25519vartime extended %s full=%v", ps.n, full), func() kyber.Group { return new(ev.ExtendedCurve).InitCurve(ps.p(), full) }})
		}
	}
	vf.Parallel(len(cfgs), func(i int) {
		k := cfgs[i]
		pk := "C03/" + k.name
		c.Case(k.name+": advertised lengths", pk, func(x *vf.Ctx) {
			g := k.mk()
			one := g.Scalar().One()
			scs := map[string]kyber.Scalar{"0": g.Scalar().Zero(), "1": one, "-1": g.Scalar().Neg(one), "SetInt64(-7)": g.Scalar().SetInt64(-7),
				"Pick": g.Scalar().Pick(alpha.Stream("c03-adv-s")), "Pick*Pick": g.Scalar().Mul(g.Scalar().Pick(alpha.Stream("c03-adv-a")), g.Scalar().Pick(alpha.Stream("c03-adv-b")))}
			for n, sv := range scs {
				b, err := sv.MarshalBinary()
				c.Eval(1)
				if err != nil || len(b) != g.ScalarLen() || sv.MarshalSize() != g.ScalarLen() {
					x.Failf(pk+"/scalar-length", "%s: scalar %s encodes to %d bytes (err %v), ScalarLen=%d MarshalSize=%d", k.name, n, len(b), err, g.ScalarLen(), sv.MarshalSize())
					continue
				}
				y := g.Scalar()
				if err := y.UnmarshalBinary(b); err != nil || !y.Equal(sv) {
					x.Failf(pk+"/scalar-roundtrip", "%s: scalar %s does not round-trip: %v", k.name, n, err)
				}
			}
			B := g.Point().Base()
			pts := map[string]kyber.Point{"O": g.Point().Null(), "B": B, "B+B": g.Point().Add(B, B), "-B": g.Point().Neg(B), "Pick": g.Point().Pick(alpha.Stream("c03-adv-p")),
				"s*B": g.Point().Mul(scs["Pick"], nil)}
			for n, pv := range pts {
				b, err := pv.MarshalBinary()
				c.Eval(1)
				if err != nil || len(b) != g.PointLen() || pv.MarshalSize() != g.PointLen() {
					x.Failf(pk+"/point-length", "%s: point %s encodes to %d bytes (err %v), PointLen=%d MarshalSize=%d", k.name, n, len(b), err, g.PointLen(), pv.MarshalSize())
					continue
				}
				y := g.Point()
				if err := y.UnmarshalBinary(b); err != nil || !y.Equal(pv) {
					x.Failf(pk+"/point-roundtrip", "%s: point %s does not round-trip: %v", k.name, n, err)
				} else if b2, _ := y.MarshalBinary(); !bytes.Equal(b, b2) {
					x.Failf(pk+"/point-roundtrip", "%s: point %s re-encodes differently", k.name, n)
				}
			}
		})
		c.Count("transitions", 12)
		c.Nontrivial(k.name)
	})
}
