//go:build !constantTime

package c03

import (
	"go.dedis.ch/kyber/v4/compatible"
	"bytes"
	"fmt"

	"go.dedis.ch/kyber/v4"
	ev "go.dedis.ch/kyber/v4/group/edwards25519vartime"
	"verif/harness/alpha"
	"verif/harness/vf"
)

// runAdvertised: every exported curve configuration of edwards25519vartime (five parameter sets, two coordinate
// systems, prime-order subgroup or full group) - not all of them are wrapped in a suite, all are reachable through
// the exported Init functions: the advertised lengths are the lengths of the encodings.
func runAdvertised(c *vf.Check) {
	type cfg struct {
		name string
		mk   func() kyber.Group
	}
	var cfgs []cfg
	for _, ps := range []struct {
		n string
		p func() *ev.Param
	}{{"Curve1174", ev.Param1174}, {"Ed25519", ev.ParamEd25519}, {"E-382", ev.ParamE382}, {"Curve41417", ev.Param41417}, {"E-521", ev.ParamE521}, {"Ed448-Goldilocks (caller-supplied Param, 57-byte points)", paramEd448}} {
		for _, full := range []bool{false, true} {
			ps, full := ps, full
			cfgs = append(cfgs,
				cfg{fmt.Sprintf("edwards25519vartime projective %s full=%v", ps.n, full), func() kyber.Group { return new(ev.ProjectiveCurve).Init(ps.p(), full) }},
				cfg{fmt.Sprintf("edwards25519vartime extended %s full=%v", ps.n, full), func() kyber.Group { return new(ev.ExtendedCurve).InitCurve(ps.p(), full) }})
		}
	}
	vf.Parallel(len(cfgs), func(i int) {
		k := cfgs[i]
		pk := "C03/" + k.name
		c.Case(k.name+": advertised lengths", pk, func(x *vf.Ctx) {
			g := k.mk()
			one := g.Scalar().One()
			scs := map[string]kyber.Scalar{"0": g.Scalar().Zero(), "1": one, "-1": g.Scalar().Neg(one), "SetInt64(-7)": g.Scalar().SetInt64(-7),
				"Pick": g.Scalar().Pick(alpha.Stream("c03-adv-s")), "Pick*Pick": g.Scalar().Mul(g.Scalar().Pick(alpha.Stream("c03-adv-a")), g.Scalar().Pick(alpha.Stream("c03-adv-b")))}
			for n, sv := range scs {
				b, err := sv.MarshalBinary()
				c.Eval(1)
				if err != nil || len(b) != g.ScalarLen() || sv.MarshalSize() != g.ScalarLen() {
					x.Failf(pk+"/scalar-length", "%s: scalar %s encodes to %d bytes (err %v), ScalarLen=%d MarshalSize=%d", k.name, n, len(b), err, g.ScalarLen(), sv.MarshalSize())
					continue
				}
				y := g.Scalar()
				if err := y.UnmarshalBinary(b); err != nil || !y.Equal(sv) {
					x.Failf(pk+"/scalar-roundtrip", "%s: scalar %s does not round-trip: %v", k.name, n, err)
				}
			}
			B := g.Point().Base()
			pts := map[string]kyber.Point{"O": g.Point().Null(), "B": B, "B+B": g.Point().Add(B, B), "-B": g.Point().Neg(B), "Pick": g.Point().Pick(alpha.Stream("c03-adv-p")),
				"s*B": g.Point().Mul(scs["Pick"], nil)}
			for n, pv := range pts {
				b, err := pv.MarshalBinary()
				c.Eval(1)
				if err != nil || len(b) != g.PointLen() || pv.MarshalSize() != g.PointLen() {
					x.Failf(pk+"/point-length", "%s: point %s encodes to %d bytes (err %v), PointLen=%d MarshalSize=%d", k.name, n, len(b), err, g.PointLen(), pv.MarshalSize())
					continue
				}
				y := g.Point()
				if err := y.UnmarshalBinary(b); err != nil || !y.Equal(pv) {
					x.Failf(pk+"/point-roundtrip", "%s: point %s does not round-trip: %v", k.name, n, err)
				} else if b2, _ := y.MarshalBinary(); !bytes.Equal(b, b2) {
					x.Failf(pk+"/point-roundtrip", "%s: point %s re-encodes differently", k.name, n)
				}
			}
		})
		c.Count("transitions", 12)
		c.Nontrivial(k.name)
	})
}

// paramEd448: Ed448-Goldilocks (RFC 8032 / RFC 7748: p = 2^448 - 2^224 - 1, a = 1, d = -39081, cofactor 4), a curve
// the package does not ship, supplied through the exported Param struct; its point encoding has an odd number of bytes.
func paramEd448() *ev.Param {
	var p ev.Param
	p.Name = "Ed448-Goldilocks"
	p.P.SetString("726838724295606890549323807888004534353641360687318060281490199180612328166730772686396383698676545930088884461843637361053498018365439", "", 10)
	p.Q.SetString("181709681073901722637330951972001133588410340171829515070372549795146003961539585716195755291692375963310293709091662304773755859649779", "", 10)
	p.R = 4
	p.A.SetInt64(1)
	var d compatible.Int
	d.SetInt64(39081)
	p.D.Int.Sub(&p.P.Int, &d.Int)
	p.PBX.SetString("224580040295924300187604334099896036246789641632564134246125461686950415467406032909029192869357953282578032075146446173674602635247710", "", 10)
	p.PBY.SetString("298819210078481492676017930443930673437544040154080242095928241372331506189835876003536878655418784733982303233503462500531545062832660", "", 10)
	return &p
}
