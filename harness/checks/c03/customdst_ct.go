//go:build constantTime

package c03

import "verif/harness/vf"

// runCustomDST: the kilic back-end is not part of the constantTime build.
func runCustomDST(c *vf.Check) {}
