//go:build constantTime

package c03

import "verif/harness/vf"

// the edwards25519vartime package does not exist in the constantTime build
func runAdvertised(c *vf.Check) {}
