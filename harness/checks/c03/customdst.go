//go:build !constantTime

package c03

import (
	"bytes"

	"go.dedis.ch/kyber/v4"
	"go.dedis.ch/kyber/v4/pairing/bls12381/kilic"
	"verif/harness/vf"
)

// runCustomDST: kilic G1/G2 groups created with a caller-supplied domain separation tag: clones, decoded copies and the
// originals are Equal exactly when their encodings are identical.
func runCustomDST(c *vf.Check) {
	pk := "C03/kilic-custom-dst"
	dst := []byte("VERIF-C03-CUSTOM-DST_")
	mk := []struct {
		name string
		g    kyber.Group
	}{
		{"kilic.NewGroupG1(dst)", kilic.NewGroupG1(dst...)}, {"kilic.NewGroupG2(dst)", kilic.NewGroupG2(dst...)},
		{"kilic.NewBLS12381SuiteWithDST.G1", kilic.NewBLS12381SuiteWithDST(dst, dst).G1()}, {"kilic.NewBLS12381SuiteWithDST.G2", kilic.NewBLS12381SuiteWithDST(dst, dst).G2()},
	}
	type hp interface{ Hash([]byte) kyber.Point }
	for _, e := range mk {
		e := e
		id := e.name + ": clones and decoded copies"
		c.Case(id, pk, func(x *vf.Ctx) {
			g := e.g
			vals := []kyber.Point{g.Point().Base(), g.Point().Null(), g.Point().Add(g.Point().Base(), g.Point().Base())}
			if h, ok := g.Point().(hp); ok {
				vals = append(vals, h.Hash([]byte("c03 message")))
			}
			var all []kyber.Point
			for _, v := range vals {
				b, err := v.MarshalBinary()
				if err != nil {
					x.Failf(pk, "%s: MarshalBinary: %v", id, err)
					return
				}
				d := g.Point()
				if err := d.UnmarshalBinary(b); err != nil {
					x.Failf(pk, "%s: decoding an own encoding: %v", id, err)
					return
				}
				all = append(all, v, v.Clone(), d, d.Clone(), g.Point().Set(v))
			}
			for i, a := range all {
				for j, b := range all {
					ab, _ := a.MarshalBinary()
					bb, _ := b.MarshalBinary()
					c.Eval(1)
					if a.Equal(b) != bytes.Equal(ab, bb) {
						x.Failf(pk+"/Equal-vs-encoding", "%s: values #%d and #%d (original / clone / decoded / clone of decoded / Set): Equal=%v, encodings identical=%v", id, i, j, a.Equal(b), bytes.Equal(ab, bb))
						return
					}
				}
			}
		})
		c.Count("transitions", 1)
		c.Nontrivial(id)
	}
}
