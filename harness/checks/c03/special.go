package c03

import (
	"bytes"
	"fmt"
	"math/big"

	kenc "go.dedis.ch/kyber/v4/util/encoding"
	"verif/harness/curves"
	"verif/harness/groups"
	"verif/harness/vf"
)

// runSmallCoordinates: points of the Weierstrass groups whose x coordinate is tiny (many leading zero bytes in the
// fixed-width encoding), built from the curve equation in math/big and handed to the decoder: the value re-encodes to
// exactly the bytes it was decoded from, through every encoder, and so does its negation.
func runSmallCoordinates(c *vf.Check) {
	type wc struct {
		name   string
		p, a   *big.Int
		b      *big.Int
		prefix []byte
	}
	ws := []wc{
		{"p256", curves.P256P, big.NewInt(-3), curves.P256B, []byte{4}},
		{"bn256.G1", curves.BN256P, big.NewInt(0), big.NewInt(3), nil},
		{"bn254.G1", curves.BN254P, big.NewInt(0), big.NewInt(3), nil},
	}
	for _, w := range ws {
		w := w
		g := groups.ByName(w.name)
		if g == nil {
			continue
		}
		pk := "C03/" + w.name
		found := 0
		for xi := int64(0); xi < 400 && found < 24; xi++ {
			x := big.NewInt(xi)
			rhs := new(big.Int).Exp(x, big.NewInt(3), w.p)
			rhs.Add(rhs, new(big.Int).Mul(w.a, x)).Add(rhs, w.b).Mod(rhs, w.p)
			y := new(big.Int).ModSqrt(rhs, w.p)
			if y == nil {
				continue
			}
			found++
			for _, yy := range []*big.Int{y, new(big.Int).Sub(w.p, y)} {
				yy := new(big.Int).Mod(yy, w.p)
				n := (w.p.BitLen() + 7) / 8
				enc := append(append(append([]byte{}, w.prefix...), x.FillBytes(make([]byte, n))...), yy.FillBytes(make([]byte, n))...)
				negEnc := append(append(append([]byte{}, w.prefix...), x.FillBytes(make([]byte, n))...), new(big.Int).Mod(new(big.Int).Sub(w.p, yy), w.p).FillBytes(make([]byte, n))...)
				id := fmt.Sprintf("%s: the point with x = %d, y = %x.. (coordinates with leading zero bytes)", w.name, xi, yy.FillBytes(make([]byte, n))[:4])
				c.Case(id, pk+"/small-coordinate", func(x *vf.Ctx) {
					P := g.Point()
					if err := P.UnmarshalBinary(enc); err != nil {
						c.Class(w.name+"/small-coordinate/not-decodable", func() any { return id + ": " + err.Error() })
						return // e.g. outside the subgroup the decoder validates
					}
					c.Eval(4)
					if b, err := P.MarshalBinary(); err != nil || !bytes.Equal(b, enc) {
						x.Failf(pk+"/small-coordinate", "%s: decoded from %x, MarshalBinary gives %x (%v)", id, enc, b, err)
						return
					}
					var buf bytes.Buffer
					if n, err := P.MarshalTo(&buf); err != nil || n != len(enc) || !bytes.Equal(buf.Bytes(), enc) {
						x.Failf(pk+"/small-coordinate", "%s: MarshalTo writes %x", id, buf.Bytes())
						return
					}
					if hx, err := kenc.PointToStringHex(g.Group, P); err != nil || hx != fmt.Sprintf("%x", enc) {
						x.Failf(pk+"/small-coordinate", "%s: PointToStringHex gives %s", id, hx)
					}
					Q := g.Point()
					if err := Q.UnmarshalBinary(enc); err != nil || !Q.Equal(P) {
						x.Failf(pk+"/small-coordinate", "%s: decoding the encoding again does not give an Equal point", id)
					}
					N := g.Point().Neg(P)
					if b, _ := N.MarshalBinary(); !bytes.Equal(b, negEnc) {
						x.Failf(pk+"/small-coordinate", "%s: the negation encodes to %x, expected %x", id, b, negEnc)
					}
					// a value reached by arithmetic: (P + B) - B
					B := g.Point().Base()
					R := g.Point().Sub(g.Point().Add(P, B), B)
					if b, _ := R.MarshalBinary(); !bytes.Equal(b, enc) || !R.Equal(P) {
						x.Failf(pk+"/small-coordinate", "%s: (P+B)-B encodes to %x", id, b)
					}
				})
				c.Count("transitions", 1)
				c.Nontrivial(id)
			}
		}
	}
}

