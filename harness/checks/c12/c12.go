// Package c12: threshold Schnorr (DSS). At each participant, explicit-state
// exploration (BFS, replay on fresh objects, merged on accepted-set) of all
// histories of partial-signature events; lock-step model of the accepted set;
// every state with >= t partials must yield the one standard signature.
package c12

import (
	"os"
	"time"
	"bytes"
	"crypto/ed25519"
	"crypto/sha512"
	"fmt"
	"math"
	"math/big"
	"sort"
	"strings"

	"go.dedis.ch/kyber/v4"
	"go.dedis.ch/kyber/v4/group/edwards25519"
	"go.dedis.ch/kyber/v4/share"
	"go.dedis.ch/kyber/v4/sign/dss"
	"go.dedis.ch/kyber/v4/sign/eddsa"
	"go.dedis.ch/kyber/v4/sign/schnorr"
	"verif/harness/alpha"
	"verif/harness/checks/c11"
	"verif/harness/groups"
	"verif/harness/vf"
)

type dks struct {
	sh      *share.PriShare
	commits []kyber.Point
}

func (d *dks) PriShare() *share.PriShare  { return d.sh }
func (d *dks) Commitments() []kyber.Point { return d.commits }

type world struct {
	n, t, p int // p: the observer
	suite   func(label string) dss.Suite
	secs    []kyber.Scalar
	pubs    []kyber.Point
	long    []*dks
	rnd     []*dks
	rnd2    []*dks
	msg     []byte
	events  map[string]*dss.PartialSig
	names   []string
	wantSig []byte
	pub     kyber.Point
}

// lagrange0 interpolates the secret (value at 0) from shares in math/big; share i sits at x = i+1.
func lagrange0(shs []*share.PriShare, q *big.Int) *big.Int {
	acc := new(big.Int)
	for i, a := range shs {
		num, den := big.NewInt(1), big.NewInt(1)
		xi := big.NewInt(int64(a.I) + 1)
		for j, b := range shs {
			if i == j {
				continue
			}
			xj := big.NewInt(int64(b.I) + 1)
			num.Mul(num, xj).Mod(num, q)
			d := new(big.Int).Sub(xj, xi)
			den.Mul(den, d.Mod(d, q)).Mod(den, q)
		}
		vb, _ := a.V.MarshalBinary()
		for l, r := 0, len(vb)-1; l < r; l, r = l+1, r-1 {
			vb[l], vb[r] = vb[r], vb[l]
		}
		term := new(big.Int).SetBytes(vb)
		term.Mul(term, num).Mul(term, new(big.Int).ModInverse(den, q)).Mod(term, q)
		acc.Add(acc, term).Mod(acc, q)
	}
	return acc
}

func mkShares(ed kyber.Group, src, label string, n, t int) ([]*dks, *big.Int) {
	q := groups.OrderEd25519
	if src != "poly" {
		ks, err := c11.KeysFromDKG(src, n, t, label)
		if err != nil {
			panic(err)
		}
		var out []*dks
		var shs []*share.PriShare
		for _, k := range ks {
			out = append(out, &dks{k.Share, k.Commits})
			if len(shs) < t {
				shs = append(shs, k.Share)
			}
		}
		return out, lagrange0(shs, q)
	}
	var coeffs []kyber.Scalar
	var c0 *big.Int
	for i := 0; i < t; i++ {
		v := alpha.Rand(fmt.Sprintf("c12-%s-%d", label, i), q)
		if i == 0 {
			c0 = v
		}
		coeffs = append(coeffs, alpha.ToScalar(ed.Scalar(), v, q))
	}
	poly := share.CoefficientsToPriPoly(ed, coeffs)
	_, commits := poly.Commit(ed.Point().Base()).Info()
	var out []*dks
	for _, sh := range poly.Shares(uint32(n)) {
		out = append(out, &dks{sh, commits})
	}
	return out, c0
}

func clonePS(ps *dss.PartialSig) *dss.PartialSig {
	return &dss.PartialSig{Partial: &share.PriShare{I: ps.Partial.I, V: ps.Partial.V.Clone()},
		SessionID: append([]byte{}, ps.SessionID...), Signature: append([]byte{}, ps.Signature...)}
}

func newWorld(src string, n, kt, t, p int, msg []byte) *world {
	w := &world{n: n, t: t, p: p, msg: msg, events: map[string]*dss.PartialSig{}}
	ed := edwards25519.NewBlakeSHA256Ed25519()
	w.suite = func(label string) dss.Suite {
		return edwards25519.NewBlakeSHA256Ed25519WithRand(alpha.Stream(fmt.Sprintf("c12-%d-%d-%s", n, t, label)))
	}
	q := groups.OrderEd25519
	for i := 0; i < n; i++ {
		s := alpha.ToScalar(ed.Scalar(), alpha.Rand(fmt.Sprintf("c12-node-%d", i), q), q)
		w.secs, w.pubs = append(w.secs, s), append(w.pubs, ed.Point().Mul(s, nil))
	}
	var x, k *big.Int
	ktR := kt
	if strings.HasPrefix(src, "poly:one-time-threshold") {
		// long-term and one-time keys from DKG runs with different thresholds
		var d int
		fmt.Sscanf(src, "poly:one-time-threshold%d", &d)
		ktR = kt + d
		src = "poly"
	}
	w.long, x = mkShares(ed, src, "long", n, kt)
	w.rnd, k = mkShares(ed, src, "random", n, ktR)
	w.rnd2, _ = mkShares(ed, src, "random-other-session", n, ktR)
	w.pub = w.long[0].commits[0]
	// reference signature: R || (k + H(R,A,m) x)
	R := w.rnd[0].commits[0]
	h := sha512.New()
	_, _ = R.MarshalTo(h)
	_, _ = w.pub.MarshalTo(h)
	h.Write(msg)
	hb := h.Sum(nil)
	for a, b := 0, len(hb)-1; a < b; a, b = a+1, b-1 {
		hb[a], hb[b] = hb[b], hb[a]
	}
	hv := new(big.Int).Mod(new(big.Int).SetBytes(hb), q)
	s := new(big.Int).Mod(new(big.Int).Add(k, new(big.Int).Mul(hv, x)), q)
	rb, _ := R.MarshalBinary()
	sb, _ := alpha.ToScalar(ed.Scalar(), s, q).MarshalBinary()
	w.wantSig = append(rb, sb...)

	mk := func(i int, rnd []*dks, m []byte, label string) *dss.DSS {
		d, err := dss.NewDSS(w.suite(fmt.Sprintf("%s-%d", label, i)), w.secs[i], w.pubs, w.long[i], rnd[i], m, uint32(t))
		if err != nil {
			panic(err)
		}
		return d
	}
	one := ed.Scalar().One()
	resign := func(i int, ps *dss.PartialSig) *dss.PartialSig {
		c := clonePS(ps)
		c.Signature, _ = schnorr.Sign(w.suite(fmt.Sprintf("resign-%d", i)), w.secs[i], c.Hash(ed))
		return c
	}
	for i := 0; i < n; i++ {
		ps, err := mk(i, w.rnd, msg, "main").PartialSig()
		if err != nil {
			panic(err)
		}
		if i == p {
			w.events[fmt.Sprintf("echo-own:%d", i)] = ps // the observer's own partial coming back from the network
			continue
		}
		w.events[fmt.Sprintf("valid:%d", i)] = ps
		bad := clonePS(ps)
		bad.Partial.V = ed.Scalar().Add(bad.Partial.V, one)
		w.events[fmt.Sprintf("value+1:%d", i)] = resign(i, bad)
		fl := clonePS(ps)
		fl.Signature[7] ^= 0x08
		w.events[fmt.Sprintf("sigflip:%d", i)] = fl
		if i == (p+1)%n {
			o, _ := mk(i, w.rnd2, msg, "other-session").PartialSig()
			w.events[fmt.Sprintf("other-session:%d", i)] = o
			otherMsg := append([]byte("another "), msg...)
			if len(msg) > 64 {
				// the same first 64 bytes (one hash block), another tail
				otherMsg = append(append([]byte{}, msg[:len(msg)-1]...), msg[len(msg)-1]^1)
			}
			om, _ := mk(i, w.rnd, otherMsg, "other-message").PartialSig()
			w.events[fmt.Sprintf("other-message:%d", i)] = om
			for _, idx := range []uint32{uint32(n), uint32(n + 1), math.MaxUint32, uint32(p)} {
				c := clonePS(ps)
				c.Partial.I = idx
				w.events[fmt.Sprintf("index=%d-by:%d", idx, i)] = resign(i, c)
			}
			ws := clonePS(ps)
			ws.SessionID = []byte("not the session id")
			w.events[fmt.Sprintf("sid-replaced:%d", i)] = resign(i, ws)
		}
	}
	for k := range w.events {
		w.names = append(w.names, k)
	}
	sort.Strings(w.names)
	w.names = append([]string{"own", "signature?"}, w.names...)
	return w
}

func Run(c *vf.Check) {
	c.Level = "model_checking"
	var jobs []func()
	ns := []int{3, 4}
	if c.Thorough() {
		ns = []int{3, 4, 5}
	}
	for _, n := range ns {
		for t := 2; t <= n; t++ {
			for p := 0; p < n; p++ {
				if !c.Thorough() && n == 4 && p != 0 && p != 3 {
					continue
				}
				long := []byte("a message that is longer than one block of the hash function: 0123456789abcdefghijklmnopqrstuvwxyzABCDEFGHIJKLMNOPQRSTUVWXYZ")
				for mi, msg := range [][]byte{[]byte("c12 message"), {}, long} {
					if mi >= 1 && (p != 0 || t != 2) {
						continue
					}
					n, t, p, msg := n, t, p, msg
					jobs = append(jobs, func() { explore(c, "poly", n, t, t, p, msg, false) })
				}
				// a signing threshold above the threshold of the distributed keys
				if t > 2 && (p == 0 || c.Thorough()) {
					n, t, p := n, t, p
					jobs = append(jobs, func() { explore(c, "poly", n, t-1, t, p, []byte("c12 message"), false) })
				}
				// keys produced by the DKG implementations themselves (thresholds both accept)
				if t >= n/2+1 && (n == 3 || c.Thorough()) && (p == 0 || p == n-1 || c.Thorough()) {
					for _, src := range []string{"pedersen", "pedersen-fast", "rabin"} {
						n, t, p, src := n, t, p, src
						jobs = append(jobs, func() { explore(c, src, n, t, t, p, []byte("c12 message"), false) })
					}
				}
			}
		}
	}
	// long-term and one-time keys of different thresholds (signing threshold = the larger one)
	for _, cfg := range [][3]int{{4, 3, -1}, {4, 2, +1}, {3, 2, +1}} { // n, long-term threshold, one-time threshold - long-term threshold
		n, kt, d := cfg[0], cfg[1], cfg[2]
		t := kt
		if d > 0 {
			t = kt + d
		}
		for _, p := range []int{0, n - 1} {
			p := p
			src := fmt.Sprintf("poly:one-time-threshold%+d", d)
			jobs = append(jobs, func() { explore(c, src, n, kt, t, p, []byte("c12 message"), true) })
		}
	}
	// larger groups (the statement quantifies n up to 7): the same exploration over a reduced event menu
	bigNs := []int{5, 7}
	if c.Thorough() {
		bigNs = []int{6, 7}
	}
	for _, n := range bigNs {
		for t := 2; t <= n; t++ {
			if !c.Thorough() && !(t == 2 || t == n/2+1 || t == n) {
				continue
			}
			for _, p := range []int{0, n - 1} {
				if !c.Thorough() && p != 0 && t != n/2+1 {
					continue
				}
				n, t, p := n, t, p
				jobs = append(jobs, func() { explore(c, "poly", n, t, t, p, []byte("c12 message"), true) })
			}
		}
	}
	vf.Parallel(len(jobs), func(i int) { jobs[i]() })
	c.Finish("engine S (explicit-state BFS, successor = replay on a fresh DSS object, merged on the model's accepted set + EnoughPartialSig + per-signer delivery counts (capped at 2) + order of own PartialSig() and the echo of the own partial): n=3,4 (thorough ..5), every 2<=t<=n, at every participant (n=4: first and last) - and n=5,7 (thorough 6,7) with t in {2, n/2+1, n} (thorough: every t, first and last participant) over a reduced event menu {own, valid partial of every other signer (again = duplicate), echo of the own partial, value+1 / index n / other session by the next signer} to depth t+1, second deliveries told apart for one signer -, keys from seeded polynomials (also with a key threshold below the signing threshold, and with long-term and one-time keys of different thresholds); Signature() polled in the middle of a history as an event of its own and the returned slice edited by the caller and (n=3; thorough also 4, 5) from the Pedersen, Pedersen fast-sync and Rabin DKG implementations, messages of 0, 11 and 125 bytes: all histories up to depth n+2 over {own PartialSig(), per other signer: valid partial, value+1 re-signed, signature bit-flipped; own partial echoed back; partial of another session, for another message, with replaced session id, with index n, n+1, 2^32-1 and the receiver's own index}. "+
		"Oracle after every transition: ProcessPartialSig succeeds exactly for a first valid partial of this session; EnoughPartialSig <=> |accepted| >= t; Signature() errors below t and otherwise returns exactly R || (k + H(R,A,m) x) computed with math/big from the polynomials, which verifies under dss.Verify, eddsa.Verify and crypto/ed25519 - identical in every state and at every participant. "+
		"non-trivial = histories of length >= 2 reaching a new accepted set",
		[]string{"distributed keys: (share, commitment) pairs of seeded polynomials for every n, t; for the thresholds the DKGs accept additionally the outputs of all-honest runs of the real Pedersen (regular and fast-sync) and Rabin DKG code, the reference secret then interpolated in math/big from the shares", "state merging assumes the accepted set determines future behaviour"}, nil)
}

func explore(c *vf.Check, src string, n, kt, t, p int, msg []byte, large bool) {
	pk := "C12/dss"
	t0 := time.Now()
	var w *world
	c.Case(fmt.Sprintf("dss keys=%s n=%d key-threshold=%d t=%d p=%d msg=%d: setup", src, n, kt, t, p, len(msg)), pk+"/setup", func(x *vf.Ctx) { w = newWorld(src, n, kt, t, p, msg) })
	if w == nil {
		return
	}
	depth := n + 2
	names := w.names
	if large {
		// reduced menu: own, every other signer's valid partial (a second delivery is the duplicate), the echo of the
		// own partial, and of the next signer: value+1 re-signed, index n, another session
		names = nil
		nx := (p + 1) % n
		for _, ev := range w.names {
			if ev == "own" || strings.HasPrefix(ev, "valid:") || strings.HasPrefix(ev, "echo-own:") || ev == fmt.Sprintf("value+1:%d", nx) ||
				ev == fmt.Sprintf("index=%d-by:%d", n, nx) || ev == fmt.Sprintf("other-session:%d", nx) {
				names = append(names, ev)
			}
		}
		depth = t + 1
	}
	type node struct{ hist []string }
	seen := map[string]bool{}
	frontier := []node{{nil}}
	states, trans := 0, 0
	for len(frontier) > 0 {
		var next []node
		for _, nd := range frontier {
			hist := nd.hist
			id := fmt.Sprintf("dss keys=%s n=%d key-threshold=%d t=%d at=%d msglen=%d: %s", src, n, kt, t, p, len(msg), strings.Join(hist, " ; "))
			key := ""
			c.Case(id, pk, func(x *vf.Ctx) {
				d, err := dss.NewDSS(w.suite("observer"), w.secs[p], w.pubs, w.long[p], w.rnd[p], msg, uint32(t))
				if err != nil {
					x.Failf(pk+"/NewDSS", "%v", err)
					return
				}
				acc := map[int]bool{}
				askedEarly := false
				for hi, ev := range hist {
					last := hi == len(hist)-1
					var perr error
					expect := false
					if ev == "signature?" {
						// the caller polls for the signature in the middle of the collection: right answer now, no effect later
						sg, serr := d.Signature()
						if len(acc) < t && serr == nil {
							x.Failf(pk+"/signature-below-t", "%s: a signature is produced from %d < t partials (asked in the middle)", id, len(acc))
						}
						if len(acc) >= t && (serr != nil || !bytes.Equal(sg, w.wantSig)) {
							x.Failf(pk+"/signature-refused", "%s: Signature() asked in the middle with %d >= t accepted partials: %v / other bytes", id, len(acc), serr)
						}
						if len(acc) < t {
							askedEarly = true
						}
						if len(sg) > 0 {
							sg[0] ^= 0xff // the returned slice is the caller's
						}
						continue
					}
					if ev == "own" {
						_, perr = d.PartialSig()
						expect = true
						acc[p] = true
					} else {
						ps := clonePS(w.events[ev])
						func() {
							defer func() {
								if r := recover(); r != nil {
									if last {
										x.Failf(pk+"/panic", "%s: ProcessPartialSig panics on %s: %v", id, ev, r)
									}
									perr = fmt.Errorf("panic")
								}
							}()
							perr = d.ProcessPartialSig(ps)
						}()
						if strings.HasPrefix(ev, "valid:") {
							var i int
							fmt.Sscanf(ev, "valid:%d", &i)
							if !acc[i] {
								expect = true
								acc[i] = true
							}
						}
						if strings.HasPrefix(ev, "echo-own:") && !acc[p] {
							// the observer's own partial arriving before it called PartialSig: a valid first partial of index p
							expect = true
							acc[p] = true
						}
					}
					if !last {
						continue
					}
					c.Eval(1)
					if expect && perr != nil {
						x.Failf(pk+"/valid-rejected", "%s: a first valid partial (%s) is rejected: %v", id, ev, perr)
					}
					if !expect && perr == nil {
						x.Failf(pk+"/invalid-accepted", "%s: %s is accepted (invalid, forged, duplicate, foreign-session or out-of-range partial)", id, ev)
					}
				}
				enough := d.EnoughPartialSig()
				if enough != (len(acc) >= t) {
					x.Failf(pk+"/EnoughPartialSig", "%s: EnoughPartialSig()=%v with %d accepted partials (t=%d)", id, enough, len(acc), t)
				}
				sig, err := d.Signature()
				if len(acc) < t {
					if err == nil {
						x.Failf(pk+"/signature-below-t", "%s: a signature is produced from %d < t partials", id, len(acc))
					}
				} else {
					if err != nil {
						x.Failf(pk+"/signature-refused", "%s: Signature() fails with %d >= t accepted partials: %v", id, len(acc), err)
					} else {
						if !bytes.Equal(sig, w.wantSig) {
							x.Failf(pk+"/signature-differs", "%s: signature differs from R || (k + H(R,A,m)x)", id)
						}
						sig[len(sig)-1] ^= 0x01 // the caller edits the slice it was given; the next answer is unaffected
						if again, err := d.Signature(); err != nil || !bytes.Equal(again, w.wantSig) {
							x.Failf(pk+"/signature-differs", "%s: Signature() asked again after the caller edited the returned slice: %v / other bytes", id, err)
						}
						sig[len(sig)-1] ^= 0x01
						pb, _ := w.pub.MarshalBinary()
						if dss.Verify(w.pub, msg, sig) != nil || eddsa.Verify(w.pub, msg, sig) != nil || !ed25519.Verify(pb, msg, sig) {
							x.Failf(pk+"/signature-invalid", "%s: the combined signature does not verify as an ordinary EdDSA signature", id)
						}
					}
				}
				var as []int
				for i := range acc {
					as = append(as, i)
				}
				sort.Ints(as)
				// merged on the accepted set AND on how often a valid partial of each signer was delivered (capped at
				// 2) and in which order the observer's own PartialSig() and the echo of its own partial happened: the
				// object may keep duplicates that the accepted set does not show
				cnt := map[int]int{}
				own := ""
				for _, ev := range hist {
					switch {
					case ev == "own":
						own += "o"
					case strings.HasPrefix(ev, "echo-own:"):
						own += "e"
					case strings.HasPrefix(ev, "valid:"):
						var i int
						fmt.Sscanf(ev, "valid:%d", &i)
						if cnt[i] < 2 && !(large && cnt[i] == 1 && i != (p+1)%n) {
							cnt[i]++ // large menu: second deliveries are told apart for one signer only
						}
					}
				}
				if len(own) > 3 {
					own = own[:3]
				}
				var cs []string
				for i := 0; i < n; i++ {
					cs = append(cs, fmt.Sprint(cnt[i]))
				}
				key = fmt.Sprint(as, enough, own, cs, askedEarly)
				c.Class(fmt.Sprintf("dss/enough=%v", enough), func() any { return id })
			})
			trans++
			if key == "" || seen[key] {
				continue
			}
			seen[key] = true
			states++
			if len(hist) > 1 {
				c.Nontrivial(id)
			}
			if len(hist) < depth {
				for _, ev := range names {
					next = append(next, node{append(append([]string{}, hist...), ev)})
				}
			}
		}
		frontier = next
		if c.Expired() {
			c.Cap(fmt.Sprintf("dss keys=%s n=%d t=%d p=%d: deadline", src, n, t, p))
			break
		}
	}
	if os.Getenv("VERIF_DEBUG") != "" {
		fmt.Fprintf(dbgFile(), "c12 job %s n=%d t=%d p=%d large=%v: states=%d transitions=%d %v\n", src, n, t, p, large, states, trans, time.Since(t0))
	}
	c.Count("states", int64(states))
	c.Count("transitions", int64(trans))
	c.Count("traces_validated_against_impl", int64(trans))
}

func dbgFile() *os.File {
	f, err := os.OpenFile(os.Getenv("VERIF_DEBUG"), os.O_APPEND|os.O_CREATE|os.O_WRONLY, 0o644)
	if err != nil {
		return os.Stderr
	}
	return f
}
