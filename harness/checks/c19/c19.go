// Package c19: XOFs and random streams are deterministic, chunk-independent
// and range-exact. The XOF part is a stateless exploration of all operation
// sequences up to a depth bound on up to two live objects (original + clone)
// against a single-shot reference: stage = (seed, absorbed, squeezed); the
// expected next n bytes are New(seed) -> Write(absorbed) -> one Read of
// squeezed+n bytes -> last n. Reseed is modelled by its documentation: the
// next 128 output bytes key a fresh factory-made XOF.
package c19

import (
	"bytes"
	"fmt"

	"go.dedis.ch/kyber/v4"
	"go.dedis.ch/kyber/v4/xof/blake2xb"
	"go.dedis.ch/kyber/v4/xof/blake2xs"
	"go.dedis.ch/kyber/v4/xof/keccak"
	"verif/harness/alpha"
	"verif/harness/vf"
)

type factory struct {
	name string
	mk   func(seed []byte) kyber.XOF
}

var factories = []factory{{"blake2xb", blake2xb.New}, {"blake2xs", blake2xs.New}, {"keccak", keccak.New}}

type stage struct {
	seed     []byte
	absorbed []byte
	squeezed int
	reading  bool // output has been drawn: Write is no longer allowed
	factory  bool // made by the factory (not a Clone): Reset is in scope
	origSeed []byte
}

func (s stage) clone() stage {
	c := s
	c.absorbed = append([]byte{}, s.absorbed...)
	c.factory = false
	return c
}

// expect returns the next n bytes of the stage by the single-shot reference.
func expect(f factory, s stage, n int) []byte {
	r := f.mk(append([]byte{}, s.seed...))
	if len(s.absorbed) > 0 {
		if _, err := r.Write(append([]byte{}, s.absorbed...)); err != nil {
			panic(err)
		}
	}
	buf := make([]byte, s.squeezed+n)
	if len(buf) > 0 {
		if m, err := r.Read(buf); err != nil || m != len(buf) {
			panic(fmt.Sprintf("reference read: %d %v", m, err))
		}
	}
	return buf[s.squeezed:]
}

type opk struct {
	kind string
	n    int
	obj  int
}

func (o opk) String() string {
	switch o.kind {
	case "Reseed", "Clone", "Reset":
		return fmt.Sprintf("x%d.%s()", o.obj, o.kind)
	}
	return fmt.Sprintf("x%d.%s(%d)", o.obj, o.kind, o.n)
}

func pattern(label string, n int) []byte { return alpha.Bytes("c19-"+label, n) }

// run executes the sequence on fresh objects, comparing every output with the reference.
func run(x *vf.Ctx, f factory, seed []byte, seq []opk, pk string) {
	// every buffer handed to the XOF (seed, absorbed data, XORKeyStream source) is overwritten right after the call:
	// the XOF must not keep a reference to its caller's memory
	scribble := func(b []byte) {
		for i := range b {
			b[i] ^= 0xa5
		}
	}
	sb := append([]byte{}, seed...)
	objs := []kyber.XOF{f.mk(sb)}
	scribble(sb)
	sts := []stage{{seed: seed, factory: true, origSeed: seed}}
	desc := ""
	for si, o := range seq {
		desc += o.String() + ";"
		X, S := objs[o.obj], &sts[o.obj]
		switch o.kind {
		case "Write":
			data := pattern(fmt.Sprintf("w%d-%d", si, o.n), o.n)
			wb := append([]byte{}, data...)
			n, err := X.Write(wb)
			scribble(wb)
			if err != nil || n != o.n {
				x.Failf(pk+"/Write", "%s seed=%d: %s: Write returned %d, %v", f.name, len(seed), desc, n, err)
				return
			}
			S.absorbed = append(S.absorbed, data...)
		case "Read":
			want := expect(f, *S, o.n)
			got := make([]byte, o.n)
			n, err := X.Read(got)
			if err != nil || n != o.n {
				x.Failf(pk+"/Read", "%s seed=%d: %s: Read returned %d, %v", f.name, len(seed), desc, n, err)
				return
			}
			if !bytes.Equal(got, want) {
				x.Failf(pk+"/Read-chunking", "%s seed=%d: %s: output differs from the single-shot reference at offset %d", f.name, len(seed), desc, S.squeezed)
				return
			}
			S.squeezed += o.n
			S.reading = true
		case "XORKeyStream":
			want := expect(f, *S, o.n)
			src := pattern(fmt.Sprintf("x%d-%d", si, o.n), o.n)
			dst := make([]byte, o.n+3)
			for i := range dst {
				dst[i] = 0xEE
			}
			xs := append([]byte{}, src...)
			switch si % 3 {
			case 0: // destination and source of the same length
				X.XORKeyStream(dst[:o.n], xs)
			case 1: // a destination longer than the source (allowed by cipher.Stream): only len(src) bytes are written and consumed
				X.XORKeyStream(dst, xs)
			default: // in place
				copy(dst, xs)
				X.XORKeyStream(dst[:o.n], dst[:o.n])
			}
			if !bytes.Equal(xs, src) {
				x.Failf(pk+"/XORKeyStream-clobbers-src", "%s: %s: XORKeyStream changed its source buffer", f.name, desc)
				return
			}
			scribble(xs)
			for i := 0; i < o.n; i++ {
				if dst[i] != src[i]^want[i] {
					x.Failf(pk+"/XORKeyStream", "%s seed=%d: %s: byte %d is not src XOR the bytes Read would return", f.name, len(seed), desc, i)
					return
				}
			}
			if dst[o.n] != 0xEE {
				x.Failf(pk+"/XORKeyStream-overrun", "%s: %s: wrote past len(src)", f.name, desc)
			}
			S.squeezed += o.n
			S.reading = true
		case "Reseed":
			key := expect(f, *S, 128)
			X.Reseed()
			S.seed, S.absorbed, S.squeezed, S.reading = key, nil, 0, false
		case "Clone":
			objs = append(objs, X.Clone())
			sts = append(sts, S.clone())
		case "Reset":
			X.Reset()
			S.seed, S.absorbed, S.squeezed, S.reading = S.origSeed, nil, 0, false
		}
	}
	// final probe: every live object continues identically to its reference (this is what makes
	// Write/Reseed/Clone/Reset observable when they are the last step)
	for i, X := range objs {
		want := expect(f, sts[i], 70)
		got := make([]byte, 70)
		if n, err := X.Read(got); err != nil || n != 70 || !bytes.Equal(got, want) {
			x.Failf(pk+"/"+lastKind(seq)+"-then-Read", "%s seed=%d: %s then x%d.Read(70): output differs from the reference (New(seed), Write(absorbed), one Read)", f.name, len(seed), desc, i)
			return
		}
	}
}

func lastKind(seq []opk) string {
	if len(seq) == 0 {
		return "New"
	}
	return seq[len(seq)-1].kind
}

func menu(sts []stage, sizes []int) []opk {
	var m []opk
	for i, s := range sts {
		if !s.reading {
			for _, n := range sizes {
				m = append(m, opk{"Write", n, i})
			}
		}
		for _, n := range sizes {
			m = append(m, opk{"Read", n, i}, opk{"XORKeyStream", n, i})
		}
		m = append(m, opk{"Reseed", 0, i})
		if len(sts) < 2 {
			m = append(m, opk{"Clone", 0, i})
		}
		if s.factory {
			m = append(m, opk{"Reset", 0, i})
		}
	}
	return m
}

// model-only replay to know which operations are enabled after a prefix
func modelAfter(seq []opk) []stage {
	sts := []stage{{factory: true}}
	for _, o := range seq {
		S := &sts[o.obj]
		switch o.kind {
		case "Read", "XORKeyStream":
			S.reading = true
		case "Reseed", "Reset":
			S.reading = false
		case "Clone":
			sts = append(sts, S.clone())
		}
	}
	return sts
}

// prefixes are the fixed operation sequences that lead to the non-initial start states.
func prefixes() [][]opk {
	rep := func(o opk, k int) []opk {
		var out []opk
		for i := 0; i < k; i++ {
			out = append(out, o)
		}
		return out
	}
	var cyc []opk
	ops := []opk{{"Write", 1, 0}, {"Write", 65, 0}, {"Read", 7, 0}, {"XORKeyStream", 129, 0}, {"Reseed", 0, 0}, {"Write", 0, 0}, {"Read", 64, 0}, {"Read", 1, 0}, {"Reseed", 0, 0}}
	for i := 0; i < 27; i++ {
		cyc = append(cyc, ops[i%len(ops)])
	}
	return [][]opk{
		rep(opk{"Read", 7, 0}, 20),
		append(append(rep(opk{"Write", 1, 0}, 9), opk{"Write", 64, 0}, opk{"Read", 65, 0}, opk{"XORKeyStream", 129, 0}, opk{"Reseed", 0, 0}, opk{"Write", 137, 0}, opk{"Read", 600, 0}, opk{"Reseed", 0, 0}, opk{"Reseed", 0, 0}), opk{"Read", 1, 0}),
		{{"Read", 600, 0}, {"Clone", 0, 0}, {"Read", 64, 1}, {"Reseed", 0, 0}, {"Reseed", 0, 1}, {"Write", 65, 0}, {"Read", 129, 1}, {"XORKeyStream", 1, 0}},
		append(rep(opk{"XORKeyStream", 137, 0}, 5), opk{"Reset", 0, 0}, opk{"Write", 128, 0}, opk{"Read", 0, 0}, opk{"Read", 63, 0}),
		append(rep(opk{"Reseed", 0, 0}, 3), opk{"Write", 0, 0}, opk{"Read", 128, 0}, opk{"Reset", 0, 0}, opk{"Reset", 0, 0}, opk{"Read", 136, 0}),
		cyc,
	}
}

func Run(c *vf.Check) {
	c.Level = "model_checking"
	depth := 3
	sizes := []int{0, 1, 64, 65, 128, 129, 137, 600}
	seeds := []int{0, 1, 32, 33, 64, 65, 129, 300}
	if c.Thorough() {
		depth = 4
		sizes = []int{0, 1, 63, 64, 65, 127, 128, 129, 136, 137, 600}
		seeds = []int{0, 1, 31, 32, 33, 63, 64, 65, 128, 129, 300}
	}
	var jobs []func()
	for _, f := range factories {
		f := f
		// depth-1 over every seed length 0..300
		jobs = append(jobs, func() {
			pk := "C19/" + f.name
			for sl := 0; sl <= 300; sl++ {
				seed := pattern("seed", sl)
				for _, o := range menu([]stage{{factory: true}}, []int{0, 1, 65, 200}) {
					o := o
					id := fmt.Sprintf("%s seedlen=%d: %s", f.name, sl, o)
					c.Case(id, pk, func(x *vf.Ctx) { run(x, f, seed, []opk{o}, pk); c.Eval(1) })
					c.Count("transitions", 1)
					c.Count("traces_validated_against_impl", 1)
				}
				c.Nontrivial(fmt.Sprintf("%s seedlen %d", f.name, sl))
			}
		})
		for _, sl := range seeds {
			sl := sl
			first := menu([]stage{{factory: true}}, sizes)
			for _, o1 := range first {
				o1 := o1
				jobs = append(jobs, func() {
					pk := "C19/" + f.name
					seed := pattern("seed", sl)
					var rec func(seq []opk)
					rec = func(seq []opk) {
						id := fmt.Sprintf("%s seedlen=%d: %v", f.name, sl, seq)
						c.Case(id, pk, func(x *vf.Ctx) { run(x, f, seed, seq, pk); c.Eval(1) })
						c.Count("transitions", 1)
						c.Count("traces_validated_against_impl", 1)
						c.Count("states", 1)
						if len(seq) > 1 {
							c.Nontrivial(id)
						}
						c.Class(f.name+"/"+lastKind(seq), func() any { return id })
						if len(seq) == depth {
							return
						}
						for _, o := range menu(modelAfter(seq), sizes) {
							rec(append(append([]opk{}, seq...), o))
						}
					}
					rec([]opk{o1})
				})
			}
		}
	}
	// one level deeper on a reduced size alphabet
	if !c.Thorough() {
		small := []int{0, 65, 129}
		for _, f := range factories {
			for _, sl := range []int{0, 65} {
				for _, o1 := range menu([]stage{{factory: true}}, small) {
					f, sl, o1 := f, sl, o1
					jobs = append(jobs, func() {
						pk := "C19/" + f.name
						seed := pattern("seed", sl)
						var rec func(seq []opk)
						rec = func(seq []opk) {
							if len(seq) == 4 {
								id := fmt.Sprintf("%s seedlen=%d: %v", f.name, sl, seq)
								c.Case(id, pk, func(x *vf.Ctx) { run(x, f, seed, seq, pk); c.Eval(1) })
								c.Count("transitions", 1)
								c.Count("states", 1)
								c.Nontrivial(id)
								return
							}
							for _, o := range menu(modelAfter(seq), small) {
								rec(append(append([]opk{}, seq...), o))
							}
						}
						rec([]opk{o1})
					})
				}
			}
		}
	}
	// non-initial start states: long fixed prefixes (up to 27 steps: partially consumed blocks, several
	// reseeds, a clone that has diverged, reset after reseed), each followed by every sequence of depth <= 2
	for _, f := range factories {
		for _, sl := range []int{0, 65} {
			for pi, pre := range prefixes() {
				f, sl, pi, pre := f, sl, pi, pre
				d2 := 2
				jobs = append(jobs, func() {
					pk := "C19/" + f.name
					seed := pattern("seed", sl)
					var rec func(seq []opk)
					rec = func(seq []opk) {
						id := fmt.Sprintf("%s seedlen=%d: prefix %d %v", f.name, sl, pi, seq[len(pre):])
						c.Case(id, pk, func(x *vf.Ctx) { run(x, f, seed, seq, pk); c.Eval(1) })
						c.Count("transitions", 1)
						c.Count("traces_validated_against_impl", 1)
						c.Count("states", 1)
						c.Nontrivial(id)
						c.Class(f.name+"/after-long-prefix/"+lastKind(seq), func() any { return id })
						if len(seq) == len(pre)+d2 {
							return
						}
						for _, o := range menu(modelAfter(seq), sizes) {
							rec(append(append([]opk{}, seq...), o))
						}
					}
					rec(append([]opk{}, pre...))
				})
			}
		}
	}
	// the output is a function of the WHOLE seed and of everything absorbed: changing one byte anywhere (first, last,
	// around the 64/128/136-byte block boundaries) changes the output, for every seed length 1..300
	for _, f := range factories {
		f := f
		jobs = append(jobs, func() {
			pk := "C19/" + f.name
			for sl := 1; sl <= 300; sl++ {
				sl := sl
				id := fmt.Sprintf("%s seedlen=%d: one seed byte changed", f.name, sl)
				c.Case(id, pk, func(x *vf.Ctx) {
					seed := pattern("seed", sl)
					ref := make([]byte, 64)
					_, _ = f.mk(append([]byte{}, seed...)).Read(ref)
					for _, at := range []int{0, 31, 32, 63, 64, 65, 127, 128, 129, 135, 136, 137, 199, 200, sl - 2, sl - 1} {
						if at < 0 || at >= sl {
							continue
						}
						alt := append([]byte{}, seed...)
						alt[at] ^= 0x01
						out := make([]byte, 64)
						_, _ = f.mk(alt).Read(out)
						c.Eval(1)
						if bytes.Equal(out, ref) {
							x.Failf(pk+"/seed-byte-ignored", "%s seed of %d bytes: changing byte %d of the seed does not change the output", f.name, sl, at)
							return
						}
						// the same for absorbed data after an empty seed
						a, b := f.mk(nil), f.mk(nil)
						_, _ = a.Write(seed)
						_, _ = b.Write(alt)
						oa, ob := make([]byte, 64), make([]byte, 64)
						_, _ = a.Read(oa)
						_, _ = b.Read(ob)
						if bytes.Equal(oa, ob) {
							x.Failf(pk+"/absorbed-byte-ignored", "%s: changing byte %d of %d absorbed bytes does not change the output", f.name, at, sl)
							return
						}
					}
				})
				c.Count("transitions", 1)
			}
		})
	}
	jobs = append(jobs, randomJobs(c)...)
	vf.Parallel(len(jobs), func(i int) { jobs[i]() })
	c.Finish("engine S: blake2xb, blake2xs, keccak: every sequence of depth <= 3 (thorough 4) over {Write(c) while absorbing, Read(n), XORKeyStream(n), Reseed, Clone (exploration continues on both copies), Reset (factory-made objects)} with sizes {0,1,64,65,128,129,137,600} and seed lengths {0,1,32,33,64,65,129,300}, plus every seed length 0..300 at depth 1 (and: changing any one byte of the seed or of the absorbed data - first, last, around the block boundaries - changes the output), plus every sequence of depth <= 2 started from 6 non-initial states reached by fixed prefixes of 8-27 steps (partially consumed blocks, repeated reseeds, a diverged clone, reset after reseed); every output and a final 70-byte probe of every live object is compared with the single-shot reference (fresh New(seed), absorb, one Read); Reseed = fresh XOF keyed by the next 128 output bytes; Reset = the seeded initial state. "+
		"random.Bits: every bit length 0..1030 x exact x 4 streams; random.Int: every modulus 1..1024 and {2^(b-1), 2^b-1, 2^(b-1)+1, r} for b=1..521 under 5 streams incl. all-0xff and modulus-valued prefixes, recording stream for determinism; exhaustive first-draw enumeration (all 2^8/2^16 byte strings) for 14 moduli <= 65535: accepted outputs exactly uniform. randstream: all reader sets of size 1..3 over {good, short, failing, half-at-a-time, one-byte-at-a-time, data-with-EOF} (the output equals the one for the same bytes delivered whole), one stream over three calls with a pool reader that is empty in between and refilled: deterministic, depends on every reader's bytes, works iff one reader delivers. "+
		"non-trivial = sequences of length >= 2; moduli that are not powers of two",
		[]string{"the XOF reference is the same implementation used single-shot (the property is about chunking, cloning, reseeding and reset, not about matching a standard)"}, nil)
}
