package c19

import (
	"testing/iotest"
	"bytes"
	"crypto/cipher"
	"errors"
	"fmt"
	"io"
	"math/big"

	"go.dedis.ch/kyber/v4/compatible/compatiblemod"
	"go.dedis.ch/kyber/v4/util/random"
	"verif/harness/alpha"
	"verif/harness/vf"
)

func streams(nbytes int, m *big.Int) map[string]func() cipher.Stream {
	out := map[string]func() cipher.Stream{
		"zeros":   func() cipher.Stream { return alpha.ConstStream(0) },
		"counter": func() cipher.Stream { return &alpha.CounterStream{} },
		"x1":      func() cipher.Stream { return alpha.Stream("c19-r1") },
		"ff*3+x": func() cipher.Stream {
			return &alpha.PrefixStream{Prefix: bytes.Repeat([]byte{0xff}, 3*nbytes), Next: alpha.Stream("c19-r2")}
		},
	}
	if m != nil {
		mb := m.FillBytes(make([]byte, nbytes))
		out["m,m+1,x"] = func() cipher.Stream {
			p := append([]byte{}, mb...)
			m1 := new(big.Int).Add(m, big.NewInt(1))
			if (m1.BitLen()+7)/8 <= nbytes {
				p = append(p, m1.FillBytes(make([]byte, nbytes))...)
			}
			return &alpha.PrefixStream{Prefix: p, Next: alpha.Stream("c19-r3")}
		}
	}
	return out
}

func toBig(b []byte) *big.Int { return new(big.Int).SetBytes(b) }

func intOf(m *big.Int, s cipher.Stream) *big.Int {
	v := random.Int(compatiblemod.FromBigInt(new(big.Int).Set(m)), s)
	return new(big.Int).SetBytes(v.Bytes(nil))
}

func checkInt(c *vf.Check, x *vf.Ctx, m *big.Int, name string) {
	pk := "C19/random.Int"
	nb := (m.BitLen() + 7) / 8
	for sn, mk := range streams(nb, m) {
		rec := &alpha.PrefixStream{Next: mk()}
		v := intOf(m, rec)
		c.Eval(1)
		if v.Sign() < 0 || v.Cmp(m) >= 0 {
			x.Failf(pk+"/range", "random.Int(%s) under stream %s = %s, not below the modulus", name, sn, v)
			return
		}
		rp := &alpha.PrefixStream{Prefix: append([]byte{}, rec.Drawn...), Next: alpha.ConstStream(0x77)}
		v2 := intOf(m, rp)
		if v2.Cmp(v) != 0 || len(rp.Drawn) != len(rec.Drawn) {
			x.Failf(pk+"/determinism", "random.Int(%s): the same %d drawn bytes gave %s then %s (drew %d)", name, len(rec.Drawn), v, v2, len(rp.Drawn))
			return
		}
	}
}

type failReader struct{}

func (failReader) Read(p []byte) (int, error) { return 0, errors.New("entropy source failed") }

func randomJobs(c *vf.Check) []func() {
	var jobs []func()
	// Bits
	jobs = append(jobs, func() {
		pk := "C19/random.Bits"
		for b := 0; b <= 1030; b++ {
			b := b
			id := fmt.Sprintf("random.Bits(%d)", b)
			c.Case(id, pk, func(x *vf.Ctx) {
				for sn, mk := range streams((b+7)/8, nil) {
					for _, exact := range []bool{false, true} {
						if exact && b == 0 {
							continue // no 0-bit number has a top bit
						}
						rec := &alpha.PrefixStream{Next: mk()}
						out := random.Bits(uint(b), exact, rec)
						c.Eval(1)
						v := toBig(out)
						if len(out) != (b+7)/8 {
							x.Failf(pk+"/length", "Bits(%d,%v) returned %d bytes", b, exact, len(out))
						}
						if v.BitLen() > b {
							x.Failf(pk+"/range", "Bits(%d,%v) under %s has %d bits", b, exact, sn, v.BitLen())
						}
						if exact && v.BitLen() != b {
							x.Failf(pk+"/exact", "Bits(%d,exact) under %s has %d bits", b, sn, v.BitLen())
						}
						out2 := random.Bits(uint(b), exact, &alpha.PrefixStream{Prefix: append([]byte{}, rec.Drawn...), Next: alpha.ConstStream(0x55)})
						if !bytes.Equal(out, out2) {
							x.Failf(pk+"/determinism", "Bits(%d,%v): same drawn bytes, different results", b, exact)
						}
					}
				}
			})
			c.Count("transitions", 1)
			c.Nontrivial(id)
		}
	})
	// Int: every modulus 1..1024
	for lo := 1; lo <= 1024; lo += 128 {
		lo := lo
		jobs = append(jobs, func() {
			for m := lo; m < lo+128 && m <= 1024; m++ {
				m := m
				id := fmt.Sprintf("random.Int(mod %d)", m)
				c.Case(id, "C19/random.Int", func(x *vf.Ctx) { checkInt(c, x, big.NewInt(int64(m)), fmt.Sprint(m)) })
				c.Count("transitions", 1)
				if m&(m-1) != 0 {
					c.Nontrivial(id)
				}
			}
		})
	}
	// Int: boundary moduli per bit length
	for lo := 1; lo <= 521; lo += 40 {
		lo := lo
		jobs = append(jobs, func() {
			for b := lo; b < lo+40 && b <= 521; b++ {
				one := big.NewInt(1)
				p := new(big.Int).Lsh(one, uint(b-1))
				ms := map[string]*big.Int{
					fmt.Sprintf("2^%d", b-1):   p,
					fmt.Sprintf("2^%d-1", b):   new(big.Int).Sub(new(big.Int).Lsh(one, uint(b)), one),
					fmt.Sprintf("2^%d+1", b-1): new(big.Int).Add(p, one),
					fmt.Sprintf("r%d", b):      new(big.Int).Or(p, alpha.Rand(fmt.Sprintf("c19-m%d", b), p)),
				}
				for name, m := range ms {
					name, m := name, m
					id := "random.Int(mod " + name + ")"
					c.Case(id, "C19/random.Int", func(x *vf.Ctx) { checkInt(c, x, m, name) })
					c.Count("transitions", 1)
					c.Nontrivial(id)
				}
			}
		})
	}
	// bias: exhaustive first draw
	for _, m := range []int{1, 2, 3, 5, 7, 8, 9, 127, 128, 129, 200, 255, 256, 257, 1000, 4097, 40000, 65535} {
		m := m
		jobs = append(jobs, func() {
			id := fmt.Sprintf("random.Int(mod %d) exhaustive first draw", m)
			c.Case(id, "C19/random.Int/bias", func(x *vf.Ctx) {
				mb := big.NewInt(int64(m))
				bl := mb.BitLen()
				nb := (bl + 7) / 8
				counts := make([]int, m)
				rejected := 0
				total := 1 << (8 * nb)
				for v := 0; v < total; v++ {
					pre := make([]byte, nb)
					for i := 0; i < nb; i++ {
						pre[i] = byte(v >> (8 * (nb - 1 - i)))
					}
					rec := &alpha.PrefixStream{Prefix: pre, Next: alpha.ConstStream(0)}
					out := intOf(mb, rec)
					if len(rec.Drawn) > nb {
						rejected++
						continue
					}
					o := int(out.Int64())
					if o < 0 || o >= m {
						x.Failf("C19/random.Int/range", "random.Int(mod %d) returned %d for first draw %x", m, o, pre)
						return
					}
					counts[o]++
				}
				c.Eval(total)
				want := total >> bl << 0
				want = 1 << (8*nb - bl)
				for o, n := range counts {
					if n != want {
						x.Failf("C19/random.Int/bias", "random.Int(mod %d): value %d is produced by %d of the %d first draws, every value should be produced by exactly %d (rejected: %d)", m, o, n, total, want, rejected)
						return
					}
				}
				if rejected != total-want*m {
					x.Failf("C19/random.Int/bias", "random.Int(mod %d): %d first draws rejected, expected %d", m, rejected, total-want*m)
				}
			})
			c.Count("transitions", 1)
			c.Nontrivial(id)
		})
	}
	// randstream
	jobs = append(jobs, func() {
		pk := "C19/randstream"
		kinds := []string{"good", "short", "fail", "half", "onebyte", "dataerr"} // the last three deliver the same bytes as "good", a few at a time / together with io.EOF
		var rec func(set []string)
		rec = func(set []string) {
			if len(set) > 0 {
				set := append([]string{}, set...)
				id := fmt.Sprintf("random.New(%v)", set)
				c.Case(id, pk, func(x *vf.Ctx) {
					mkReaders := func(flip int) []io.Reader {
						var rs []io.Reader
						for i, k := range set {
							data := alpha.Bytes(fmt.Sprintf("c19-reader-%d", i), 64)
							if i == flip {
								data[3] ^= 0x20
							}
							switch k {
							case "good":
								rs = append(rs, bytes.NewReader(data))
							case "short":
								rs = append(rs, bytes.NewReader(data[:7]))
							case "fail":
								rs = append(rs, failReader{})
							case "half":
								rs = append(rs, iotest.HalfReader(bytes.NewReader(data)))
							case "onebyte":
								rs = append(rs, iotest.OneByteReader(bytes.NewReader(data)))
							case "dataerr":
								rs = append(rs, iotest.DataErrReader(bytes.NewReader(data[:32])))
							}
						}
						return rs
					}
					draw := func(flip int) (out []byte, panicked bool) {
						defer func() {
							if r := recover(); r != nil {
								panicked = true
							}
						}()
						s := random.New(mkReaders(flip)...)
						out = make([]byte, 48)
						s.XORKeyStream(out, out)
						return out, false
					}
					anyGood := false
					plain := append([]string{}, set...)
					for i, k := range set {
						if k == "good" || k == "half" || k == "onebyte" || k == "dataerr" {
							anyGood = true
							plain[i] = "good"
						}
					}
					o1, p1 := draw(-1)
					o2, p2 := draw(-1)
					c.Eval(1)
					if anyGood && (p1 || p2) {
						x.Failf(pk+"/works", "%s panics although one reader delivers its bytes", id)
						return
					}
					if p1 != p2 || !bytes.Equal(o1, o2) {
						x.Failf(pk+"/determinism", "%s: same reader contents, different output", id)
						return
					}
					if p1 {
						return
					}
					// a function of the bytes consumed: the same bytes delivered whole give the same output
					{
						saved := set
						set = plain
						o4, p4 := draw(-1)
						set = saved
						if p4 || !bytes.Equal(o4, o1) {
							x.Failf(pk+"/function-of-bytes", "%s: the output differs from the one obtained when the same bytes are delivered by plain readers", id)
							return
						}
					}
					for j, k := range set {
						if k == "fail" {
							continue
						}
						o3, p3 := draw(j)
						if p3 || bytes.Equal(o3, o1) {
							x.Failf(pk+"/depends-on-every-reader", "%s: changing a byte supplied by reader %d (%s) does not change the output", id, j, k)
						}
					}
				})
				c.Count("transitions", 1)
				c.Nontrivial(id)
			}
			if len(set) == 3 {
				return
			}
			for _, k := range kinds {
				rec(append(append([]string{}, set...), k))
			}
		}
		rec(nil)
		// one stream object over three calls; reader 1 is a pool that is empty during the second call and refilled
		// before the third: the third output depends on the refill, and the stream keeps working on the pool alone
		for variant := 0; variant < 2; variant++ {
			variant := variant
			id := fmt.Sprintf("random.New(good, pool): three calls, pool empty in the second and refilled before the third (variant %d)", variant)
			c.Case(id, pk, func(x *vf.Ctx) {
				run := func(flip bool) (outs [][]byte, panicked bool) {
					defer func() {
						if r := recover(); r != nil {
							panicked = true
						}
					}()
					goodLen := 96
					if variant == 1 {
						goodLen = 64 // the steady reader runs dry before the third call: only the pool delivers then
					}
					good := bytes.NewReader(alpha.Bytes("c19-pool-good", goodLen))
					pool := &bytes.Buffer{}
					pool.Write(alpha.Bytes("c19-pool-1", 32))
					s := random.New(good, pool)
					for call := 0; call < 3; call++ {
						if call == 2 {
							refill := alpha.Bytes("c19-pool-refill", 32)
							if flip {
								refill[5] ^= 0x10
							}
							pool.Write(refill)
						}
						o := make([]byte, 40)
						s.XORKeyStream(o, o)
						outs = append(outs, o)
					}
					return outs, false
				}
				a, pa := run(false)
				b, pb := run(true)
				c.Eval(2)
				if pa || pb {
					x.Failf(pk+"/works", "%s: panics although a reader delivers in every call", id)
					return
				}
				if !bytes.Equal(a[0], b[0]) || !bytes.Equal(a[1], b[1]) {
					x.Failf(pk+"/determinism", "%s: the first two outputs differ between two runs with the same bytes", id)
					return
				}
				if bytes.Equal(a[2], b[2]) {
					x.Failf(pk+"/depends-on-every-reader", "%s: the third output does not depend on the bytes the pool delivers in the third call", id)
				}
			})
			c.Count("transitions", 3)
			c.Nontrivial(id)
		}
	})
	return jobs
}
