// Package c01: group laws in every group, exhaustively over a closure of
// API-reachable values and the scalar alphabet, against the free-module model.
package c01

import (
	"go.dedis.ch/kyber/v4"
	"bytes"
	"fmt"
	"math/big"

	"verif/harness/alpha"
	"verif/harness/fmod"
	"verif/harness/groups"
	"verif/harness/vf"
)

func Run(c *vf.Check) {
	c.Level = "model_checking"
	gs := groups.All()
	vf.Parallel(len(gs), func(i int) { runGroup(c, gs[i]) })
	c.Finish("engine E/S: per group, seeds {O,B,g1(Pick),g2(Hash/Embed),dec(5B)}; level-1 closure under Add/Sub/Neg/Mul(s in S(q))/Mul(s,nil); "+
		"0*P, 1*P, 2*P, (q-1)P with the scalar made by SetInt64/Zero/One/SetBytes on objects that held q-1, a picked or a decoded value before; Mul(s,x) and Mul(s,nil) for the 48 scalars k*lambda+d (lambda a cube root of unity mod q, k=1..4, d=-2..3) on the groups whose order admits the endomorphism split; level 2: all Add/Sub pairs over the closure R, Neg, Mul(s,x), associativity triples, (a+b)P, (a-b)P, (-a)P, a(bP), Mul(s,nil) vs Mul(s,B). "+
		"Every API result is compared (Equal both ways + encoding) with the free-module model value recomputed with Point.Add only; all pairs of R: Equal<=>same vector<=>same bytes. "+
		"non-trivial = no operand is the identity, no scalar in {0,1}, result vector differs from every operand vector; distinct by (group, expression)",
		[]string{"generators obtained from Pick/Hash/Embed have no known discrete-log relation (model inequality => group inequality)",
			"Point.Add is the only implementation operation the reference recomputation uses; a defect confined to Add that is self-consistent is left to C18 (independent curve model)",
			"scalars reach the implementation through UnmarshalBinary of canonical encodings (C02/C03 judge that)"},
		nil)
}

func nontriv(c *vf.Check, g string, m *fmod.Model, res fmod.V, ops ...fmod.V) {
	for _, o := range ops {
		if o.Vec.IsZero() || o.Vec.Eq(res.Vec) {
			return
		}
	}
	if res.Vec.IsZero() {
		return
	}
	c.Nontrivial(g + "|" + res.Name)
}

func runGroup(c *vf.Check, g *groups.G) {
	lvl := 1
	if c.Thorough() {
		lvl = 2
	}
	var m *fmod.Model
	okInit := false
	c.Case(g.Name+": model setup", "C01/"+g.Name+"/setup", func(x *vf.Ctx) {
		m = fmod.New(g)
		okInit = true
	})
	if !okInit {
		return
	}
	S := alpha.Scalars(g.Order, lvl)
	score := alpha.Scalars(g.Order, 0)
	if g.Slow && !c.Thorough() {
		score = score[:8]
	}
	pk := "C01/" + g.Name
	states, trans := int64(0), int64(0)

	// checked applies the oracle to one API result inside its own case.
	checked := func(mk func() fmod.V, ops ...fmod.V) (fmod.V, bool) {
		var out fmod.V
		ok := false
		// the case id is the expression; build it lazily through a first run
		var name string
		func() {
			defer func() { recover() }()
			out = mk()
			name = out.Name
		}()
		if name == "" {
			name = "expr-with-panic"
		}
		c.Case(g.Name+": "+name, pk+"/"+opOf(name), func(x *vf.Ctx) {
			v := mk()
			c.Eval(1)
			if d := m.Agree(v); d != "" {
				x.Fail(pk+"/"+opOf(v.Name), d, nil)
				return
			}
			out, ok = v, true
		})
		trans++
		if ok {
			nontriv(c, g.Name, m, out, ops...)
			c.Class(g.Name+"/"+opOf(name)+"/agree", func() any { return name + " = " + m.Describe(out.Vec) })
		}
		return out, ok
	}

	// seeds
	var seeds []fmod.V
	seeds = append(seeds, m.Null())
	for i := range m.Gens {
		seeds = append(seeds, m.Gen(i))
	}
	five := alpha.NS{Name: "5", V: big.NewInt(5)}
	if v, ok := checked(func() fmod.V { return m.Decoded(m.Mul(five, m.Gen(0))) }); ok {
		seeds = append(seeds, v)
	}
	for _, s := range seeds {
		s := s
		checked(func() fmod.V { return s })
	}
	// level 1
	R := append([]fmod.V{}, seeds...)
	for _, a := range seeds {
		a := a
		if v, ok := checked(func() fmod.V { return m.Neg(a) }, a); ok {
			R = append(R, v)
		}
		for _, b := range seeds {
			b := b
			if v, ok := checked(func() fmod.V { return m.Add(a, b) }, a, b); ok {
				R = append(R, v)
			}
			if v, ok := checked(func() fmod.V { return m.Sub(a, b) }, a, b); ok {
				R = append(R, v)
			}
		}
	}
	var mulTargets []fmod.V
	mulTargets = append(mulTargets, seeds[1]) // B
	if len(seeds) > 2 {
		mulTargets = append(mulTargets, seeds[2]) // g1
	}
	if !g.Slow || c.Thorough() {
		mulTargets = append(mulTargets, seeds[0], seeds[len(seeds)-1]) // O, dec(5B)
	}
	for _, s := range S {
		s := s
		for _, a := range mulTargets {
			a := a
			if v, ok := checked(func() fmod.V { return m.Mul(s, a) }, a); ok && (s.V.Cmp(big.NewInt(1)) > 0) {
				R = append(R, v)
			}
		}
		if g.MulNil {
			checked(func() fmod.V { return m.MulBase(s) })
		}
	}
	// the named scalars 0, 1, 2, q-1 made by the setters on scalar OBJECTS THAT HELD ANOTHER VALUE BEFORE (a reused
	// variable, as in accumulator loops): 0*P = O, 1*P = P, 2*P = P+P, (q-1)P = -P whatever the object held
	{
		priors := []struct {
			name string
			f    func() kyber.Scalar
		}{
			{"fresh", func() kyber.Scalar { return g.Scalar() }},
			{"held q-1", func() kyber.Scalar { return g.Scalar().SetInt64(-1) }},
			{"held a picked value", func() kyber.Scalar { return g.Scalar().Pick(alpha.Stream("c01-prior-pick")) }},
			{"held r1 (decoded)", func() kyber.Scalar { return m.Sc(alpha.Rand("r1", g.Order)) }},
		}
		setters := []struct {
			name string
			v    int64
			f    func(s kyber.Scalar)
		}{
			{"SetInt64(0)", 0, func(s kyber.Scalar) { s.SetInt64(0) }}, {"Zero()", 0, func(s kyber.Scalar) { s.Zero() }},
			{"SetInt64(1)", 1, func(s kyber.Scalar) { s.SetInt64(1) }}, {"One()", 1, func(s kyber.Scalar) { s.One() }},
			{"SetInt64(2)", 2, func(s kyber.Scalar) { s.SetInt64(2) }}, {"SetInt64(-1)", -1, func(s kyber.Scalar) { s.SetInt64(-1) }},
			{"SetBytes({1})", 1, func(s kyber.Scalar) { s.SetBytes([]byte{1}) }},
		}
		a := seeds[1]
		if len(mulTargets) > 1 {
			a = mulTargets[1]
		}
		for _, pr := range priors {
			for _, st := range setters {
				pr, st := pr, st
				checked(func() fmod.V {
					sc := pr.f()
					st.f(sc)
					val := new(big.Int).Mod(big.NewInt(st.v), g.Order)
					return fmod.V{Name: fmt.Sprintf("Mul(%s on a scalar that %s, %s)", st.name, pr.name, a.Name), P: g.Point().Mul(sc, a.P), Vec: m.VMul(val, a.Vec)}
				}, a)
			}
		}
	}
	// scalars around the small multiples of the cube roots of unity mod q (where an endomorphism split changes shape)
	for _, s := range alpha.Endo(g.Order) {
		s := s
		for ti, a := range mulTargets {
			if ti >= 2 && !c.Thorough() {
				break
			}
			a := a
			checked(func() fmod.V { return m.Mul(s, a) }, a)
		}
		if g.MulNil {
			checked(func() fmod.V { return m.MulBase(s) })
		}
	}
	// de-duplicate R by (vector, top-level operation): different representations are kept
	seen := map[string]bool{}
	var RR []fmod.V
	for _, v := range R {
		k := v.Vec.Key() + "|" + opOf(v.Name)
		if seen[k] {
			continue
		}
		seen[k] = true
		RR = append(RR, v)
	}
	R = RR
	maxR := 64
	if c.Thorough() {
		maxR = 120
	}
	if g.Slow && !c.Thorough() {
		maxR = 28
	}
	if len(R) > maxR {
		// keep seeds and spread the rest evenly (deterministic)
		keep := append([]fmod.V{}, R[:len(seeds)]...)
		rest := R[len(seeds):]
		n := maxR - len(seeds)
		for i := 0; i < n; i++ {
			keep = append(keep, rest[i*len(rest)/n])
		}
		R = keep
	}
	states = int64(len(R))

	// pairwise Equal <=> vector equality <=> bytes equality
	c.Case(g.Name+": pairwise Equal/encoding over R", pk+"/Equal", func(x *vf.Ctx) {
		encs := make([][]byte, len(R))
		for i, v := range R {
			encs[i] = fmod.Enc(v.P)
		}
		for i, a := range R {
			for j, b := range R {
				c.Eval(1)
				me := a.Vec.Eq(b.Vec)
				if a.P.Equal(b.P) != me {
					x.Failf(pk+"/Equal", "%s.Equal(%s)=%v but model says %v", a.Name, b.Name, !me, me)
					return
				}
				if bytes.Equal(encs[i], encs[j]) != me {
					x.Failf(pk+"/Equal-bytes", "encodings of %s and %s equal=%v but model says %v", a.Name, b.Name, !me, me)
					return
				}
				if !me {
					c.Nontrivial(g.Name + "|neq|" + a.Name + "|" + b.Name)
				}
			}
		}
	})

	// level 2: all pairs Add / Sub, commutativity by direct Equal
	for _, a := range R {
		a := a
		checked(func() fmod.V { return m.Neg(a) }, a)
		checked(func() fmod.V {
			x := m.Decoded(a)
			x.P.Add(x.P, x.P)
			return fmod.V{Name: "DoubleInPlace(" + a.Name + ")", P: x.P, Vec: m.VAdd(a.Vec, a.Vec)}
		}, a)
		checked(func() fmod.V {
			x := m.Decoded(a)
			x.P.Neg(x.P)
			return fmod.V{Name: "NegInPlace(" + a.Name + ")", P: x.P, Vec: m.VSub(m.VSub(a.Vec, a.Vec), a.Vec)}
		}, a)
		for _, b := range R {
			b := b
			ab, ok1 := checked(func() fmod.V { return m.Add(a, b) }, a, b)
			checked(func() fmod.V { return m.Sub(a, b) }, a, b)
			// accumulator forms: the receiver is the first operand
			checked(func() fmod.V {
				x := m.Decoded(a)
				x.P.Add(x.P, b.P)
				return fmod.V{Name: "AddInPlace(" + a.Name + "," + b.Name + ")", P: x.P, Vec: m.VAdd(a.Vec, b.Vec)}
			}, a, b)
			checked(func() fmod.V {
				x := m.Decoded(a)
				x.P.Sub(x.P, b.P)
				return fmod.V{Name: "SubInPlace(" + a.Name + "," + b.Name + ")", P: x.P, Vec: m.VSub(a.Vec, b.Vec)}
			}, a, b)
			// ... the receiver is the second operand, and both
			checked(func() fmod.V {
				x := m.Decoded(b)
				x.P.Add(a.P, x.P)
				return fmod.V{Name: "AddInPlace2(" + a.Name + "," + b.Name + ")", P: x.P, Vec: m.VAdd(a.Vec, b.Vec)}
			}, a, b)
			checked(func() fmod.V {
				x := m.Decoded(b)
				x.P.Sub(a.P, x.P)
				return fmod.V{Name: "SubInPlace2(" + a.Name + "," + b.Name + ")", P: x.P, Vec: m.VSub(a.Vec, b.Vec)}
			}, a, b)
			checked(func() fmod.V {
				x := m.Decoded(a)
				x.P.Add(x.P, b.P)
				x.P.Sub(x.P, b.P)
				return fmod.V{Name: "AddSubInPlace(" + a.Name + "," + b.Name + ")", P: x.P, Vec: a.Vec}
			}, a, b)
			if ok1 {
				c.Case(g.Name+": comm "+ab.Name, pk+"/Add-comm", func(x *vf.Ctx) {
					ba := m.Add(b, a)
					c.Eval(1)
					if !ab.P.Equal(ba.P) || !ba.P.Equal(ab.P) {
						x.Failf(pk+"/Add-comm", "%s != %s", ab.Name, ba.Name)
					}
				})
			}
		}
	}
	// associativity
	R3 := R
	nR3 := 16
	if c.Thorough() {
		nR3 = 30
	}
	if len(R3) > nR3 {
		var t []fmod.V
		for i := 0; i < nR3; i++ {
			t = append(t, R[i*len(R)/nR3])
		}
		R3 = t
	}
	for _, a := range seeds {
		for _, b := range R3 {
			for _, d := range R3 {
				a, b, d := a, b, d
				l, ok1 := checked(func() fmod.V { return m.Add(m.Add(a, b), d) }, a, b, d)
				r, ok2 := checked(func() fmod.V { return m.Add(a, m.Add(b, d)) }, a, b, d)
				if ok1 && ok2 {
					c.Case(g.Name+": assoc "+l.Name, pk+"/Add-assoc", func(x *vf.Ctx) {
						c.Eval(1)
						if !l.P.Equal(r.P) {
							x.Failf(pk+"/Add-assoc", "%s != %s", l.Name, r.Name)
						}
					})
				}
			}
		}
	}
	// scalar action over R
	RM := R
	nRM := 8
	if c.Thorough() {
		nRM = 24
	}
	if g.Slow && !c.Thorough() {
		nRM = 5
	}
	if len(RM) > nRM {
		var t []fmod.V
		for i := 0; i < nRM; i++ {
			t = append(t, R[i*len(R)/nRM])
		}
		RM = t
	}
	for _, s := range score {
		for _, a := range RM {
			s, a := s, a
			checked(func() fmod.V { return m.Mul(s, a) }, a)
		}
	}
	// (a+b)P = aP+bP and a(bP) = (ab)P, with a+b and ab computed by the implementation's scalars
	P2 := []fmod.V{seeds[1]}
	if len(seeds) > 2 {
		P2 = append(P2, seeds[2])
	}
	if !g.Slow {
		P2 = append(P2, R[len(R)-1])
	}
	for _, a := range score {
		for _, b := range score {
			for _, p := range P2 {
				a, b, p := a, b, p
				checked(func() fmod.V {
					sa, sb := m.Sc(a.V), m.Sc(b.V)
					sum := g.Scalar().Add(sa, sb)
					return fmod.V{Name: "Mul(" + a.Name + "+" + b.Name + "," + p.Name + ")", P: g.Point().Mul(sum, p.P),
						Vec: m.VMul(new(big.Int).Add(a.V, b.V), p.Vec)}
				}, p)
				checked(func() fmod.V {
					diff := g.Scalar().Sub(m.Sc(a.V), m.Sc(b.V))
					return fmod.V{Name: "Mul(" + a.Name + "-" + b.Name + "," + p.Name + ")", P: g.Point().Mul(diff, p.P),
						Vec: m.VMul(new(big.Int).Sub(a.V, b.V), p.Vec)}
				}, p)
				if a.Name == b.Name {
					checked(func() fmod.V {
						neg := g.Scalar().Neg(m.Sc(a.V))
						return fmod.V{Name: "Mul(-" + a.Name + "," + p.Name + ")", P: g.Point().Mul(neg, p.P),
							Vec: m.VMul(new(big.Int).Neg(a.V), p.Vec)}
					}, p)
				}
				checked(func() fmod.V { return m.Add(m.Mul(a, p), m.Mul(b, p)) }, p)
				checked(func() fmod.V { return m.Mul(a, m.Mul(b, p)) }, p)
				checked(func() fmod.V {
					prod := g.Scalar().Mul(m.Sc(a.V), m.Sc(b.V))
					return fmod.V{Name: "Mul(" + a.Name + "*" + b.Name + "," + p.Name + ")", P: g.Point().Mul(prod, p.P),
						Vec: m.VMul(new(big.Int).Mul(a.V, b.V), p.Vec)}
				}, p)
			}
		}
		if c.Expired() {
			c.Cap(g.Name + ": deadline in distributivity")
			break
		}
	}
	// the generator and the identity are constants of the group: whatever is done in place to a point object that was
	// set to Base() or Null() - overwriting it with the identity, a small value, a sum - later Base()/Null() calls and
	// the multiples of the implicit generator are what they were
	if g.Base {
		// reference encodings taken once, before the case (a re-run of the case must judge against the same values:
		// a change that corrupts the group's constants would otherwise be its own reference the second time)
		b0 := fmod.Enc(g.Point().Base())
		o0 := fmod.Enc(g.Point().Null())
		five := m.Sc(big.NewInt(5))
		var m5 []byte
		if g.MulNil {
			m5 = fmod.Enc(g.Point().Mul(five, nil))
		}
		c.Case(g.Name+": Base()/Null() results overwritten in place", pk+"/generator-stable", func(x *vf.Ctx) {
			one := g.Point().Base()
			for step, f := range []func(p kyber.Point){
				func(p kyber.Point) { p.Null() },
				func(p kyber.Point) { p.Set(g.Point().Null()) },
				func(p kyber.Point) { p.Add(p, p) },
				func(p kyber.Point) { p.Neg(p) },
				func(p kyber.Point) { p.Sub(p, one) },
				func(p kyber.Point) { p.Mul(five, p) },
				func(p kyber.Point) { p.Set(g.Point().Add(one, one)) },
			} {
				bp := g.Point().Base()
				f(bp)
				np := g.Point().Null()
				f(np)
				c.Eval(1)
				if !bytes.Equal(fmod.Enc(g.Point().Base()), b0) {
					x.Failf(pk+"/generator-stable", "after in-place operation #%d on a point that had been set to Base(), Base() returns another value", step)
					return
				}
				if !bytes.Equal(fmod.Enc(g.Point().Null()), o0) {
					x.Failf(pk+"/generator-stable", "after in-place operation #%d on a point that had been set to Null(), Null() returns another value", step)
					return
				}
				if m5 != nil && !bytes.Equal(fmod.Enc(g.Point().Mul(five, nil)), m5) {
					x.Failf(pk+"/generator-stable", "after in-place operation #%d on Base()/Null() results, Mul(5,nil) returns another value", step)
					return
				}
			}
		})
		trans++
	}
	c.Count("states", states)
	c.Count("transitions", trans)
	c.Count("traces_validated_against_impl", trans)
	c.Note(fmt.Sprintf("%s: |S(q)|=%d |S-core|=%d |seeds|=%d |R|=%d generators=%d", g.Name, len(S), len(score), len(seeds), len(R), len(m.Gens)))
}

func opOf(name string) string {
	for i, ch := range name {
		if ch == '(' {
			return name[:i]
		}
	}
	return "seed"
}
