package c14

// Nested And predicates (an And below an And, alone and as an Or branch) and one Predicate object used with suites of
// several groups one after the other.

import (
	"fmt"

	"go.dedis.ch/kyber/v4"
	"go.dedis.ch/kyber/v4/proof"
	"verif/harness/alpha"
	"verif/harness/vf"
)

func nestedAndJobs(c *vf.Check) []func() {
	var jobs []func()
	for _, gn := range []string{"ed25519", "p256"} {
		for shape := 0; shape < 5; shape++ {
			gn, shape := gn, shape
			jobs = append(jobs, func() { runNestedAnd(c, gn, shape) })
		}
	}
	jobs = append(jobs, func() { runPredicateReuse(c) }, func() { runSharedSubPredicate(c, "ed25519") }, func() { runSharedSubPredicate(c, "p256") })
	return jobs
}

// four representation statements Xi = xi * Bi; the conjunctions below must bind every one of their members
func nestedAndPredicate(shape int) (proof.Predicate, string, []int, map[proof.Predicate]int) {
	r := []proof.Predicate{proof.Rep("X0", "x0", "B"), proof.Rep("X1", "x1", "H"), proof.Rep("X2", "x2", "B"), proof.Rep("X3", "x3", "H")}
	switch shape {
	case 0:
		return proof.And(proof.And(r[0], r[1]), r[2]), "And(And(R0,R1),R2)", []int{0, 1, 2}, nil
	case 1:
		return proof.And(r[0], proof.And(r[1], r[2])), "And(R0,And(R1,R2))", []int{0, 1, 2}, nil
	case 2:
		return proof.And(proof.And(r[0], r[1]), r[2], r[3]), "And(And(R0,R1),R2,R3)", []int{0, 1, 2, 3}, nil
	case 3:
		return proof.And(proof.And(r[0], r[1], r[2]), proof.And(r[3])), "And(And(R0,R1,R2),And(R3))", []int{0, 1, 2, 3}, nil
	default:
		or := proof.Or(proof.And(proof.And(r[0], r[1]), r[2]), r[3])
		return or, "Or(And(And(R0,R1),R2),R3) proving the first branch", []int{0, 1, 2}, map[proof.Predicate]int{or: 0}
	}
}

func runNestedAnd(c *vf.Check, gn string, shape int) {
	pk := "C14/" + gn + "/nested-and"
	w := newWorld(gn)
	s := w.s
	B, H := w.base[0], w.base[1]
	bases := []kyber.Point{B, H, B, H}
	pred, desc, members, choice := nestedAndPredicate(shape)
	id := fmt.Sprintf("%s %s", gn, desc)
	c.Case(id, pk, func(x *vf.Ctx) {
		suite := seededSuite(s, id)
		sv := map[string]kyber.Scalar{}
		pv := map[string]kyber.Point{"B": B, "H": H}
		for i := 0; i < 4; i++ {
			xi := alpha.ToScalar(s.Scalar(), alpha.Rand(fmt.Sprintf("c14-nand-%d", i), w.g.Order), w.g.Order)
			sv[fmt.Sprintf("x%d", i)] = xi
			pv[fmt.Sprintf("X%d", i)] = s.Point().Mul(xi, bases[i])
		}
		if choice != nil {
			// the branch not proven is false
			pv["X3"] = s.Point().Pick(alpha.Stream("c14-nand-false-branch"))
		}
		prf, err := proof.HashProve(suite, "c14-nand", pred.Prover(suite, sv, pv, choice))
		c.Eval(1)
		if err != nil {
			x.Failf(pk+"/prove-failed", "%s: HashProve fails on a true statement: %v", id, err)
			return
		}
		if err := proof.HashVerify(suite, "c14-nand", pred.Verifier(suite, pv), prf); err != nil {
			x.Failf(pk+"/honest-rejected", "%s: honest proof rejected: %v", id, err)
			return
		}
		for _, mi := range members {
			// member mi falsified: (a) the prover does not know its secret, (b) the proof is checked against another point
			badS := map[string]kyber.Scalar{}
			for k, v := range sv {
				badS[k] = v
			}
			badS[fmt.Sprintf("x%d", mi)] = s.Scalar().Add(sv[fmt.Sprintf("x%d", mi)], s.Scalar().One())
			c.Eval(2)
			func() {
				defer func() { _ = recover() }()
				bp, err := proof.HashProve(suite, "c14-nand", pred.Prover(suite, badS, pv, choice))
				if err == nil && proof.HashVerify(suite, "c14-nand", pred.Verifier(suite, pv), bp) == nil {
					x.Failf(pk+"/false-secret-accepted", "%s: a prover with a wrong secret for member R%d obtains an accepted proof", id, mi)
				}
			}()
			badP := map[string]kyber.Point{}
			for k, v := range pv {
				badP[k] = v
			}
			badP[fmt.Sprintf("X%d", mi)] = s.Point().Add(pv[fmt.Sprintf("X%d", mi)], B)
			if proof.HashVerify(suite, "c14-nand", pred.Verifier(suite, badP), prf) == nil {
				x.Failf(pk+"/other-points-accepted", "%s: the proof verifies with the public point of member R%d replaced", id, mi)
			}
		}
	})
	c.Count("transitions", 1)
	c.Nontrivial(id)
}

// runPredicateReuse: one Predicate value (built once) used with suites of three groups in every order, twice each.
func runPredicateReuse(c *vf.Check) {
	pk := "C14/predicate-reuse"
	gns := []string{"ed25519", "p256", "bn256.G1"}
	orders := [][]int{{0, 1, 2}, {1, 0, 2}, {2, 1, 0}, {0, 0, 1}, {1, 2, 1}}
	for _, ord := range orders {
		ord := ord
		id := fmt.Sprintf("one predicate object used with the groups %v in turn", ord)
		c.Case(id, pk, func(x *vf.Ctx) {
			or := proof.Or(proof.And(proof.Rep("X0", "x0", "B"), proof.Rep("X1", "x1", "H")), proof.Rep("X2", "x2", "B"))
			for step, gi := range ord {
				w := newWorld(gns[gi])
				s := w.s
				suite := seededSuite(s, fmt.Sprintf("%s step %d", id, step))
				B, H := w.base[0], w.base[1]
				sv := map[string]kyber.Scalar{}
				pv := map[string]kyber.Point{"B": B, "H": H}
				for i, b := range []kyber.Point{B, H, B} {
					xi := alpha.ToScalar(s.Scalar(), alpha.Rand(fmt.Sprintf("c14-reuse-%d", i), w.g.Order), w.g.Order)
					sv[fmt.Sprintf("x%d", i)] = xi
					pv[fmt.Sprintf("X%d", i)] = s.Point().Mul(xi, b)
				}
				for branch := 0; branch < 2; branch++ {
					var prf []byte
					var err error
					func() {
						defer func() {
							if r := recover(); r != nil {
								err = fmt.Errorf("panic: %v", r)
							}
						}()
						prf, err = proof.HashProve(suite, "c14-reuse", or.Prover(suite, sv, pv, map[proof.Predicate]int{or: branch}))
						if err == nil {
							err = proof.HashVerify(suite, "c14-reuse", or.Verifier(suite, pv), prf)
						}
					}()
					c.Eval(1)
					if err != nil {
						x.Failf(pk+"/honest-rejected", "%s: step %d (group %s, branch %d): a true statement is not proven and accepted: %v", id, step, gns[gi], branch, err)
						return
					}
				}
			}
		})
		c.Count("transitions", int64(len(ord)))
		c.Nontrivial(id)
	}
}

// runSharedSubPredicate: one Rep value used as a member of several conjunctions (a statement common to all branches of
// an Or, written once): the predicate means the same as with one Rep value per occurrence, so a true statement is
// proven and accepted, whichever branch is chosen.
func runSharedSubPredicate(c *vf.Check, gn string) {
	pk := "C14/" + gn + "/shared-subpredicate"
	w := newWorld(gn)
	s := w.s
	B, H := w.base[0], w.base[1]
	for shape := 0; shape < 2; shape++ {
		for branch := 0; branch < 2; branch++ {
			shape, branch := shape, branch
			desc := []string{"Or(And(L,R1),And(L,R2)) with one Rep value L in both branches", "And(L,L) with one Rep value twice"}[shape]
			if shape == 1 && branch == 1 {
				continue
			}
			id := fmt.Sprintf("%s %s, branch %d", gn, desc, branch)
			c.Case(id, pk, func(x *vf.Ctx) {
				suite := seededSuite(s, id)
				sv := map[string]kyber.Scalar{}
				pv := map[string]kyber.Point{"B": B, "H": H}
				for i, b := range []kyber.Point{B, H, B} {
					xi := alpha.ToScalar(s.Scalar(), alpha.Rand(fmt.Sprintf("c14-shared-%d", i), w.g.Order), w.g.Order)
					sv[fmt.Sprintf("x%d", i)] = xi
					pv[fmt.Sprintf("X%d", i)] = s.Point().Mul(xi, b)
				}
				link := proof.Rep("X0", "x0", "B")
				var pred proof.Predicate
				var choice map[proof.Predicate]int
				if shape == 0 {
					or := proof.Or(proof.And(link, proof.Rep("X1", "x1", "H")), proof.And(link, proof.Rep("X2", "x2", "B")))
					pred, choice = or, map[proof.Predicate]int{or: branch}
				} else {
					pred = proof.And(link, link)
				}
				var err error
				func() {
					defer func() {
						if r := recover(); r != nil {
							err = fmt.Errorf("panic: %v", r)
						}
					}()
					var prf []byte
					prf, err = proof.HashProve(suite, "c14-shared", pred.Prover(suite, sv, pv, choice))
					if err == nil {
						err = proof.HashVerify(suite, "c14-shared", pred.Verifier(suite, pv), prf)
					}
				}()
				c.Eval(1)
				if err != nil {
					x.Failf(pk+"/honest-rejected", "%s: a true statement is not proven and accepted: %v", id, err)
				}
			})
			c.Count("transitions", 1)
			c.Nontrivial(id)
		}
	}
}
