// Package c14: sigma-protocol proofs. Every predicate tree of a bounded
// grammar (Or of And of Rep) with every variable-sharing pattern, every
// proven branch and truth assignment of the other branches: completeness,
// rejection of falsified secrets, of altered proofs, points, predicates and
// protocol names; the interactive deniable prover on a lock-step clique.
package c14

import (
	"bytes"
	"math/big"
	"crypto/cipher"
	"fmt"
	"strings"

	"go.dedis.ch/kyber/v4"
	"go.dedis.ch/kyber/v4/group/edwards25519"
	"go.dedis.ch/kyber/v4/group/p256"
	"go.dedis.ch/kyber/v4/pairing/bn256"
	"go.dedis.ch/kyber/v4/proof"
	"verif/harness/alpha"
	"verif/harness/groups"
	"verif/harness/vf"
)

// shape: list of branches; a branch is a list of Reps; a Rep is its number of terms.
type shape [][]int

func (s shape) slots() int {
	n := 0
	for _, br := range s {
		for _, k := range br {
			n += k
		}
	}
	return n
}

func (s shape) String() string {
	var bs []string
	for _, br := range s {
		var rs []string
		for _, k := range br {
			rs = append(rs, fmt.Sprintf("Rep%d", k))
		}
		if len(rs) > 1 {
			bs = append(bs, "And("+strings.Join(rs, ",")+")")
		} else {
			bs = append(bs, rs[0])
		}
	}
	if len(bs) > 1 {
		return "Or(" + strings.Join(bs, ",") + ")"
	}
	return bs[0]
}

func shapes(thorough bool) []shape {
	out := []shape{
		{{1}}, {{2}}, {{1, 1}}, {{1, 2}}, {{2, 2}},
		{{1}, {1}}, {{1}, {2}}, {{2}, {1}}, {{2}, {2}}, {{1}, {1}, {1}},
		{{1, 1}, {1}}, {{1}, {1, 1}}, {{1, 1}, {2}}, {{1, 1}, {1, 1}}, {{1}, {1}, {2}},
	}
	if thorough {
		out = append(out, shape{{3}}, shape{{1, 1, 1}}, shape{{1}, {1}, {1}, {1}}, shape{{1, 2}, {2}}, shape{{2, 2}, {1}}, shape{{1, 1, 1}, {1, 1}})
	}
	return out
}

// rgs enumerates restricted-growth strings of length m with at most k symbols
// (canonical representatives of assignments up to renaming).
func rgs(m, k int) [][]int {
	var out [][]int
	var rec func(cur []int, mx int)
	rec = func(cur []int, mx int) {
		if len(cur) == m {
			out = append(out, append([]int{}, cur...))
			return
		}
		for v := 0; v <= mx+1 && v < k; v++ {
			nm := mx
			if v > mx {
				nm = v
			}
			rec(append(cur, v), nm)
		}
	}
	rec(nil, -1)
	return out
}

type tree struct {
	sh      shape
	scalars []int // per slot: scalar variable index
	bases   []int // per slot: base point index
}

var sNames = []string{"x", "y", "z"}
var bNames = []string{"B", "H", "K"}

func (t tree) String() string {
	return fmt.Sprintf("%s s=%v b=%v", t.sh, t.scalars, t.bases)
}

type built struct {
	pred     proof.Predicate
	branches []proof.Predicate // the Or's sub-predicates (nil for non-Or)
	reps     [][]string        // per branch: names of the Rep result points
	repTerms map[string][][2]int
}

func (t tree) build() built {
	var b built
	b.repTerms = map[string][][2]int{}
	slot := 0
	rep := 0
	var brs []proof.Predicate
	for _, br := range t.sh {
		var rs []proof.Predicate
		var names []string
		for _, k := range br {
			name := fmt.Sprintf("P%d", rep)
			rep++
			var args []string
			for i := 0; i < k; i++ {
				args = append(args, sNames[t.scalars[slot]], bNames[t.bases[slot]])
				b.repTerms[name] = append(b.repTerms[name], [2]int{t.scalars[slot], t.bases[slot]})
				slot++
			}
			rs = append(rs, proof.Rep(name, args...))
			names = append(names, name)
		}
		b.reps = append(b.reps, names)
		if len(rs) == 1 {
			brs = append(brs, rs[0])
		} else {
			brs = append(brs, proof.And(rs...))
		}
	}
	if len(brs) == 1 {
		b.pred = brs[0]
	} else {
		b.pred = proof.Or(brs...)
		b.branches = brs
	}
	return b
}

func baseSuite(name string) proof.Suite {
	switch name {
	case "p256":
		return p256.NewBlakeSHA256P256()
	case "bn256.G1":
		return bn256.NewSuiteG1()
	}
	return edwards25519.NewBlakeSHA256Ed25519()
}

// seeded is a suite whose random stream is a fixed function of a label: the
// default suites draw from crypto/rand, which would make a re-run of a case
// produce a different proof.
type seeded struct {
	proof.Suite
	st cipher.Stream
}

func (s seeded) RandomStream() cipher.Stream { return s.st }

func seededSuite(s proof.Suite, label string) proof.Suite {
	return seeded{s, alpha.Stream("c14-rand-" + label)}
}

func Run(c *vf.Check) {
	c.Level = "model_checking"
	var trees []tree
	for _, sh := range shapes(c.Thorough()) {
		m := sh.slots()
		for _, sc := range rgs(m, 3) {
			for _, bs := range rgs(m, 3) {
				trees = append(trees, tree{sh, sc, bs})
			}
		}
	}
	type job struct {
		gn string
		t  tree
	}
	var jobs []job
	for i, t := range trees {
		jobs = append(jobs, job{"ed25519", t})
		if i%9 == 0 {
			jobs = append(jobs, job{"p256", t})
		}
		if i%13 == 0 {
			jobs = append(jobs, job{"bn256.G1", t})
		}
	}
	vf.Parallel(len(jobs), func(i int) { runTree(c, jobs[i].gn, jobs[i].t, false) })
	// the same with the secrets 0, 1, q-1 (a public point may be the identity), every 4th tree on Ed25519
	var bjobs []job
	for i, t := range trees {
		if i%4 == 0 {
			bjobs = append(bjobs, job{"ed25519", t})
		}
	}
	vf.Parallel(len(bjobs), func(i int) { runTree(c, bjobs[i].gn, bjobs[i].t, true) })
	nested := append(nestedJobs(c), nestedAndJobs(c)...)
	vf.Parallel(len(nested), func(i int) { nested[i]() })
	den := deniableJobs(c)
	vf.Parallel(len(den), func(i int) { den[i]() })
	c.Finish(fmt.Sprintf("engine E over a predicate grammar: %d predicate trees = shapes {Rep1, Rep2, And of up to 2 Reps, Or of up to 3 branches of Rep or And(Rep,Rep)} (thorough: Rep3, And of 3, 4 branches) x every sharing pattern of 3 scalar names over the term slots x every sharing pattern of 3 base points (restricted-growth strings, i.e. all assignments up to renaming), on Ed25519 (all), P-256 (every 9th), bn256.G1 (every 13th). ", len(trees))+
		"Per tree: every Or-branch as the proven one x the other branches' statements {all true, all false, alternating}; HashProve then HashVerify accepts; each secret of the proven branch falsified -> prover or verifier error; the valid proof truncated at every length, one bit per byte flipped (thorough: every bit), extended -> error; verification against each public point replaced, against every other tree of the same shape with a different sharing pattern (first 6), against another protocol name -> error. Deniable prover: cliques of 2 and 3 participants on a lock-step Context, each proving a tree and verifying everybody (including itself): all accept; with one participant's secret falsified exactly that participant's proof is reported bad by every verifier; cliques of 2 plus a verify-only participant (its own prover does nothing) whose verdicts on the others are judged the same way. "+
		"Nested conjunctions And(And(R0,R1),R2), And(R0,And(R1,R2)), And(And(R0,R1),R2,R3), And(And(R0,R1,R2),And(R3)) and Or(And(And(R0,R1),R2),R3): every member binds (wrong secret / replaced point of each member -> no accepted proof). One Predicate object used with suites of Ed25519, P-256 and bn256.G1 in five orders, both branches each time. "+
		"non-trivial = trees with >= 2 term slots; distinct by (group, tree, branch, truth pattern, mutation)",
		[]string{"prover randomness is a seeded stream per case", "a mutated proof verifying by chance is ignored"}, nil)
}

type world struct {
	s    proof.Suite
	g    *groups.G
	sec  []kyber.Scalar
	base []kyber.Point
}

func newWorld(gn string) *world { return newWorldSecrets(gn, false) }

// newWorldSecrets: with boundary, the three secrets are 0, 1 and q-1 (public points may then be the identity).
func newWorldSecrets(gn string, boundary bool) *world {
	g := groups.ByName(gn)
	s := baseSuite(gn)
	w := &world{s: s, g: g}
	for i := 0; i < 3; i++ {
		v := alpha.Rand(fmt.Sprintf("c14-sec-%d", i), g.Order)
		if boundary {
			v = []*big.Int{big.NewInt(0), big.NewInt(1), new(big.Int).Sub(g.Order, big.NewInt(1))}[i]
		}
		w.sec = append(w.sec, alpha.ToScalar(s.Scalar(), v, g.Order))
	}
	w.base = []kyber.Point{s.Point().Base(), s.Point().Pick(alpha.Stream("c14-H")), s.Point().Pick(alpha.Stream("c14-K"))}
	return w
}

// statement computes the public points: true Reps from the secrets, false Reps as unrelated points.
func (w *world) statement(b built, truth []bool) (map[string]kyber.Scalar, map[string]kyber.Point) {
	sv := map[string]kyber.Scalar{}
	for i, n := range sNames {
		sv[n] = w.sec[i]
	}
	pv := map[string]kyber.Point{}
	for i, n := range bNames {
		pv[n] = w.base[i]
	}
	for bi, names := range b.reps {
		for _, name := range names {
			if truth[bi] {
				acc := w.s.Point().Null()
				for _, t := range b.repTerms[name] {
					acc.Add(acc, w.s.Point().Mul(w.sec[t[0]], w.base[t[1]]))
				}
				pv[name] = acc
			} else {
				pv[name] = w.s.Point().Pick(alpha.Stream("c14-false-" + name))
			}
		}
	}
	return sv, pv
}

func runTree(c *vf.Check, gn string, t tree, boundary bool) {
	pk := "C14/" + gn
	w := newWorldSecrets(gn, boundary)
	if boundary {
		gn += " secrets{0,1,q-1}"
	}
	b := t.build()
	nb := len(t.sh)
	// rebuild (choice, truth) pairs explicitly
	type ct struct {
		choice int
		truth  []bool
	}
	var cts []ct
	if nb == 1 {
		cts = []ct{{0, []bool{true}}}
	} else {
		for choice := 0; choice < nb; choice++ {
			seen := map[string]bool{}
			for pat := 0; pat < 3; pat++ {
				tr := make([]bool, nb)
				for i := range tr {
					tr[i] = pat == 0 || (pat == 2 && i%2 == 0)
				}
				tr[choice] = true
				k := fmt.Sprint(tr)
				if !seen[k] {
					seen[k] = true
					cts = append(cts, ct{choice, tr})
				}
			}
		}
	}
	for _, e := range cts {
		e := e
		id := fmt.Sprintf("%s %s prove-branch=%d truth=%v", gn, t, e.choice, e.truth)
		c.Case(id, pk, func(x *vf.Ctx) {
			sv, pv := w.statement(b, e.truth)
			choice := map[proof.Predicate]int{}
			if nb > 1 {
				choice[b.pred] = e.choice
			}
			suite := seededSuite(w.s, id)
			prf, err := proof.HashProve(suite, "c14-proto", b.pred.Prover(suite, sv, pv, choice))
			c.Eval(1)
			if err != nil {
				x.Failf(pk+"/prove-failed", "%s: HashProve fails on a true statement: %v", id, err)
				return
			}
			pvEnc := map[string][]byte{}
			for k, v := range pv {
				pvEnc[k], _ = v.MarshalBinary()
			}
			if err := proof.HashVerify(suite, "c14-proto", b.pred.Verifier(suite, pv), prf); err != nil {
				x.Failf(pk+"/honest-rejected", "%s: honest proof rejected: %v", id, err)
				return
			}
			// verification leaves the caller's public points as they were and can be repeated
			for k, v := range pv {
				if e, _ := v.MarshalBinary(); !bytes.Equal(e, pvEnc[k]) {
					x.Failf(pk+"/verify-clobbers-points", "%s: verification changed the caller's public point %s", id, k)
					return
				}
			}
			if err := proof.HashVerify(suite, "c14-proto", b.pred.Verifier(suite, pv), prf); err != nil {
				x.Failf(pk+"/honest-rejected", "%s: the same proof is rejected when verified a second time: %v", id, err)
				return
			}
			// a second proof from fresh prover objects verifies too; so does a second run of the same Prover value
			prover := b.pred.Prover(suite, sv, pv, choice)
			p1, e1 := proof.HashProve(suite, "c14-proto", prover)
			p2, e2 := proof.HashProve(suite, "c14-proto", prover)
			if e1 != nil || e2 != nil || proof.HashVerify(suite, "c14-proto", b.pred.Verifier(suite, pv), p1) != nil || proof.HashVerify(suite, "c14-proto", b.pred.Verifier(suite, pv), p2) != nil {
				x.Failf(pk+"/prover-reuse", "%s: a Prover value run twice does not give two accepted proofs (errs %v %v)", id, e1, e2)
			}
			// falsify each secret used by the proven branch
			used := map[int]bool{}
			for _, name := range b.reps[e.choice] {
				for _, tm := range b.repTerms[name] {
					used[tm[0]] = true
				}
			}
			for si := range used {
				bad := map[string]kyber.Scalar{}
				for k, v := range sv {
					bad[k] = v
				}
				bad[sNames[si]] = suite.Scalar().Add(sv[sNames[si]], suite.Scalar().One())
				// the branch is false for the falsified secret unless every term using it cancels: use pv of the true secrets
				bp, err := proof.HashProve(suite, "c14-proto", b.pred.Prover(suite, bad, pv, choice))
				c.Eval(1)
				if err == nil && proof.HashVerify(suite, "c14-proto", b.pred.Verifier(suite, pv), bp) == nil {
					// other branches may be true with the falsified assignment? they use the same names: check
					if !stillSatisfiable(w, b, e.truth, e.choice, si) {
						x.Failf(pk+"/false-statement-accepted", "%s: with secret %s falsified the prover still produces an accepted proof", id, sNames[si])
					}
				}
			}
			verify := func(p []byte, pts map[string]kyber.Point, pred proof.Predicate, name string) (err error) {
				defer func() {
					if r := recover(); r != nil {
						err = fmt.Errorf("panic: %v", r)
						x.Failf(pk+"/verify-panic", "%s: verifier panics: %v", id, r)
					}
				}()
				return proof.HashVerify(suite, name, pred.Verifier(suite, pts), p)
			}
			// proof mutations
			el := suite.ScalarLen()
			for l := 0; l < len(prf); l++ {
				// quick tier: around every element boundary (the transcript is a sequence of fixed-size points and scalars)
				if !c.Thorough() && l%el > 1 && l%el < el-1 && l%suite.PointLen() > 1 && l%suite.PointLen() < suite.PointLen()-1 {
					continue
				}
				c.Eval(1)
				if verify(append([]byte{}, prf[:l]...), pv, b.pred, "c14-proto") == nil {
					x.Failf(pk+"/truncated-accepted", "%s: proof truncated to %d of %d bytes accepted", id, l, len(prf))
					break
				}
			}
			step := 56 // one bit in every 7th byte, the bit position varying
			if c.Thorough() {
				step = 1
			}
			for bit := 0; bit < len(prf)*8; bit += step {
				bb := bit
				if step > 1 {
					bb += (bit / 8) % 8
				}
				mut := append([]byte{}, prf...)
				mut[bb/8] ^= 1 << (bb % 8)
				c.Eval(1)
				if verify(mut, pv, b.pred, "c14-proto") == nil {
					x.Failf(pk+"/altered-accepted", "%s: proof with bit %d flipped accepted", id, bb)
					break
				}
			}
			// simulated transcript (every branch simulated, sub-challenges not adding up to the challenge): rejected
			// whatever the statements are
			if nb > 1 {
				var brs [][]SimRep
				for _, names := range b.reps {
					var br []SimRep
					for _, pn := range names {
						var terms [][2]string
						for _, tm := range b.repTerms[pn] {
							terms = append(terms, [2]string{sNames[tm[0]], bNames[tm[1]]})
						}
						br = append(br, SimRep{P: pn, Terms: terms})
					}
					brs = append(brs, br)
				}
				for variant, pts := range []map[string]kyber.Point{pv, falsePoints(w, pv)} {
					sp, err := SimulateOr(suite, w.g, "c14-proto", brs, pts, id)
					c.Eval(1)
					if err == nil && verify(sp, pts, b.pred, "c14-proto") == nil {
						x.Failf(pk+"/simulated-proof-accepted", "%s: a transcript in which every Or-branch is simulated with its own freely chosen sub-challenge is accepted (statements %s)", id, []string{"as given", "all false"}[variant])
						break
					}
				}
			}
			// other protocol name. The protocol name enters only through the challenge c, and the verification
			// equation V = sum r_i B_i + c P does not depend on c when the public point P is the identity (a secret
			// is 0, or terms cancel): such a proof is valid under every name by construction, so it is not judged.
			degenerate := false
			for name, pt := range pv {
				if strings.HasPrefix(name, "P") && pt.Equal(w.s.Point().Null()) {
					degenerate = true
				}
			}
			if !degenerate && verify(prf, pv, b.pred, "c14-other") == nil {
				x.Failf(pk+"/other-protocol-accepted", "%s: proof accepted under another protocol name", id)
			}
			// long protocol names (e.g. a message used as the name) that differ only far into the string
			if len(b.reps) <= 2 && !degenerate {
				long := strings.Repeat("protocol name of 300 characters ", 10)[:300]
				lp, err := proof.HashProve(suite, long, b.pred.Prover(suite, sv, pv, choice))
				if err != nil {
					x.Failf(pk+"/prove-failed", "%s: HashProve under a 300-character protocol name: %v", id, err)
				} else {
					if verify(lp, pv, b.pred, long) != nil {
						x.Failf(pk+"/honest-rejected", "%s: proof under a 300-character protocol name rejected", id)
					}
					for _, at := range []int{299, 200, 129, 128, 127, 64, 0} {
						other := []byte(long)
						other[at] ^= 1
						c.Eval(1)
						if verify(lp, pv, b.pred, string(other)) == nil {
							x.Failf(pk+"/other-protocol-accepted", "%s: proof made under a 300-character protocol name is accepted under a name that differs in character %d", id, at)
							break
						}
					}
				}
			}
			// each public point replaced
			for name := range pv {
				if !strings.HasPrefix(name, "P") && !usesBase(b, name) {
					continue
				}
				alt := map[string]kyber.Point{}
				for k, v := range pv {
					alt[k] = v
				}
				alt[name] = suite.Point().Add(pv[name], w.base[0])
				c.Eval(1)
				if verify(prf, alt, b.pred, "c14-proto") == nil {
					// replacing the result point of a false, unproven branch by another unrelated point keeps the statement's proven branch intact: still must fail, the commitments are bound to the points through the challenge
					x.Failf(pk+"/other-points-accepted", "%s: proof accepted with public point %s replaced", id, name)
				}
			}
			// structurally different predicates of the same shape
			cnt := 0
			for _, sc := range rgs(t.sh.slots(), 3) {
				if fmt.Sprint(sc) == fmt.Sprint(t.scalars) || cnt >= 6 {
					continue
				}
				cnt++
				ob := tree{t.sh, sc, t.bases}.build()
				c.Eval(1)
				if verify(prf, pv, ob.pred, "c14-proto") == nil && !satisfiable(w, ob, e.choice, pv) {
					x.Failf(pk+"/other-predicate-accepted", "%s: proof accepted for the predicate with scalar pattern %v", id, sc)
				}
			}
		})
		c.Count("transitions", 1)
		c.Count("states", 1)
		if t.sh.slots() > 1 {
			c.Nontrivial(id)
		}
		c.Class(gn+"/"+t.sh.String(), func() any { return id })
	}
}

func usesBase(b built, name string) bool {
	for _, terms := range b.repTerms {
		for _, t := range terms {
			if bNames[t[1]] == name {
				return true
			}
		}
	}
	return false
}

// stillSatisfiable: after adding 1 to secret si, is the proven branch's statement still true (the falsified terms cancel)?
func stillSatisfiable(w *world, b built, truth []bool, choice, si int) bool {
	for _, name := range b.reps[choice] {
		acc := w.s.Point().Null()
		for _, t := range b.repTerms[name] {
			if t[0] == si {
				acc.Add(acc, w.base[t[1]])
			}
		}
		if !acc.Equal(w.s.Point().Null()) {
			return false
		}
	}
	return true
}

// satisfiable: the other predicate's proven branch holds for the same public points under some assignment of the
// honest secret values to its variable names (renaming within an Or branch, commuting terms over one base and merging
// variables all give predicates the honest transcript legitimately verifies for). Only a predicate whose proven branch
// is false under all 27 such assignments counts as "a different predicate".
func satisfiable(w *world, ob built, branch int, pv map[string]kyber.Point) bool {
	for f := 0; f < 27; f++ {
		m := [3]int{f % 3, f / 3 % 3, f / 9}
		ok := true
		for _, name := range ob.reps[branch] {
			acc := w.s.Point().Null()
			for _, t := range ob.repTerms[name] {
				acc.Add(acc, w.s.Point().Mul(w.sec[m[t[0]]], w.base[t[1]]))
			}
			if !acc.Equal(pv[name]) {
				ok = false
				break
			}
		}
		if ok {
			return true
		}
	}
	return false
}

// falsePoints replaces every Rep result point by an unrelated point: every statement false.
func falsePoints(w *world, pv map[string]kyber.Point) map[string]kyber.Point {
	out := map[string]kyber.Point{}
	for k, v := range pv {
		if strings.HasPrefix(k, "P") {
			out[k] = w.s.Point().Pick(alpha.Stream("c14-sim-false-" + k))
		} else {
			out[k] = v
		}
	}
	return out
}
