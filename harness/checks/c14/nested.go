package c14

// Nested Or predicates (an Or below an Or, which the package allows as long as all Ors sit above all Ands): every
// choice of outer and inner alternative, the alternatives on the paths not taken true or false.

import (
	"fmt"

	"go.dedis.ch/kyber/v4"
	"go.dedis.ch/kyber/v4/proof"
	"verif/harness/alpha"
	"verif/harness/vf"
)

func nestedJobs(c *vf.Check) []func() {
	var jobs []func()
	for _, gn := range []string{"ed25519", "p256"} {
		for shape := 0; shape < 3; shape++ {
			gn, shape := gn, shape
			jobs = append(jobs, func() { runNested(c, gn, shape) })
		}
	}
	return jobs
}

func runNested(c *vf.Check, gn string, shape int) {
	pk := "C14/" + gn + "/nested-or"
	w := newWorld(gn)
	s := w.s
	B, H := w.base[0], w.base[1]
	// four representation statements Xi = xi * Bi
	names := []string{"X0", "X1", "X2", "X3"}
	reps := []proof.Predicate{proof.Rep("X0", "x0", "B"), proof.Rep("X1", "x1", "H"), proof.Rep("X2", "x2", "B"), proof.Rep("X3", "x3", "H")}
	bases := []kyber.Point{B, H, B, H}
	var inner, outer proof.Predicate
	var desc string
	var innerIdx []int // statements inside the inner Or
	outerOther := -1   // the statement next to the inner Or
	switch shape {
	case 0:
		inner = proof.Or(reps[0], reps[1], reps[2])
		outer = proof.Or(inner, reps[3])
		innerIdx, outerOther, desc = []int{0, 1, 2}, 3, "Or(Or(R0,R1,R2),R3)"
	case 1:
		inner = proof.Or(reps[1], reps[2], reps[3])
		outer = proof.Or(reps[0], inner)
		innerIdx, outerOther, desc = []int{1, 2, 3}, 0, "Or(R0,Or(R1,R2,R3))"
	default:
		inner = proof.Or(reps[0], reps[1])
		outer = proof.Or(inner, proof.Or(reps[2], reps[3]))
		innerIdx, outerOther, desc = []int{0, 1}, -1, "Or(Or(R0,R1),Or(R2,R3))"
	}
	for proven := 0; proven < 4; proven++ {
		for others := 0; others < 2; others++ { // the statements not proven: all false / all true
			proven, others := proven, others
			id := fmt.Sprintf("%s %s: proving R%d, the other statements %s", gn, desc, proven, []string{"false", "true"}[others])
			c.Case(id, pk, func(x *vf.Ctx) {
				suite := seededSuite(s, id)
				sv := map[string]kyber.Scalar{}
				pv := map[string]kyber.Point{"B": B, "H": H}
				for i := 0; i < 4; i++ {
					xi := alpha.ToScalar(s.Scalar(), alpha.Rand(fmt.Sprintf("c14-nested-%d", i), w.g.Order), w.g.Order)
					sv[fmt.Sprintf("x%d", i)] = xi
					if i == proven || others == 1 {
						pv[names[i]] = s.Point().Mul(xi, bases[i])
					} else {
						pv[names[i]] = s.Point().Pick(alpha.Stream(fmt.Sprintf("c14-nested-false-%d", i)))
					}
				}
				choice := map[proof.Predicate]int{}
				inInner := -1
				for k, i := range innerIdx {
					if i == proven {
						inInner = k
					}
				}
				switch shape {
				case 0:
					if inInner >= 0 {
						choice[outer], choice[inner] = 0, inInner
					} else {
						choice[outer] = 1
					}
				case 1:
					if inInner >= 0 {
						choice[outer], choice[inner] = 1, inInner
					} else {
						choice[outer] = 0
					}
				default:
					// second inner Or is built inline: rebuild the predicate so that both inner Ors are addressable
					in2 := proof.Or(reps[2], reps[3])
					outer = proof.Or(inner, in2)
					if proven < 2 {
						choice[outer], choice[inner] = 0, proven
					} else {
						choice[outer], choice[in2] = 1, proven-2
					}
				}
				_ = outerOther
				prf, err := proof.HashProve(suite, "c14-nested", outer.Prover(suite, sv, pv, choice))
				c.Eval(1)
				if err != nil {
					x.Failf(pk+"/prove-failed", "%s: HashProve fails on a true statement: %v", id, err)
					return
				}
				if err := proof.HashVerify(suite, "c14-nested", outer.Verifier(suite, pv), prf); err != nil {
					x.Failf(pk+"/honest-rejected", "%s: honest proof rejected: %v", id, err)
					return
				}
				if others == 0 {
					// the proven statement made false as well: no accepted proof
					bad := map[string]kyber.Point{}
					for k, v := range pv {
						bad[k] = v
					}
					bad[names[proven]] = s.Point().Pick(alpha.Stream("c14-nested-bad"))
					bp, err := proof.HashProve(suite, "c14-nested", outer.Prover(suite, sv, bad, choice))
					if err == nil && proof.HashVerify(suite, "c14-nested", outer.Verifier(suite, bad), bp) == nil {
						x.Failf(pk+"/false-statement-accepted", "%s: with every statement false a proof is produced and accepted", id)
					}
					if proof.HashVerify(suite, "c14-nested", outer.Verifier(suite, bad), prf) == nil {
						x.Failf(pk+"/false-statement-accepted", "%s: the proof verifies against public points for which every statement is false", id)
					}
				}
			})
			c.Count("transitions", 1)
			c.Nontrivial(id)
		}
	}
}
