package c14

import (
	"fmt"

	"go.dedis.ch/kyber/v4"
	"go.dedis.ch/kyber/v4/proof"
	"verif/harness/alpha"
	"verif/harness/vf"
)

type node struct {
	i      int
	suite  proof.Suite
	outbox chan []byte
	inbox  chan [][]byte
	errs   []error
	done   bool
}

func (n *node) Step(msg []byte) ([][]byte, error) {
	n.outbox <- msg
	return <-n.inbox, nil
}

func (n *node) Random() kyber.XOF {
	return n.suite.XOF([]byte(fmt.Sprintf("c14-deniable-node-%d", n.i)))
}

// runClique drives the protocols in lock step until every node has finished.
func runClique(suite proof.Suite, protos []proof.Protocol) [][]error {
	nodes := make([]*node, len(protos))
	for i := range protos {
		n := &node{i: i, suite: suite, outbox: make(chan []byte), inbox: make(chan [][]byte)}
		nodes[i] = n
		go func(n *node, p proof.Protocol) {
			n.errs = (func(proof.Context) []error)(p)(n)
			n.done = true
			n.outbox <- nil
		}(n, protos[i])
	}
	res := make([][]error, len(protos))
	active := append([]*node{}, nodes...)
	for {
		msgs := make([][]byte, len(nodes))
		any := false
		for i, n := range active {
			if n == nil {
				continue
			}
			any = true
			msgs[i] = <-n.outbox
			if n.done {
				res[i] = n.errs
				active[i] = nil
			}
		}
		if !any {
			return res
		}
		for _, n := range active {
			if n != nil {
				n.inbox <- msgs
			}
		}
	}
}

func deniableJobs(c *vf.Check) []func() {
	var jobs []func()
	var trees []tree
	for _, sh := range []shape{{{1}}, {{2}}, {{1, 1}}, {{1}, {1}}, {{1, 1}, {1}}, {{2}, {2}}} {
		m := sh.slots()
		ss, bs := rgs(m, 3), rgs(m, 3)
		trees = append(trees, tree{sh, ss[0], bs[len(bs)-1]}, tree{sh, ss[len(ss)-1], bs[0]})
	}
	for _, nn := range []int{1, 2, 3} {
		for ti, t := range trees {
			for bad := -1; bad < nn; bad++ {
				nn, ti, t, bad := nn, ti, t, bad
				jobs = append(jobs, func() { runDeniable(c, nn, ti, t, bad, false) })
				if nn == 2 && bad < 1 {
					// plus a verify-only participant: its own prover does nothing, it checks the proofs of the others
					jobs = append(jobs, func() { runDeniable(c, nn, ti, t, bad, true) })
				}
			}
		}
	}
	return jobs
}

func runDeniable(c *vf.Check, nn, ti int, t tree, bad int, auditor bool) {
	pk := "C14/deniable"
	id := fmt.Sprintf("deniable clique of %d, tree #%d %s, falsified participant %d", nn, ti, t, bad)
	if auditor {
		id += ", plus a verify-only participant"
	}
	c.Case(id, pk, func(x *vf.Ctx) {
		w := newWorld("ed25519")
		b := t.build()
		nb := len(t.sh)
		truth := make([]bool, nb)
		for i := range truth {
			truth[i] = i == nb-1 || i%2 == 0
		}
		choiceIdx := nb - 1
		protos := make([]proof.Protocol, nn)
		for i := 0; i < nn; i++ {
			// every participant proves the same kind of statement with its own secrets
			wi := *w
			wi.sec = nil
			for k := 0; k < 3; k++ {
				wi.sec = append(wi.sec, alpha.ToScalar(w.s.Scalar(), alpha.Rand(fmt.Sprintf("c14-den-%d-%d", i, k), w.g.Order), w.g.Order))
			}
			sv, pv := wi.statement(b, truth)
			if i == bad {
				used := b.repTerms[b.reps[choiceIdx][0]][0][0]
				sv[sNames[used]] = w.s.Scalar().Add(sv[sNames[used]], w.s.Scalar().One())
			}
			choice := map[proof.Predicate]int{}
			if nb > 1 {
				choice[b.pred] = choiceIdx
			}
			prover := b.pred.Prover(w.s, sv, pv, choice)
			_ = pv
			protos[i] = nil
			_ = prover
		}
		// verifiers need everybody's public points: build them first
		pvs := make([]map[string]kyber.Point, nn)
		svs := make([]map[string]kyber.Scalar, nn)
		for i := 0; i < nn; i++ {
			wi := *w
			wi.sec = nil
			for k := 0; k < 3; k++ {
				wi.sec = append(wi.sec, alpha.ToScalar(w.s.Scalar(), alpha.Rand(fmt.Sprintf("c14-den-%d-%d", i, k), w.g.Order), w.g.Order))
			}
			svs[i], pvs[i] = wi.statement(b, truth)
		}
		for i := 0; i < nn; i++ {
			sv := map[string]kyber.Scalar{}
			for k, v := range svs[i] {
				sv[k] = v
			}
			if i == bad {
				used := b.repTerms[b.reps[choiceIdx][0]][0][0]
				sv[sNames[used]] = w.s.Scalar().Add(sv[sNames[used]], w.s.Scalar().One())
			}
			choice := map[proof.Predicate]int{}
			if nb > 1 {
				choice[b.pred] = choiceIdx
			}
			vrfs := make([]proof.Verifier, nn)
			for j := 0; j < nn; j++ {
				vrfs[j] = b.pred.Verifier(w.s, pvs[j])
			}
			if auditor {
				vrfs = append(vrfs, func(proof.VerifierContext) error { return nil })
			}
			protos[i] = proof.DeniableProver(w.s, i, b.pred.Prover(w.s, sv, pvs[i], choice), vrfs)
		}
		if auditor {
			vrfs := make([]proof.Verifier, nn)
			for j := 0; j < nn; j++ {
				vrfs[j] = b.pred.Verifier(w.s, pvs[j])
			}
			vrfs = append(vrfs, func(proof.VerifierContext) error { return nil })
			protos = append(protos, proof.DeniableProver(w.s, nn, func(proof.ProverContext) error { return nil }, vrfs))
		}
		res := runClique(w.s, protos)
		if auditor {
			// the verify-only participant's verdicts on the others
			if len(res) != nn+1 || len(res[nn]) != nn+1 {
				x.Failf(pk+"/result-shape", "%s: the verify-only participant returns %d results", id, len(res[len(res)-1]))
				return
			}
			for j := 0; j < nn; j++ {
				if j == bad {
					if res[nn][j] == nil && !stillSatisfiable(w, b, truth, choiceIdx, b.repTerms[b.reps[choiceIdx][0]][0][0]) {
						x.Failf(pk+"/false-statement-accepted", "%s: the verify-only participant accepts the proof of participant %d, whose secret was falsified", id, j)
					}
				} else if res[nn][j] != nil {
					x.Failf(pk+"/honest-rejected", "%s: the verify-only participant reports the honest proof of participant %d as failed: %v", id, j, res[nn][j])
				}
			}
			for i := 0; i < nn; i++ {
				res[i] = res[i][:nn]
			}
			res = res[:nn]
		}
		c.Eval(nn * nn)
		for i := 0; i < nn; i++ {
			if len(res[i]) != nn {
				x.Failf(pk+"/result-shape", "%s: participant %d returns %d results", id, i, len(res[i]))
				return
			}
			for j := 0; j < nn; j++ {
				if j == bad {
					if res[i][j] == nil && !stillSatisfiable(w, b, truth, choiceIdx, b.repTerms[b.reps[choiceIdx][0]][0][0]) {
						x.Failf(pk+"/false-statement-accepted", "%s: participant %d accepts the proof of participant %d, whose secret was falsified", id, i, j)
					}
				} else if res[i][j] != nil {
					x.Failf(pk+"/honest-rejected", "%s: participant %d reports the honest proof of participant %d as failed: %v", id, i, j, res[i][j])
				}
			}
		}
	})
	c.Count("transitions", 1)
	c.Count("states", 1)
	c.Nontrivial(id)
	c.Class("deniable", func() any { return id })
}
