package c14

// A simulator-style forger for Or predicates: every branch is simulated with a freely chosen sub-challenge c_b and
// freely chosen responses (V = c_b*P + sum r*B), so every branch verifies under its own sub-challenge whatever the
// public points are. The only thing that stands between such a transcript and acceptance is the verifier's check
// that the sub-challenges add up to the Fiat-Shamir challenge.

import (
	"fmt"

	"go.dedis.ch/kyber/v4"
	"go.dedis.ch/kyber/v4/proof"
	"verif/harness/alpha"
	"verif/harness/groups"
)

// SimRep describes P = sum_i secret_i * base_i by names.
type SimRep struct {
	P     string
	Terms [][2]string // (secret name, base name)
}

// SimulateOr builds the transcript for Or(And(reps of branch 0), And(reps of branch 1), ...) - a branch with one Rep is
// that Rep itself - in the layout of the proof package: all commitments, the challenge, the sub-challenges, then per
// branch the responses in the order in which the secrets first appear in the predicate.
func SimulateOr(s proof.Suite, g *groups.G, protocol string, branches [][]SimRep, pts map[string]kyber.Point, label string) ([]byte, error) {
	var order []string
	seen := map[string]bool{}
	for _, br := range branches {
		for _, rp := range br {
			for _, t := range rp.Terms {
				if !seen[t[0]] {
					seen[t[0]] = true
					order = append(order, t[0])
				}
			}
		}
	}
	rnd := func(what string) kyber.Scalar {
		return alpha.ToScalar(s.Scalar(), alpha.Rand("c14-sim-"+label+"-"+what, g.Order), g.Order)
	}
	var cs []kyber.Scalar
	var rs []map[string]kyber.Scalar
	var Vs []kyber.Point
	for b, br := range branches {
		cb := rnd(fmt.Sprintf("c%d", b))
		r := map[string]kyber.Scalar{}
		for _, rp := range br {
			V := s.Point().Mul(cb, pts[rp.P])
			for _, t := range rp.Terms {
				if r[t[0]] == nil {
					r[t[0]] = rnd(fmt.Sprintf("r%d-%s", b, t[0]))
				}
				V.Add(V, s.Point().Mul(r[t[0]], pts[t[1]]))
			}
			Vs = append(Vs, V)
		}
		cs, rs = append(cs, cb), append(rs, r)
	}
	prover := func(ctx proof.ProverContext) error {
		for _, V := range Vs {
			if err := ctx.Put(V); err != nil {
				return err
			}
		}
		c := s.Scalar()
		if err := ctx.PubRand(c); err != nil {
			return err
		}
		if err := ctx.Put(cs); err != nil {
			return err
		}
		for b := range branches {
			for _, name := range order {
				if r := rs[b][name]; r != nil {
					if err := ctx.Put(r); err != nil {
						return err
					}
				}
			}
		}
		return nil
	}
	return proof.HashProve(s, protocol, prover)
}
