// Package c07: Shamir sharing. For every (t,n) up to the bound, every secret
// of the alphabet and every base point: every subset of the n shares in every
// arrangement (orders, nil gaps, surplus, repeated shares) is handed to the
// four recovery functions and compared with the dealer's polynomial, which is
// mirrored by a math/big model.
package c07

import (
	"bytes"
	"fmt"
	"math/big"

	"go.dedis.ch/kyber/v4"
	"go.dedis.ch/kyber/v4/share"
	"verif/harness/alpha"
	"verif/harness/fmod"
	"verif/harness/groups"
	"verif/harness/vf"
)

type cfg struct {
	g       *groups.G
	t, n    int
	secret  alpha.NS
	base    string // "nil", "B", "g1"
	zeroTop bool
	large   bool // large n: a menu of subset shapes instead of every subset
}

func (k cfg) String() string {
	z := ""
	if k.zeroTop {
		z = ",zero-top-coeff"
	}
	if k.large {
		z += ",subset-menu"
	}
	return fmt.Sprintf("%s t=%d n=%d secret=%s base=%s%s", k.g.Name, k.t, k.n, k.secret.Name, k.base, z)
}

func Run(c *vf.Check) {
	c.Level = "model_checking"
	var cfgs []cfg
	type gl struct {
		name string
		maxN int
	}
	gls := []gl{{"ed25519", 5}, {"p256", 4}, {"bn256.G1", 3}, {"kilic.G2", 3}}
	if c.Thorough() {
		gls = []gl{{"ed25519", 7}, {"p256", 5}, {"bn256.G1", 5}, {"kilic.G2", 4}, {"qr512", 4}, {"gnark.G1", 4}}
	}
	for _, e := range gls {
		g := groups.ByName(e.name)
		if g == nil {
			continue
		}
		secrets := []alpha.NS{{Name: "0", V: big.NewInt(0)}, {Name: "1", V: big.NewInt(1)}, {Name: "q-1", V: new(big.Int).Sub(g.Order, big.NewInt(1))}, {Name: "r1", V: alpha.Rand("c07-secret", g.Order)}}
		for n := 1; n <= e.maxN; n++ {
			for t := 1; t <= n; t++ {
				for si, s := range secrets {
					for bi, b := range []string{"nil", "g1", "B"} {
						if e.name != "ed25519" && (si%2 == 1 || bi == 2) {
							continue
						}
						cfgs = append(cfgs, cfg{g: g, t: t, n: n, secret: s, base: b})
					}
				}
				if t > 1 {
					cfgs = append(cfgs, cfg{g: g, t: t, n: n, secret: secrets[3], base: "g1", zeroTop: true})
				}
			}
		}
	}
	// large n (the Lagrange products grow with n): a menu of subset shapes
	bigNs := []int{8, 12, 16, 21, 24, 32}
	if c.Thorough() {
		bigNs = []int{8, 10, 12, 16, 20, 21, 22, 24, 28, 32, 40, 64}
	}
	edg := groups.ByName("ed25519")
	for _, n := range bigNs {
		ts := map[int]bool{1: true, 2: true, n / 2: true, n/2 + 1: true, n - 1: true, n: true}
		for t := 1; t <= n; t++ {
			if !ts[t] {
				continue
			}
			cfgs = append(cfgs, cfg{g: edg, t: t, n: n, secret: alpha.NS{Name: "r1", V: alpha.Rand("c07-secret", edg.Order)}, base: "g1", large: true})
			if t == n/2 {
				cfgs = append(cfgs, cfg{g: edg, t: t, n: n, secret: alpha.NS{Name: "0", V: big.NewInt(0)}, base: "nil", large: true})
			}
		}
	}
	vf.Parallel(len(cfgs), func(i int) { runCfg(c, cfgs[i]) })
	c.Finish("engine E/S: for every (t,n) with 1<=t<=n<=N (N=5 Ed25519, 3-4 other families; thorough 7/4-5), secrets {0,1,q-1,r1}, bases {nil, explicit B, independent g1}, dealer polynomials with fixed seeded coefficients (one variant with zero top coefficient): "+
		"every subset of the n shares x every arrangement (all permutations for |subset|<=4, else sorted/reversed/rotated/shuffled) x nil-gap patterns {compact, at own index, leading nil, trailing nils} x {no extra, one share repeated}; RecoverSecret/RecoverCommit/RecoverPriPoly/RecoverPubPoly must return the dealer's secret/commitment/all coefficients when >= t distinct shares are present and an error otherwise, twice with identical bytes, leaving the input shares unchanged; "+
		"PriPoly.Eval = math/big model; PubPoly.Eval(i) = Commit(PriPoly.Eval(i)); Check over the share alphabet {honest, +1, other index's value, 0, index >= n on the polynomial}; Add/Mul commute with Eval and Commit; one secret polynomial committed to every sequence of up to 3 bases from {nil, B, g1, g2}: every commitment polynomial belongs to the base asked for. "+
		"Large n in {8,12,16,21,24,32} (thorough up to 64), t in {1,2,n/2,n/2+1,n-1,n} on Ed25519: a menu of subset shapes {first t, last t, evens-then-odds, middle t, all n, t-1 (refused), t+1} in sorted / reversed / rotated / shuffled order, compact and at-own-index. non-trivial = subset size within [t-1, n] with a non-identity arrangement or gaps; distinct by (config, arrangement)",
		[]string{"math/big polynomial evaluation is the reference", "Go map iteration order inside Recover* is not controlled; every recovery is executed twice and must give identical bytes"}, nil)
}

func perms(a []int) [][]int {
	if len(a) <= 1 {
		return [][]int{append([]int{}, a...)}
	}
	var out [][]int
	for i := range a {
		rest := append(append([]int{}, a[:i]...), a[i+1:]...)
		for _, p := range perms(rest) {
			out = append(out, append([]int{a[i]}, p...))
		}
	}
	return out
}

func gcd(a, b int) int {
	for b != 0 {
		a, b = b, a%b
	}
	return a
}

func orders(sub []int) [][]int {
	if len(sub) <= 4 {
		return perms(sub)
	}
	n := len(sub)
	rev := make([]int, n)
	rot := make([]int, n)
	shf := make([]int, n)
	mul := 3
	for gcd(mul, n) != 1 {
		mul++
	}
	for i := range sub {
		rev[i] = sub[n-1-i]
		rot[i] = sub[(i+1)%n]
		shf[i] = sub[(i*mul+2)%n] // mul is coprime to n: a permutation
	}
	return [][]int{append([]int{}, sub...), rev, rot, shf}
}

func runCfg(c *vf.Check, k cfg) {
	g := k.g
	pk := "C07/" + g.Name
	q := g.Order
	var m *fmod.Model
	var poly *share.PriPoly
	var coeffs []*big.Int
	var base kyber.Point
	var pub *share.PubPoly
	ok := false
	c.Case(k.String()+": dealer", pk+"/setup", func(x *vf.Ctx) {
		m = fmod.New(g)
		coeffs = []*big.Int{k.secret.V}
		var sc []kyber.Scalar
		sc = append(sc, alpha.ToScalar(g.Scalar(), k.secret.V, q))
		for i := 1; i < k.t; i++ {
			v := alpha.Rand(fmt.Sprintf("c07-coeff-%d", i), q)
			if k.zeroTop && i == k.t-1 {
				v = big.NewInt(0)
			}
			coeffs = append(coeffs, v)
			sc = append(sc, alpha.ToScalar(g.Scalar(), v, q))
		}
		poly = share.CoefficientsToPriPoly(g.Group, sc)
		switch k.base {
		case "nil":
			base = nil
		case "B":
			base = g.Point().Base()
		case "g1":
			base = m.Gens[1]
		}
		pub = poly.Commit(base)
		if int(poly.Threshold()) != k.t || !poly.Secret().Equal(sc[0]) {
			x.Failf(pk+"/PriPoly", "Threshold()=%d Secret mismatch", poly.Threshold())
			return
		}
		ok = true
	})
	if !ok {
		return
	}
	evalModel := func(i int) *big.Int {
		xi := big.NewInt(int64(i + 1))
		acc := new(big.Int)
		for j := len(coeffs) - 1; j >= 0; j-- {
			acc.Mul(acc, xi).Add(acc, coeffs[j]).Mod(acc, q)
		}
		return acc
	}
	effBase := base
	if effBase == nil {
		effBase = g.Point().Base()
	}
	// shares, Eval, PubPoly.Eval, Check
	var pri []*share.PriShare
	var pubs []*share.PubShare
	c.Case(k.String()+": Eval/Check", pk+"/Eval", func(x *vf.Ctx) {
		pri = poly.Shares(uint32(k.n))
		pubs = pub.Shares(uint32(k.n))
		for i := 0; i < k.n+2; i++ {
			ps := poly.Eval(uint32(i))
			c.Eval(1)
			if int(ps.I) != i || alpha.FromScalar(ps.V).Cmp(evalModel(i)) != 0 {
				x.Failf(pk+"/PriPoly.Eval", "Eval(%d) = (%d,%s), model %s", i, ps.I, alpha.FromScalar(ps.V), evalModel(i))
			}
			if i < k.n && (!pri[i].V.Equal(ps.V) || int(pri[i].I) != i) {
				x.Failf(pk+"/PriPoly.Shares", "Shares(n)[%d] differs from Eval(%d)", i, i)
			}
			pe := pub.Eval(uint32(i))
			want := g.Point().Mul(ps.V, effBase)
			if int(pe.I) != i || !pe.V.Equal(want) {
				x.Failf(pk+"/PubPoly.Eval", "PubPoly.Eval(%d) != Commit(PriPoly.Eval(%d))", i, i)
			}
			if i < k.n && !pubs[i].V.Equal(pe.V) {
				x.Failf(pk+"/PubPoly.Shares", "PubPoly.Shares(n)[%d] differs from Eval", i)
			}
			// Check over the share alphabet
			type sh struct {
				name string
				s    *share.PriShare
				on   bool
			}
			one := g.Scalar().One()
			alts := []sh{
				{"honest", &share.PriShare{I: uint32(i), V: ps.V.Clone()}, true},
				{"value+1", &share.PriShare{I: uint32(i), V: g.Scalar().Add(ps.V, one)}, false},
				{"zero", &share.PriShare{I: uint32(i), V: g.Scalar().Zero()}, evalModel(i).Sign() == 0},
				{"other-index-value", &share.PriShare{I: uint32(i), V: poly.Eval(uint32(i + 1)).V}, evalModel(i).Cmp(evalModel(i+1)) == 0},
				{"negated", &share.PriShare{I: uint32(i), V: g.Scalar().Neg(ps.V)}, new(big.Int).Mod(new(big.Int).Neg(evalModel(i)), q).Cmp(evalModel(i)) == 0},
			}
			for _, a := range alts {
				c.Eval(1)
				if got := pub.Check(a.s); got != a.on {
					x.Failf(pk+"/Check", "Check(%s share of index %d) = %v, on the committed polynomial: %v", a.name, i, got, a.on)
				}
				c.Class(fmt.Sprintf("Check/%v", a.on), func() any { return k.String() + " " + a.name })
			}
		}
		if !pub.Commit().Equal(g.Point().Mul(poly.Secret(), effBase)) {
			x.Failf(pk+"/PubPoly.Commit", "Commit() != secret*base")
		}
		if int(pub.Threshold()) != k.t {
			x.Failf(pk+"/PubPoly.Threshold", "Threshold()=%d", pub.Threshold())
		}
	})
	if pri == nil {
		return
	}
	// Add / Mul commute with Eval and Commit
	c.Case(k.String()+": Add/Mul", pk+"/AddMul", func(x *vf.Ctx) {
		var sc2 []kyber.Scalar
		for i := 0; i < k.t; i++ {
			sc2 = append(sc2, alpha.ToScalar(g.Scalar(), alpha.Rand(fmt.Sprintf("c07-q-%d", i), q), q))
		}
		p2 := share.CoefficientsToPriPoly(g.Group, sc2)
		sum, err := poly.Add(p2)
		if err != nil {
			x.Failf(pk+"/PriPoly.Add", "Add: %v", err)
			return
		}
		prod := poly.Mul(p2)
		psum, err := pub.Add(p2.Commit(base))
		if err != nil {
			x.Failf(pk+"/PubPoly.Add", "Add: %v", err)
			return
		}
		if !psum.Equal(sum.Commit(base)) {
			x.Failf(pk+"/PubPoly.Add", "Commit(p)+Commit(q) != Commit(p+q)")
		}
		if bb, _ := psum.Info(); (bb == nil && base != nil) || (bb != nil && !bb.Equal(effBase)) {
			x.Failf(pk+"/PubPoly.Add", "the sum of two commitment polynomials over base %s reports another base", k.base)
		}
		for i := 0; i < k.n; i++ {
			if !psum.Check(sum.Eval(uint32(i))) {
				x.Failf(pk+"/PubPoly.Add", "(P+Q).Check rejects the share %d of p+q (base %s)", i, k.base)
				break
			}
		}
		for i := 0; i < k.n+1; i++ {
			a, b := poly.Eval(uint32(i)).V, p2.Eval(uint32(i)).V
			c.Eval(3)
			if !sum.Eval(uint32(i)).V.Equal(g.Scalar().Add(a, b)) {
				x.Failf(pk+"/PriPoly.Add", "(p+q)(%d) != p(%d)+q(%d)", i, i, i)
			}
			if !prod.Eval(uint32(i)).V.Equal(g.Scalar().Mul(a, b)) {
				x.Failf(pk+"/PriPoly.Mul", "(p*q)(%d) != p(%d)*q(%d)", i, i, i)
			}
			if !psum.Eval(uint32(i)).V.Equal(g.Point().Add(pub.Eval(uint32(i)).V, p2.Commit(base).Eval(uint32(i)).V)) {
				x.Failf(pk+"/PubPoly.Add", "(P+Q)(%d) != P(%d)+Q(%d)", i, i, i)
			}
		}
	})
	// one secret polynomial committed to several bases one after the other (every sequence of up to 3 bases): each
	// commitment polynomial belongs to the base it was asked for, whatever was asked before
	if k.base == "nil" && !k.large {
		bases := []struct {
			name string
			p    kyber.Point
		}{{"nil", nil}, {"B", g.Point().Base()}, {"g1", m.Gens[1]}, {"g2", m.Gens[len(m.Gens)-1]}}
		depth := 3
		if g.Slow {
			depth = 2
		}
		var seqs [][]int
		var gen func(pre []int)
		gen = func(pre []int) {
			if len(pre) > 1 {
				seqs = append(seqs, append([]int{}, pre...))
			}
			if len(pre) == depth {
				return
			}
			for b := range bases {
				gen(append(pre, b))
			}
		}
		gen(nil)
		c.Case(k.String()+": Commit to several bases in turn", pk+"/Commit-sequence", func(x *vf.Ctx) {
			for _, seq := range seqs {
				var sc []kyber.Scalar
				for _, v := range coeffs {
					sc = append(sc, alpha.ToScalar(g.Scalar(), v, q))
				}
				pp := share.CoefficientsToPriPoly(g.Group, sc)
				var names []string
				for _, b := range seq {
					names = append(names, bases[b].name)
					eb := bases[b].p
					if eb == nil {
						eb = g.Point().Base()
					}
					cp := pp.Commit(bases[b].p)
					c.Eval(1)
					ib, cs := cp.Info()
					if (ib == nil) != (bases[b].p == nil) || (ib != nil && !ib.Equal(eb)) {
						x.Failf(pk+"/Commit-sequence", "%s: after Commit to %v in turn, the last commitment polynomial reports another base", k.String(), names)
						return
					}
					for j := range cs {
						if !cs[j].Equal(g.Point().Mul(sc[j], eb)) {
							x.Failf(pk+"/Commit-sequence", "%s: after Commit to %v in turn, coefficient %d of the last commitment polynomial is not coeff*base", k.String(), names, j)
							return
						}
					}
					if !cp.Eval(0).V.Equal(g.Point().Mul(pp.Eval(0).V, eb)) || !cp.Check(pp.Eval(1)) {
						x.Failf(pk+"/Commit-sequence", "%s: after Commit to %v in turn, the last commitment polynomial does not evaluate to share*base / Check disagrees", k.String(), names)
						return
					}
				}
				c.Nontrivial(k.String() + fmt.Sprint(names))
			}
		})
	}
	wantSecret, _ := poly.Secret().MarshalBinary()
	wantCommit := fmod.Enc(pub.Commit())
	var wantCoeffs, wantCommits [][]byte
	for _, co := range poly.Coefficients() {
		b, _ := co.MarshalBinary()
		wantCoeffs = append(wantCoeffs, b)
	}
	_, cms := pub.Info()
	for _, cm := range cms {
		wantCommits = append(wantCommits, fmod.Enc(cm))
	}
	priEnc := make([][]byte, k.n)
	for i := range pri {
		priEnc[i], _ = pri[i].V.MarshalBinary()
	}
	// every subset x arrangement (large n: a menu of subset shapes)
	var subsets [][]int
	if !k.large {
		for mask := 0; mask < 1<<k.n; mask++ {
			var sub []int
			for i := 0; i < k.n; i++ {
				if mask>>i&1 == 1 {
					sub = append(sub, i)
				}
			}
			subsets = append(subsets, sub)
		}
	} else {
		rng := func(a, b int) []int {
			var o []int
			for i := a; i < b; i++ {
				o = append(o, i)
			}
			return o
		}
		var evenOdd []int
		for i := 0; i < k.n; i += 2 {
			evenOdd = append(evenOdd, i)
		}
		for i := 1; i < k.n; i += 2 {
			evenOdd = append(evenOdd, i)
		}
		mid := (k.n - k.t) / 2
		subsets = [][]int{rng(0, k.t), rng(k.n-k.t, k.n), evenOdd[:k.t], rng(mid, mid+k.t), rng(0, k.n), rng(0, k.t-1), rng(k.n-k.t+1, k.n)}
		if k.t < k.n {
			subsets = append(subsets, rng(0, k.t+1), rng(k.n-k.t-1, k.n))
		}
	}
	for _, sub := range subsets {
		if c.Thorough() && k.n > 5 && len(sub) != k.t-1 && len(sub) != k.t && len(sub) != k.t+1 && len(sub) != k.n && len(sub) != 0 {
			continue
		}
		for oi, ord := range orders(sub) {
			for _, gap := range []string{"compact", "own-index", "leading-nil", "trailing-nils"} {
				if gap == "own-index" && oi != 0 {
					continue
				}
				for _, dup := range []bool{false, true} {
					if dup && (len(ord) == 0 || oi > 1) {
						continue
					}
					if k.large && (gap == "leading-nil" || gap == "trailing-nils" || (oi > 1 && dup)) {
						continue
					}
					// build the slices
					var ps []*share.PriShare
					var qs []*share.PubShare
					put := func(i int) {
						ps = append(ps, &share.PriShare{I: pri[i].I, V: pri[i].V.Clone()})
						qs = append(qs, &share.PubShare{I: pubs[i].I, V: pubs[i].V.Clone()})
					}
					switch gap {
					case "compact":
						for _, i := range ord {
							put(i)
						}
					case "own-index":
						ps = make([]*share.PriShare, k.n)
						qs = make([]*share.PubShare, k.n)
						for _, i := range ord {
							ps[i] = &share.PriShare{I: pri[i].I, V: pri[i].V.Clone()}
							qs[i] = &share.PubShare{I: pubs[i].I, V: pubs[i].V.Clone()}
						}
					case "leading-nil":
						ps = append(ps, nil)
						qs = append(qs, nil)
						for j, i := range ord {
							put(i)
							if j == 0 {
								ps = append(ps, nil)
								qs = append(qs, nil)
							}
						}
					case "trailing-nils":
						for _, i := range ord {
							put(i)
						}
						ps = append(ps, nil, nil)
						qs = append(qs, nil, nil)
					}
					if dup {
						// a repeated share directly after the first one
						f := ord[0]
						ps = append(ps[:1:1], append([]*share.PriShare{{I: pri[f].I, V: pri[f].V.Clone()}}, ps[1:]...)...)
						qs = append(qs[:1:1], append([]*share.PubShare{{I: pubs[f].I, V: pubs[f].V.Clone()}}, qs[1:]...)...)
						if gap == "leading-nil" || gap == "own-index" {
							ps = append(ps, &share.PriShare{I: pri[f].I, V: pri[f].V.Clone()})
							qs = append(qs, &share.PubShare{I: pubs[f].I, V: pubs[f].V.Clone()})
						}
					}
					id := fmt.Sprintf("%s: shares %v %s dup=%v", k.String(), ord, gap, dup)
					enough := len(sub) >= k.t
					c.Case(id, pk+"/Recover", func(x *vf.Ctx) {
						recoverAll(c, x, k, pk, ps, qs, enough, wantSecret, wantCommit, wantCoeffs, wantCommits)
						for _, s := range ps {
							if s != nil {
								if b, _ := s.V.MarshalBinary(); !bytes.Equal(b, priEnc[s.I]) {
									x.Failf(pk+"/Recover-mutates-input", "share %d changed by recovery", s.I)
								}
							}
						}
					})
					c.Count("transitions", 4)
					c.Class(fmt.Sprintf("%s/recover/enough=%v", g.Name, enough), func() any { return id })
					if len(sub) >= k.t-1 && (oi > 0 || gap != "compact" || dup) {
						c.Nontrivial(id)
					}
				}
			}
		}
		if c.Expired() {
			c.Cap(k.String() + ": deadline")
			return
		}
	}
	c.Count("states", int64(len(subsets)))
	c.Count("traces_validated_against_impl", int64(len(subsets)))
}

func recoverAll(c *vf.Check, x *vf.Ctx, k cfg, pk string, ps []*share.PriShare, qs []*share.PubShare, enough bool, wantSecret, wantCommit []byte, wantCoeffs, wantCommits [][]byte) {
	g := k.g.Group
	t, n := uint32(k.t), uint32(k.n)
	for rep := 0; rep < 2; rep++ {
		s, err := share.RecoverSecret(g, ps, t, n)
		c.Eval(1)
		if enough {
			if err != nil || s == nil {
				x.Failf(pk+"/RecoverSecret", "refused although >= t distinct shares were given: %v", err)
			} else if b, _ := s.MarshalBinary(); !bytes.Equal(b, wantSecret) {
				x.Failf(pk+"/RecoverSecret", "wrong secret %x, dealer's %x", b, wantSecret)
			}
		} else if err == nil {
			x.Failf(pk+"/RecoverSecret-refuse", "no error with fewer than t distinct shares (result nil=%v)", s == nil)
		}
		cm, err := share.RecoverCommit(g, qs, t, n)
		c.Eval(1)
		if enough {
			if err != nil || cm == nil {
				x.Failf(pk+"/RecoverCommit", "refused although >= t distinct shares were given: %v", err)
			} else if !bytes.Equal(fmod.Enc(cm), wantCommit) {
				x.Failf(pk+"/RecoverCommit", "wrong commitment")
			}
		} else if err == nil {
			x.Failf(pk+"/RecoverCommit-refuse", "no error with fewer than t distinct shares (result nil=%v)", cm == nil)
		}
		pp, err := share.RecoverPriPoly(g, ps, t, n)
		c.Eval(1)
		if enough {
			if err != nil || pp == nil {
				x.Failf(pk+"/RecoverPriPoly", "refused although >= t distinct shares were given: %v", err)
			} else {
				co := pp.Coefficients()
				if len(co) != len(wantCoeffs) {
					x.Failf(pk+"/RecoverPriPoly", "recovered %d coefficients, dealer has %d", len(co), len(wantCoeffs))
				} else {
					for i := range co {
						if b, _ := co[i].MarshalBinary(); !bytes.Equal(b, wantCoeffs[i]) {
							x.Failf(pk+"/RecoverPriPoly", "coefficient %d differs from the dealer's", i)
							break
						}
					}
				}
			}
		} else if err == nil {
			x.Failf(pk+"/RecoverPriPoly-refuse", "no error with fewer than t distinct shares (result nil=%v)", pp == nil)
		}
		pb, err := share.RecoverPubPoly(g, qs, t, n)
		c.Eval(1)
		if enough {
			if err != nil || pb == nil {
				x.Failf(pk+"/RecoverPubPoly", "refused although >= t distinct shares were given: %v", err)
			} else {
				_, cms := pb.Info()
				if len(cms) != len(wantCommits) {
					x.Failf(pk+"/RecoverPubPoly", "recovered %d commitments, dealer has %d", len(cms), len(wantCommits))
				} else {
					for i := range cms {
						if !bytes.Equal(fmod.Enc(cms[i]), wantCommits[i]) {
							x.Failf(pk+"/RecoverPubPoly", "commitment %d differs from the dealer's", i)
							break
						}
					}
				}
			}
		} else if err == nil {
			x.Failf(pk+"/RecoverPubPoly-refuse", "no error with fewer than t distinct shares (result nil=%v)", pb == nil)
		}
	}
}
