// Package c11: distributed key generation (Pedersen incl. fast-sync and
// resharing; Rabin). Every assignment of one fault behaviour from a finite
// menu to a participant (n-t >= 1), every delivery order of the bundles
// handed to one honest node in one phase, on the real DistKeyGenerator
// objects; oracle on the honest outputs.
package c11

import (
	"bytes"
	"fmt"
	"sort"
	"strings"

	"go.dedis.ch/kyber/v4"
	"go.dedis.ch/kyber/v4/encrypt/ecies"
	"go.dedis.ch/kyber/v4/group/edwards25519"
	"go.dedis.ch/kyber/v4/share"
	dkg "go.dedis.ch/kyber/v4/share/dkg/pedersen"
	"go.dedis.ch/kyber/v4/sign/schnorr"
	"verif/harness/alpha"
	"verif/harness/groups"
	"verif/harness/vf"

	"crypto/sha256"
)

type zeroReader struct {
	label string
	s     interface{ XORKeyStream(dst, src []byte) }
}

func (z *zeroReader) Read(p []byte) (int, error) {
	if z.s == nil {
		z.s = alpha.Stream("c11-reader-" + z.label + keyTag)
	}
	for i := range p {
		p[i] = 0
	}
	z.s.XORKeyStream(p, p)
	return len(p), nil
}

// fault: one behaviour of the (single) faulty party.
type fault struct {
	kind   string
	party  int // who deviates (-1: nobody)
	target int // victim share holder / accused dealer, where the kind needs one
}

func (f fault) String() string {
	if f.party < 0 {
		return "no fault"
	}
	return fmt.Sprintf("party %d: %s(target %d)", f.party, f.kind, f.target)
}

type pcfg struct {
	n, t     int
	fast     bool
	reshare  string // "", "same", "permute", "replace-one", "grow", "shrink", "new-threshold"
	fault    fault
	fault2   fault // a second deviating party (party < 0: none); only used with n - t >= 2
	permNode int // honest node whose input order is permuted (-1: none)
	permPh   int // 0 deals, 1 responses, 2 justifications
	perm     []int
}

func (p pcfg) base() string {
	m := "regular"
	if p.fast {
		m = "fast-sync"
	}
	r := ""
	if p.reshare != "" {
		r = " reshare=" + p.reshare
	}
	f2 := ""
	if p.fault2.kind != "" && p.fault2.party >= 0 {
		f2 = " and " + p.fault2.String()
	}
	return fmt.Sprintf("pedersen n=%d t=%d %s%s; %s%s", p.n, p.t, m, r, p.fault, f2)
}

func (p pcfg) String() string {
	if p.permNode < 0 {
		return p.base()
	}
	return fmt.Sprintf("%s; node %d gets its %s in order %v", p.base(), p.permNode, []string{"deals", "responses", "justifications"}[p.permPh], p.perm)
}

type pnode struct {
	idx  uint32
	long kyber.Scalar
	pub  kyber.Point
	cfg  *dkg.Config
	gen  *dkg.DistKeyGenerator
	res  *dkg.Result
	err  error
	done bool
	dealerIdx uint32 // the index under which it deals (resharing: its index in the old group)
	sent [3]string // canonical form of the bundle it emitted in each phase
}

type outcome struct {
	nodes             []*pnode
	dealPub0          map[uint32]kyber.Point // constant commitment each dealer announced (as delivered)
	oldPub            kyber.Point            // resharing: the public key before
	complaintsAgainst map[uint32]int
	victimSilent      string // an honest receiver of an invalid share that did not complain about its dealer
}

var ed = edwards25519.NewBlakeSHA256Ed25519()

// keyTag varies the seeded randomness of a whole run (used by KeysFromDKG to
// obtain independent long-term and one-time keys).
var keyTag string

func mkSuite(label string) dkg.Suite {
	return edwards25519.NewBlakeSHA256Ed25519WithRand(alpha.Stream("c11-suite-" + label + keyTag))
}

func longterm(i int, label string) (kyber.Scalar, kyber.Point) {
	s := alpha.ToScalar(ed.Scalar(), alpha.Rand(fmt.Sprintf("c11-long-%s-%d", label, i), groups.OrderEd25519), groups.OrderEd25519)
	return s, ed.Point().Mul(s, nil)
}

var nonce = bytes.Repeat([]byte{0x5a}, dkg.NonceLength)

func canonDeal(b *dkg.DealBundle) string {
	if b == nil {
		return "nil"
	}
	var pubs []string
	for _, p := range b.Public {
		e, _ := p.MarshalBinary()
		pubs = append(pubs, fmt.Sprintf("%x", e[:6]))
	}
	var idx []string
	for _, d := range b.Deals {
		idx = append(idx, fmt.Sprint(d.ShareIndex))
	}
	sort.Strings(idx)
	return fmt.Sprintf("dealer=%d pub=%v to=%v", b.DealerIndex, pubs, idx)
}

func canonResp(b *dkg.ResponseBundle) string {
	if b == nil {
		return "nil"
	}
	var r []string
	for _, x := range b.Responses {
		r = append(r, fmt.Sprintf("%d:%v", x.DealerIndex, x.Status))
	}
	sort.Strings(r)
	return fmt.Sprintf("holder=%d %v", b.ShareIndex, r)
}

func canonJust(b *dkg.JustificationBundle) string {
	if b == nil {
		return "nil"
	}
	var r []string
	for _, x := range b.Justifications {
		e, _ := x.Share.MarshalBinary()
		r = append(r, fmt.Sprintf("%d:%x", x.ShareIndex, e[:6]))
	}
	sort.Strings(r)
	return fmt.Sprintf("dealer=%d %v", b.DealerIndex, r)
}

func canonRes(r *dkg.Result, err error) string {
	if err != nil || r == nil {
		if err != nil {
			return "error"
		}
		return "none"
	}
	var q []string
	for _, n := range r.QUAL {
		q = append(q, fmt.Sprint(n.Index))
	}
	sort.Strings(q)
	var cs []string
	for _, c := range r.Key.Commits {
		e, _ := c.MarshalBinary()
		cs = append(cs, fmt.Sprintf("%x", e[:8]))
	}
	sb, _ := r.Key.Share.V.MarshalBinary()
	return fmt.Sprintf("QUAL=%v commits=%v share=%d:%x", q, cs, r.Key.Share.I, sb[:8])
}

func permute[T any](in []T, perm []int) []T {
	if perm == nil || len(perm) != len(in) {
		return in
	}
	out := make([]T, len(in))
	for i, p := range perm {
		out[i] = in[p]
	}
	return out
}

// runPedersen executes one complete run and returns what every node observed.
func runPedersen(p pcfg, old *outcome) *outcome {
	n, t := p.n, p.t
	out := &outcome{dealPub0: map[uint32]kyber.Point{}, complaintsAgainst: map[uint32]int{}}
	var newNodes []dkg.Node
	var nodes []*pnode
	label := "fresh"
	if p.reshare != "" {
		label = "new-" + p.reshare
	}
	// membership of the new group
	type member struct {
		long kyber.Scalar
		pub  kyber.Point
		oldI int // index in the old group, -1 if new
	}
	var members []member
	var oldNodes []dkg.Node
	oldT := 0
	if p.reshare == "" {
		for i := 0; i < n; i++ {
			l, pb := longterm(i, "fresh")
			members = append(members, member{l, pb, -1})
		}
	} else {
		oldT = len(old.nodes[0].res.Key.Commits)
		for _, on := range old.nodes {
			oldNodes = append(oldNodes, dkg.Node{Index: on.idx, Public: on.pub})
		}
		out.oldPub = old.nodes[0].res.Key.Commits[0]
		no := len(old.nodes)
		switch p.reshare {
		case "same", "new-threshold":
			for i := 0; i < no; i++ {
				members = append(members, member{old.nodes[i].long, old.nodes[i].pub, i})
			}
		case "permute": // the same members, listed in another order: new index != old index for everybody
			for i := 0; i < no; i++ {
				o := (i + 1) % no
				members = append(members, member{old.nodes[o].long, old.nodes[o].pub, o})
			}
		case "replace-one": // the last old node leaves, a newcomer takes a new index
			for i := 0; i < no-1; i++ {
				members = append(members, member{old.nodes[i].long, old.nodes[i].pub, i})
			}
			l, pb := longterm(0, label)
			members = append(members, member{l, pb, -1})
		case "grow":
			for i := 0; i < no; i++ {
				members = append(members, member{old.nodes[i].long, old.nodes[i].pub, i})
			}
			l, pb := longterm(0, label)
			members = append(members, member{l, pb, -1})
		case "shrink":
			for i := 0; i < no-1; i++ {
				members = append(members, member{old.nodes[i].long, old.nodes[i].pub, i})
			}
		}
		n = len(members)
	}
	for i, m := range members {
		newNodes = append(newNodes, dkg.Node{Index: uint32(i), Public: m.pub})
	}
	mk := func(long kyber.Scalar, pub kyber.Point, name string, sh *dkg.DistKeyShare, pubCoeffs []kyber.Point) *pnode {
		s := mkSuite(label + name)
		c := &dkg.Config{Suite: s, Longterm: long, NewNodes: append([]dkg.Node{}, newNodes...), Threshold: uint32(t), Nonce: nonce,
			Auth: schnorr.NewScheme(s), FastSync: p.fast, Reader: &zeroReader{label: label + name}, UserReaderOnly: true}
		if p.reshare != "" {
			c.OldNodes = append([]dkg.Node{}, oldNodes...)
			c.OldThreshold = uint32(oldT)
			c.Share = sh
			if sh == nil {
				c.PublicCoeffs = pubCoeffs
			}
		}
		g, err := dkg.NewDistKeyHandler(c)
		nd := &pnode{long: long, pub: pub, cfg: c, gen: g}
		if err != nil {
			nd.err, nd.done = err, true
		}
		return nd
	}
	// participants: every member of the new group, plus (resharing) old members that leave
	var oldCommits []kyber.Point
	if p.reshare != "" {
		oldCommits = old.nodes[0].res.Key.Commits
	}
	for i, m := range members {
		var sh *dkg.DistKeyShare
		if m.oldI >= 0 {
			sh = old.nodes[m.oldI].res.Key
		}
		nd := mk(m.long, m.pub, fmt.Sprintf("-new%d", i), sh, oldCommits)
		nd.idx = uint32(i)
		nodes = append(nodes, nd)
	}
	var leavers []*pnode
	if p.reshare != "" {
		for i, on := range old.nodes {
			staying := false
			for _, m := range members {
				if m.oldI == i {
					staying = true
				}
			}
			if !staying {
				nd := mk(on.long, on.pub, fmt.Sprintf("-leaver%d", i), on.res.Key, nil)
				nd.idx = on.idx
				leavers = append(leavers, nd)
			}
		}
	}
	out.nodes = nodes
	all := append(append([]*pnode{}, nodes...), leavers...)
	var curFault fault // the behaviour of the node being processed
	isFaulty := func(nd *pnode) bool {
		if p.fault2.kind != "" && p.fault2.party >= 0 && nd == nodes[p.fault2.party%len(nodes)] {
			curFault = p.fault2
			return true
		}
		curFault = p.fault
		if p.fault.party >= 1000 { // a leaving old member (dealer only) deviates
			k := p.fault.party - 1000
			return k < len(leavers) && nd == leavers[k]
		}
		return p.fault.party >= 0 && nd == nodes[p.fault.party%len(nodes)]
	}
	sign := func(nd *pnode, pk dkg.Packet) []byte {
		h, _ := pk.Hash()
		sig, _ := nd.cfg.Auth.Sign(nd.long, h)
		return sig
	}
	verified := func(rcv *pnode, pk dkg.Packet) bool { return dkg.VerifyPacketSignature(rcv.cfg, pk) == nil }
	fk := p.fault.kind
	_ = fk

	// ---- phase 1: deals
	var deals []*dkg.DealBundle
	for _, nd := range all {
		if nd.done {
			continue
		}
		b, err := nd.gen.Deals()
		if err != nil || b == nil {
			continue // new members cannot deal
		}
		nd.sent[0] = canonDeal(b)
		nd.dealerIdx = b.DealerIndex
		if isFaulty(nd) {
			fk := curFault.kind
			victim := uint32(curFault.target % n)
			switch fk {
			case "absent", "absent-deals":
				continue
			case "bad-share", "bad-share+no-justification", "bad-share+bad-justification":
				for i := range b.Deals {
					if b.Deals[i].ShareIndex == victim {
						junk, _ := alpha.ToScalar(ed.Scalar(), alpha.Rand("c11-junk-share", groups.OrderEd25519), groups.OrderEd25519).MarshalBinary()
						b.Deals[i].EncryptedShare, _ = ecies.Encrypt(ed, newNodes[victim].Public, junk, sha256.New)
					}
				}
			case "share-to-wrong-holder":
				for i := range b.Deals {
					if b.Deals[i].ShareIndex == victim {
						other := (victim + 1) % uint32(n)
						junk, _ := ed.Scalar().One().MarshalBinary()
						b.Deals[i].EncryptedShare, _ = ecies.Encrypt(ed, newNodes[other].Public, junk, sha256.New)
					}
				}
			case "share-index-out-of-range":
				if len(b.Deals) > 0 {
					b.Deals[0].ShareIndex = uint32(n + 5)
				}
			case "commitments-short":
				b.Public = b.Public[:len(b.Public)-1]
			case "commitments-long":
				b.Public = append(append([]kyber.Point{}, b.Public...), ed.Point().Base())
			case "wrong-session-id-deals":
				b.SessionID = bytes.Repeat([]byte{1}, dkg.NonceLength)
			case "wrong-constant-term":
				if p.reshare != "" {
					cp := append([]kyber.Point{}, b.Public...)
					cp[0] = ed.Point().Add(cp[0], ed.Point().Base())
					b.Public = cp
				}
			}
			b.Signature = sign(nd, b)
			deals = append(deals, b)
			if fk == "duplicate-deal-bundle" {
				cp := *b
				deals = append(deals, &cp)
			}
			if fk == "conflicting-deal-bundles" {
				cp := *b
				cp.Public = append([]kyber.Point{}, b.Public...)
				cp.Public[len(cp.Public)-1] = ed.Point().Add(cp.Public[len(cp.Public)-1], ed.Point().Base())
				cp.Signature = sign(nd, &cp)
				deals = append(deals, &cp)
			}
			continue
		}
		deals = append(deals, b)
	}
	for _, b := range deals {
		if len(b.Public) > 0 {
			if _, dup := out.dealPub0[b.DealerIndex]; !dup {
				out.dealPub0[b.DealerIndex] = b.Public[0]
			}
		}
	}
	// ---- phase 2: responses
	var resps []*dkg.ResponseBundle
	for ni, nd := range all {
		if nd.done {
			continue
		}
		var in []*dkg.DealBundle
		for _, b := range deals {
			cp := *b
			cp.Deals = append([]dkg.Deal{}, b.Deals...)
			if verified(nd, &cp) {
				in = append(in, &cp)
			}
		}
		if ni == p.permNode && p.permPh == 0 {
			in = permute(in, p.perm)
		}
		rb, err := nd.gen.ProcessDeals(in)
		if err != nil {
			nd.err, nd.done = err, true
			continue
		}
		nd.sent[1] = canonResp(rb)
		// an honest receiver of an invalid (undecryptable / off-polynomial) share answers with a complaint about that dealer
		if strings.HasPrefix(p.fault.kind, "bad-share") && p.fault2.kind == "" && p.fault.party >= 0 && !isFaulty(nd) && ni < len(nodes) &&
			nd.idx == uint32(p.fault.target%n) {
			var dealer *pnode
			if p.fault.party >= 1000 {
				if k := p.fault.party - 1000; k < len(leavers) {
					dealer = leavers[k]
				}
			} else {
				dealer = nodes[p.fault.party%len(nodes)]
			}
			if dealer != nil && dealer != nd && dealer.sent[0] != "" {
				complained := false
				if rb != nil {
					for _, r := range rb.Responses {
						if r.DealerIndex == dealer.dealerIdx && r.Status == dkg.Complaint {
							complained = true
						}
					}
				}
				if !complained {
					out.victimSilent = fmt.Sprintf("node %d received an invalid share from dealer %d and its response bundle carries no complaint about that dealer", nd.idx, dealer.dealerIdx)
				}
			}
		}
		if isFaulty(nd) {
			fk := curFault.kind
			accused := uint32(curFault.target % max(len(oldNodesOr(newNodes, oldNodes)), 1))
			switch fk {
			case "absent", "absent-responses":
				continue
			case "false-complaint":
				rb = &dkg.ResponseBundle{ShareIndex: nd.idx, SessionID: nonce}
				for _, d := range oldNodesOr(newNodes, oldNodes) {
					st := dkg.Success
					if d.Index == accused {
						st = dkg.Complaint
					}
					if p.fast || st == dkg.Complaint {
						rb.Responses = append(rb.Responses, dkg.Response{DealerIndex: d.Index, Status: st})
					}
				}
			case "success-response-in-regular-mode":
				rb = &dkg.ResponseBundle{ShareIndex: nd.idx, SessionID: nonce, Responses: []dkg.Response{{DealerIndex: accused, Status: dkg.Success}}}
			case "wrong-session-id-responses":
				if rb == nil {
					rb = &dkg.ResponseBundle{ShareIndex: nd.idx, Responses: []dkg.Response{{DealerIndex: accused, Status: dkg.Complaint}}}
				}
				rb.SessionID = bytes.Repeat([]byte{2}, dkg.NonceLength)
			case "response-with-unknown-status-code":
				// a correctly signed bundle whose entry for an honest dealer carries a status that is neither Success nor
				// Complaint: it accuses nobody of anything
				rb = &dkg.ResponseBundle{ShareIndex: nd.idx, SessionID: nonce, Responses: []dkg.Response{{DealerIndex: accused, Status: 2}}}
			case "response-names-unknown-dealer":
				rb = &dkg.ResponseBundle{ShareIndex: nd.idx, SessionID: nonce, Responses: []dkg.Response{{DealerIndex: uint32(n + 7), Status: dkg.Complaint}}}
			}
			if rb != nil {
				rb.Signature = sign(nd, rb)
			}
		}
		if rb != nil {
			resps = append(resps, rb)
			for _, r := range rb.Responses {
				if r.Status == dkg.Complaint {
					out.complaintsAgainst[r.DealerIndex]++
				}
			}
		}
	}
	// ---- phase 3: justifications
	var justs []*dkg.JustificationBundle
	for ni, nd := range all {
		if nd.done {
			continue
		}
		var in []*dkg.ResponseBundle
		for _, b := range resps {
			cp := *b
			cp.Responses = append([]dkg.Response{}, b.Responses...)
			if verified(nd, &cp) {
				in = append(in, &cp)
			}
		}
		if ni == p.permNode && p.permPh == 1 {
			in = permute(in, p.perm)
		}
		res, jb, err := nd.gen.ProcessResponses(in)
		if err != nil || res != nil {
			nd.res, nd.err, nd.done = res, err, true
			continue
		}
		nd.sent[2] = canonJust(jb)
		if isFaulty(nd) {
			fk := curFault.kind
			switch fk {
			case "absent", "bad-share+no-justification", "absent-justifications":
				continue
			case "bad-share+bad-justification":
				if jb != nil {
					for i := range jb.Justifications {
						jb.Justifications[i].Share = ed.Scalar().Add(jb.Justifications[i].Share, ed.Scalar().One())
					}
				}
			case "justification-index-out-of-range":
				if jb == nil {
					jb = &dkg.JustificationBundle{DealerIndex: nd.idx, SessionID: nonce}
				}
				jb.Justifications = append(jb.Justifications, dkg.Justification{ShareIndex: uint32(n + 9), Share: ed.Scalar().One()})
			case "wrong-session-id-justifications":
				if jb != nil {
					jb.SessionID = bytes.Repeat([]byte{3}, dkg.NonceLength)
				}
			}
			if jb != nil {
				jb.Signature = sign(nd, jb)
			}
		}
		if jb != nil {
			justs = append(justs, jb)
		}
	}
	// ---- phase 4: finish
	for ni, nd := range all {
		if nd.done {
			continue
		}
		var in []*dkg.JustificationBundle
		for _, b := range justs {
			cp := *b
			cp.Justifications = append([]dkg.Justification{}, b.Justifications...)
			if verified(nd, &cp) {
				in = append(in, &cp)
			}
		}
		if ni == p.permNode && p.permPh == 2 {
			in = permute(in, p.perm)
		}
		nd.res, nd.err = nd.gen.ProcessJustifications(in)
		nd.done = true
	}
	return out
}

func oldNodesOr(newNodes, oldNodes []dkg.Node) []dkg.Node {
	if len(oldNodes) > 0 {
		return oldNodes
	}
	return newNodes
}

// judge applies the end-state oracle to the honest nodes of a run.
func judge(x *vf.Ctx, c *vf.Check, p pcfg, o *outcome, pk string) {
	judgeAs(x, c, p, o, pk, p.String())
}

func judgeAs(x *vf.Ctx, c *vf.Check, p pcfg, o *outcome, pk, id string) {
	if o.victimSilent != "" {
		x.Failf(pk+"/invalid-share-not-complained-about", "%s: %s", id, o.victimSilent)
		return
	}
	var honest []*pnode
	for i, nd := range o.nodes {
		if p.fault.party >= 0 && p.fault.party < 1000 && i == p.fault.party%len(o.nodes) {
			continue
		}
		if p.fault2.kind != "" && p.fault2.party >= 0 && i == p.fault2.party%len(o.nodes) {
			continue
		}
		honest = append(honest, nd)
	}
	var done []*pnode
	for _, nd := range honest {
		if nd.res != nil {
			done = append(done, nd)
		}
	}
	c.Class(fmt.Sprintf("pedersen/completed=%d/%d", len(done), len(honest)), func() any { return id })
	if p.fault.party < 0 && len(done) != len(honest) {
		var errs []string
		for _, nd := range honest {
			if nd.res == nil {
				errs = append(errs, fmt.Sprintf("node %d: %v", nd.idx, nd.err))
			}
		}
		x.Failf(pk+"/honest-run-incomplete", "%s: everybody is honest but not everybody completes: %s", id, strings.Join(errs, "; "))
		return
	}
	if len(done) == 0 {
		return
	}
	ref := done[0].res
	qual := func(r *dkg.Result) string {
		var q []string
		for _, n := range r.QUAL {
			q = append(q, fmt.Sprint(n.Index))
		}
		sort.Strings(q)
		return strings.Join(q, ",")
	}
	var shares []*share.PriShare
	for _, nd := range done {
		c.Eval(1)
		r := nd.res
		if len(r.Key.Commits) != len(ref.Key.Commits) {
			x.Failf(pk+"/commitments-differ", "%s: nodes %d and %d output polynomials of different degree", id, done[0].idx, nd.idx)
			return
		}
		for i := range r.Key.Commits {
			if !r.Key.Commits[i].Equal(ref.Key.Commits[i]) {
				x.Failf(pk+"/commitments-differ", "%s: nodes %d and %d output different commitment polynomials (coefficient %d)", id, done[0].idx, nd.idx, i)
				return
			}
		}
		if qual(r) != qual(ref) {
			x.Failf(pk+"/QUAL-differs", "%s: node %d has QUAL {%s}, node %d has {%s}", id, done[0].idx, qual(ref), nd.idx, qual(r))
			return
		}
		if r.Key.Share.I != nd.idx {
			x.Failf(pk+"/share-index", "%s: node %d outputs a share with index %d", id, nd.idx, r.Key.Share.I)
		}
		pp := share.NewPubPoly(ed, ed.Point().Base(), r.Key.Commits)
		if !pp.Check(r.Key.Share) {
			x.Failf(pk+"/share-off-polynomial", "%s: the share of node %d does not lie on the output polynomial", id, nd.idx)
			return
		}
		shares = append(shares, r.Key.Share)
	}
	t := len(ref.Key.Commits)
	if len(shares) >= t {
		// every t-subset of the honest shares reconstructs a secret matching the public key
		idx := make([]int, len(shares))
		for i := range idx {
			idx[i] = i
		}
		for m := 0; m < 1<<len(shares); m++ {
			var sub []*share.PriShare
			for i := range shares {
				if m>>i&1 == 1 {
					sub = append(sub, shares[i])
				}
			}
			if len(sub) != t {
				continue
			}
			sec, err := share.RecoverSecret(ed, sub, uint32(t), uint32(len(o.nodes)))
			c.Eval(1)
			if err != nil || !ed.Point().Mul(sec, nil).Equal(ref.Key.Commits[0]) {
				x.Failf(pk+"/shares-do-not-match-key", "%s: a %d-subset of the honest shares does not reconstruct the secret of the public key (err=%v)", id, t, err)
				return
			}
		}
	}
	// key = sum of the qualified dealers' contributions / unchanged after resharing
	if p.reshare == "" {
		sum := ed.Point().Null()
		for _, nq := range ref.QUAL {
			c0, ok := o.dealPub0[nq.Index]
			if !ok {
				x.Failf(pk+"/QUAL-has-silent-dealer", "%s: QUAL contains dealer %d who sent no deal bundle", id, nq.Index)
				return
			}
			sum.Add(sum, c0)
		}
		if !sum.Equal(ref.Key.Commits[0]) {
			x.Failf(pk+"/key-not-sum-of-QUAL", "%s: the public key is not the sum of the contributions of QUAL {%s}", id, qual(ref))
		}
	} else if !ref.Key.Commits[0].Equal(o.oldPub) {
		x.Failf(pk+"/resharing-changed-key", "%s: the public key changed during resharing", id)
	}
	// disqualification rules
	inQual := func(i uint32) bool {
		for _, nq := range ref.QUAL {
			if nq.Index == i {
				return true
			}
		}
		return false
	}
	f := p.fault
	if f.party >= 0 && f.party < 1000 && p.fault2.kind == "" {
		fi := o.nodes[f.party%len(o.nodes)].idx
		switch f.kind {
		case "bad-share+no-justification", "bad-share+bad-justification":
			if p.reshare == "" && inQual(fi) && int(f.target%len(o.nodes)) != f.party%len(o.nodes) {
				x.Failf(pk+"/unjustified-dealer-qualified", "%s: the dealer whose invalid deal stayed unjustified is in QUAL {%s}", id, qual(ref))
			}
		case "false-complaint", "response-with-unknown-status-code":
			if p.reshare == "" {
				acc := uint32(f.target % len(o.nodes))
				if acc != fi && !inQual(acc) {
					x.Failf(pk+"/honest-dealer-disqualified", "%s: honest dealer %d, accused by one party only (< t complaints), is not in QUAL {%s}", id, acc, qual(ref))
				}
			}
		}
	}
	if p.reshare == "" {
		for _, nd := range honest {
			if nd.res != nil && !inQual(nd.idx) && o.complaintsAgainst[nd.idx] < p.t {
				x.Failf(pk+"/honest-dealer-disqualified", "%s: honest dealer %d (%d complaints < t) is not in QUAL {%s}", id, nd.idx, o.complaintsAgainst[nd.idx], qual(ref))
			}
		}
	}
}

func pedersenFaults(n int, reshare bool) []fault {
	fs := []fault{{"none", -1, 0}}
	kinds1 := []string{"absent", "absent-responses", "absent-justifications", "share-index-out-of-range", "commitments-short", "commitments-long", "wrong-session-id-deals",
		"duplicate-deal-bundle", "conflicting-deal-bundles", "success-response-in-regular-mode", "wrong-session-id-responses", "response-names-unknown-dealer",
		
		"justification-index-out-of-range", "wrong-session-id-justifications"}
	if reshare {
		kinds1 = append(kinds1, "wrong-constant-term")
	}
	kindsT := []string{"bad-share", "bad-share+no-justification", "bad-share+bad-justification", "share-to-wrong-holder", "false-complaint", "response-with-unknown-status-code"}
	for _, party := range []int{0, n - 1} {
		for _, k := range kinds1 {
			fs = append(fs, fault{k, party, 0})
		}
		for _, k := range kindsT {
			for tg := 0; tg < n; tg++ {
				if tg == party {
					continue
				}
				fs = append(fs, fault{k, party, tg})
			}
		}
	}
	return fs
}
