package c11

import (
	"bytes"
	"fmt"
	"sort"
	"strings"

	"go.dedis.ch/kyber/v4"
	"go.dedis.ch/kyber/v4/group/edwards25519"
	"go.dedis.ch/kyber/v4/share"
	rdkg "go.dedis.ch/kyber/v4/share/dkg/rabin"
	vss "go.dedis.ch/kyber/v4/share/vss/rabin"
	"go.dedis.ch/kyber/v4/sign/schnorr"
	"verif/harness/alpha"
	"verif/harness/vf"
)

type rcfg struct {
	n, t     int
	fault    fault
	permNode int
	permWave int // 0 responses, 1 justifications, 2 secret commits, 3 complaint commits, 4 reconstruct commits
	perm     []int
}

func (r rcfg) base() string { return fmt.Sprintf("rabin n=%d t=%d; %s", r.n, r.t, r.fault) }
func (r rcfg) String() string {
	if r.permNode < 0 {
		return r.base()
	}
	return fmt.Sprintf("%s; node %d gets wave %d in order %v", r.base(), r.permNode, r.permWave, r.perm)
}

type rnode struct {
	idx    int
	long   kyber.Scalar
	pub    kyber.Point
	gen    *rdkg.DistKeyGenerator
	raw    *vss.Dealer // the deviating party deals through a raw VSS dealer it controls
	key    *rdkg.DistKeyShare
	err    error
	qual   []uint32
	faulty bool
	twice  string
}

type rout struct {
	nodes      []*rnode
	secret0    map[int]kyber.Point // constant commitment of each dealer's secret polynomial (what it announces)
	complaints map[int]int
}

func rsuite(label string) rdkg.Suite {
	return edwards25519.NewBlakeSHA256Ed25519WithRand(alpha.Stream("c11-rabin-" + label + keyTag))
}

func runRabin(r rcfg) *rout {
	n, t := r.n, r.t
	o := &rout{secret0: map[int]kyber.Point{}, complaints: map[int]int{}}
	var pubs []kyber.Point
	var nodes []*rnode
	for i := 0; i < n; i++ {
		l, p := longterm(i, "rabin")
		pubs = append(pubs, p)
		nodes = append(nodes, &rnode{idx: i, long: l, pub: p})
	}
	for i, nd := range nodes {
		g, err := rdkg.NewDistKeyGenerator(rsuite(fmt.Sprintf("node-%d-%d-%d", n, t, i)), nd.long, pubs, uint32(t))
		if err != nil {
			panic(err)
		}
		nd.gen = g
		nd.faulty = r.fault.party == i
	}
	o.nodes = nodes
	fk := r.fault.kind
	var F *rnode
	if r.fault.party >= 0 {
		F = nodes[r.fault.party]
		sec := ed.Scalar().Pick(alpha.Stream("c11-rabin-faulty-secret"))
		d, err := vss.NewDealer(rsuite(fmt.Sprintf("raw-%d-%d", n, t)), F.long, sec, pubs, uint32(t))
		if err != nil {
			panic(err)
		}
		F.raw = d
	}
	victim := 0
	if F != nil {
		victim = r.fault.target % n
	}
	deliverPerm := func(node, wave int, k int) []int {
		if node == r.permNode && wave == r.permWave && len(r.perm) == k {
			return r.perm
		}
		id := make([]int, k)
		for i := range id {
			id[i] = i
		}
		return id
	}
	// ---- deals
	type dmsg struct {
		to int
		d  *rdkg.Deal
	}
	var deals []dmsg
	for _, nd := range nodes {
		if nd.faulty {
			if fk == "absent" {
				continue
			}
			if strings.HasPrefix(fk, "bad-share") {
				pd, _ := nd.raw.PlaintextDeal(victim)
				pd.SecShare.V = ed.Scalar().Add(pd.SecShare.V, ed.Scalar().One())
			}
			encs, err := nd.raw.EncryptedDeals()
			if err != nil {
				panic(err)
			}
			for j := range nodes {
				if j != nd.idx {
					deals = append(deals, dmsg{j, &rdkg.Deal{Index: uint32(nd.idx), Deal: encs[j]}})
				}
			}
			continue
		}
		dd, err := nd.gen.Deals()
		if err != nil {
			nd.err = err
			continue
		}
		for j, d := range dd {
			deals = append(deals, dmsg{j, d})
		}
	}
	sort.SliceStable(deals, func(a, b int) bool {
		if deals[a].d.Index != deals[b].d.Index {
			return deals[a].d.Index < deals[b].d.Index
		}
		return deals[a].to < deals[b].to
	})
	var resps []*rdkg.Response
	for _, m := range deals {
		nd := nodes[m.to]
		resp, err := nd.gen.ProcessDeal(m.d)
		if err != nil || resp == nil {
			continue
		}
		if nd.faulty {
			if fk == "absent" {
				continue
			}
			if fk == "false-complaint" && int(m.d.Index) == victim {
				fr := &vss.Response{SessionID: resp.Response.SessionID, Index: uint32(nd.idx), Approved: false}
				fr.Signature, _ = schnorr.Sign(rsuite("forge"), nd.long, fr.Hash(ed))
				resp = &rdkg.Response{Index: m.d.Index, Response: fr}
			}
		}
		if !resp.Response.Approved {
			o.complaints[int(resp.Index)]++
		}
		resps = append(resps, resp)
	}
	// ---- responses to everybody (the dealers answer complaints with justifications)
	var justs []*rdkg.Justification
	for ni, nd := range nodes {
		order := deliverPerm(ni, 0, len(resps))
		for _, k := range order {
			rp := resps[k]
			if int(rp.Response.Index) == nd.idx {
				continue // own response already recorded
			}
			cp := *rp.Response
			msg := &rdkg.Response{Index: rp.Index, Response: &cp}
			if nd.faulty {
				// the deviating dealer answers complaints about its own deal through its raw dealer
				if int(rp.Index) == nd.idx && nd.raw != nil && fk != "absent" {
					j, err := nd.raw.ProcessResponse(&cp) // approvals too: the raw dealer must see its deal certified to publish commitments
					if err == nil && j != nil && fk != "bad-share+no-justification" {
						justs = append(justs, &rdkg.Justification{Index: uint32(nd.idx), Justification: j})
					}
				} else {
					_, _ = nd.gen.ProcessResponse(msg)
				}
				continue
			}
			j, err := nd.gen.ProcessResponse(msg)
			if err == nil && j != nil {
				justs = append(justs, j)
			}
		}
	}
	for ni, nd := range nodes {
		order := deliverPerm(ni, 1, len(justs))
		for _, k := range order {
			j := justs[k]
			if int(j.Index) == nd.idx {
				continue
			}
			jc := *j.Justification
			dc := *jc.Deal
			jc.Deal = &dc
			_ = nd.gen.ProcessJustification(&rdkg.Justification{Index: j.Index, Justification: &jc})
		}
	}
	for _, nd := range nodes {
		nd.gen.SetTimeout()
		if nd.raw != nil {
			nd.raw.UnsafeSetResponseDKG(uint32(nd.idx), true)
			nd.raw.SetTimeout()
		}
	}
	// ---- secret commits
	var scs []*rdkg.SecretCommits
	for _, nd := range nodes {
		if nd.faulty {
			if fk == "absent" || nd.raw == nil {
				continue
			}
			cm := nd.raw.Commits()
			if cm == nil {
				continue
			}
			sc := &rdkg.SecretCommits{Index: uint32(nd.idx), Commitments: cm, SessionID: nd.raw.SessionID()}
			if fk == "bad-secret-commits" {
				cp := append([]kyber.Point{}, cm...)
				cp[len(cp)-1] = ed.Point().Add(cp[len(cp)-1], ed.Point().Base())
				sc.Commitments = cp
			}
			if strings.HasPrefix(fk, "secret-commits-wrong-for-one") {
				// F' = F + q*G where q vanishes at the evaluation points of t-1 honest participants but not at the victim's:
				// only the victim can see that the announced commitments do not match its share
				q := []kyber.Scalar{ed.Scalar().SetInt64(3)} // q = 3 * prod (x - x_a)
				cnt := 0
				for a := 0; a < n && cnt < t-1; a++ {
					if a == nd.idx || a == victim {
						continue
					}
					xa := ed.Scalar().SetInt64(int64(a + 1))
					nq := make([]kyber.Scalar, len(q)+1)
					for i := range nq {
						nq[i] = ed.Scalar().Zero()
					}
					for i, co := range q {
						nq[i+1] = ed.Scalar().Add(nq[i+1], co)
						nq[i] = ed.Scalar().Sub(nq[i], ed.Scalar().Mul(co, xa))
					}
					q = nq
					cnt++
				}
				if cnt == t-1 && len(q) <= len(cm) {
					cp := append([]kyber.Point{}, cm...)
					for i, co := range q {
						cp[i] = ed.Point().Add(cp[i], ed.Point().Mul(co, nil))
					}
					sc.Commitments = cp
				}
			}
			sc.Signature, _ = schnorr.Sign(rsuite("sc"), nd.long, sc.Hash(ed))
			scs = append(scs, sc)
			o.secret0[nd.idx] = sc.Commitments[0]
			continue
		}
		sc, err := nd.gen.SecretCommits()
		if err != nil {
			continue
		}
		scs = append(scs, sc)
		o.secret0[nd.idx] = sc.Commitments[0]
	}
	var ccs []*rdkg.ComplaintCommits
	for ni, nd := range nodes {
		order := deliverPerm(ni, 2, len(scs))
		for _, k := range order {
			sc := scs[k]
			if int(sc.Index) == nd.idx {
				continue
			}
			cc, err := nd.gen.ProcessSecretCommits(sc)
			if err == nil && cc != nil && !nd.faulty {
				ccs = append(ccs, cc)
			}
		}
	}
	var rcs []*rdkg.ReconstructCommits
	for ni, nd := range nodes {
		order := deliverPerm(ni, 3, len(ccs))
		for _, k := range order {
			cc := ccs[k]
			rc, err := nd.gen.ProcessComplaintCommits(cc)
			if err == nil && rc != nil && !nd.faulty {
				rcs = append(rcs, rc)
			}
		}
	}
	if F != nil && strings.HasSuffix(fk, "-share") && len(ccs) > 0 {
		// the deviating dealer takes part in the reconstruction of its own polynomial, with its true share or a bogus one
		if pd, err := F.raw.PlaintextDeal(F.idx); err == nil {
			sh := &share.PriShare{I: pd.SecShare.I, V: pd.SecShare.V.Clone()}
			if strings.HasSuffix(fk, "+reveals-bogus-share") {
				sh.V = ed.Scalar().Add(sh.V, ed.Scalar().One())
			}
			rc := &rdkg.ReconstructCommits{SessionID: F.raw.SessionID(), Index: uint32(F.idx), DealerIndex: uint32(F.idx), Share: sh}
			rc.Signature, _ = schnorr.Sign(rsuite("rc"), F.long, rc.Hash(rsuite("rc-hash")))
			rcs = append(rcs, rc)
		}
	}
	for ni, nd := range nodes {
		order := deliverPerm(ni, 4, len(rcs))
		for _, k := range order {
			rc := rcs[k]
			if int(rc.Index) == nd.idx {
				continue
			}
			_ = nd.gen.ProcessReconstructCommits(rc)
		}
	}
	for _, nd := range nodes {
		if nd.faulty {
			continue
		}
		nd.qual = nd.gen.QUAL()
		sort.Slice(nd.qual, func(a, b int) bool { return nd.qual[a] < nd.qual[b] })
		if !nd.gen.Certified() || !nd.gen.Finished() {
			nd.err = fmt.Errorf("certified=%v finished=%v", nd.gen.Certified(), nd.gen.Finished())
			continue
		}
		nd.key, nd.err = nd.gen.DistKeyShare()
		// the output is a value: asking for it a second time gives the same share and leaves the first answer as it was
		if nd.err == nil && nd.key != nil {
			b1, _ := nd.key.Share.V.MarshalBinary()
			k2, err2 := nd.gen.DistKeyShare()
			b1again, _ := nd.key.Share.V.MarshalBinary()
			switch {
			case err2 != nil || k2 == nil:
				nd.twice = fmt.Sprintf("the second DistKeyShare() fails: %v", err2)
			case !bytes.Equal(b1, b1again):
				nd.twice = "the share returned by the first DistKeyShare() changed when the output was asked for again"
			default:
				if b2, _ := k2.Share.V.MarshalBinary(); !bytes.Equal(b1, b2) || k2.Share.I != nd.key.Share.I || len(k2.Commits) != len(nd.key.Commits) {
					nd.twice = "the second DistKeyShare() returns another share"
				}
			}
		}
	}
	return o
}

func judgeRabin(x *vf.Ctx, c *vf.Check, r rcfg, o *rout, pk string) {
	id := r.String()
	for _, nd := range o.nodes {
		if nd.twice != "" {
			x.Failf(pk+"/output-not-repeatable", "%s: node %d: %s", id, nd.idx, nd.twice)
			return
		}
	}
	var honest, done []*rnode
	for _, nd := range o.nodes {
		if !nd.faulty {
			honest = append(honest, nd)
			if nd.key != nil {
				done = append(done, nd)
			}
		}
	}
	c.Class(fmt.Sprintf("rabin/completed=%d/%d", len(done), len(honest)), func() any { return id })
	if r.fault.party < 0 && len(done) != len(honest) {
		x.Failf(pk+"/honest-run-incomplete", "%s: everybody is honest but %d of %d nodes complete (first error: %v)", id, len(done), len(honest), firstErr(honest))
		return
	}
	// with one deviating party and t <= n-1 the honest nodes must still agree on whatever they output
	if len(done) == 0 {
		return
	}
	ref := done[0]
	var shares []*share.PriShare
	for _, nd := range done {
		c.Eval(1)
		if fmt.Sprint(nd.qual) != fmt.Sprint(ref.qual) {
			x.Failf(pk+"/QUAL-differs", "%s: node %d has QUAL %v, node %d has %v", id, ref.idx, ref.qual, nd.idx, nd.qual)
			return
		}
		if len(nd.key.Commits) != len(ref.key.Commits) {
			x.Failf(pk+"/commitments-differ", "%s: different polynomial degrees", id)
			return
		}
		for i := range nd.key.Commits {
			if !nd.key.Commits[i].Equal(ref.key.Commits[i]) {
				x.Failf(pk+"/commitments-differ", "%s: nodes %d and %d output different commitment polynomials", id, ref.idx, nd.idx)
				return
			}
		}
		pp := share.NewPubPoly(ed, ed.Point().Base(), nd.key.Commits)
		if int(nd.key.Share.I) != nd.idx || !pp.Check(nd.key.Share) {
			x.Failf(pk+"/share-off-polynomial", "%s: the output share of node %d does not lie on the output polynomial", id, nd.idx)
			return
		}
		shares = append(shares, nd.key.Share)
	}
	t := r.t
	for m := 0; m < 1<<len(shares); m++ {
		var sub []*share.PriShare
		for i := range shares {
			if m>>i&1 == 1 {
				sub = append(sub, shares[i])
			}
		}
		if len(sub) != t {
			continue
		}
		sec, err := share.RecoverSecret(ed, sub, uint32(t), uint32(r.n))
		if err != nil || !ed.Point().Mul(sec, nil).Equal(ref.key.Commits[0]) {
			x.Failf(pk+"/shares-do-not-match-key", "%s: a %d-subset of the honest shares does not reconstruct the secret of the public key", id, t)
			return
		}
	}
	sum := ed.Point().Null()
	okSum := true
	for _, q := range ref.qual {
		c0, ok := o.secret0[int(q)]
		if !ok {
			okSum = false
			break
		}
		sum.Add(sum, c0)
	}
	if okSum && r.fault.kind != "bad-secret-commits" && !strings.HasPrefix(r.fault.kind, "secret-commits-wrong-for-one") && !sum.Equal(ref.key.Commits[0]) {
		x.Failf(pk+"/key-not-sum-of-QUAL", "%s: the public key is not the sum of the contributions of QUAL %v", id, ref.qual)
	}
	inQ := func(i int) bool {
		for _, q := range ref.qual {
			if int(q) == i {
				return true
			}
		}
		return false
	}
	switch r.fault.kind {
	case "bad-share+no-justification":
		if inQ(r.fault.party) {
			x.Failf(pk+"/unjustified-dealer-qualified", "%s: the dealer whose invalid deal stayed unjustified is in QUAL %v", id, ref.qual)
		}
	case "false-complaint":
		if v := r.fault.target % r.n; v != r.fault.party && !inQ(v) {
			x.Failf(pk+"/honest-dealer-disqualified", "%s: honest dealer %d (one complaint < t, justified) is not in QUAL %v", id, v, ref.qual)
		}
	}
	for _, nd := range honest {
		if !inQ(nd.idx) && o.complaints[nd.idx] < r.t {
			x.Failf(pk+"/honest-dealer-disqualified", "%s: honest dealer %d is not in QUAL %v", id, nd.idx, ref.qual)
		}
	}
}

func firstErr(ns []*rnode) error {
	for _, n := range ns {
		if n.err != nil {
			return fmt.Errorf("node %d: %w", n.idx, n.err)
		}
	}
	return nil
}

func rabinJobs(c *vf.Check) []func() {
	var jobs []func()
	ns := []int{3}
	if c.Thorough() {
		ns = []int{3, 4}
	}
	for _, n := range ns {
		for t := n/2 + 1; t <= n; t++ {
			fs := []fault{{"none", -1, 0}}
			for _, party := range []int{0, n - 1} {
				fs = append(fs, fault{"absent", party, 0}, fault{"bad-secret-commits", party, 0})
				for tg := 0; tg < n; tg++ {
					if tg != party {
						fs = append(fs, fault{"bad-share", party, tg}, fault{"bad-share+no-justification", party, tg}, fault{"false-complaint", party, tg})
						if n-1 >= t {
							fs = append(fs, fault{"secret-commits-wrong-for-one", party, tg}, fault{"secret-commits-wrong-for-one+reveals-own-share", party, tg}, fault{"secret-commits-wrong-for-one+reveals-bogus-share", party, tg})
						}
					}
				}
			}
			for _, f := range fs {
				r := rcfg{n: n, t: t, fault: f, permNode: -1}
				jobs = append(jobs, func() { runRabinJob(c, r) })
			}
		}
	}
	return jobs
}

func runRabinJob(c *vf.Check, r rcfg) {
	fkey := "no-fault"
	if r.fault.party >= 0 {
		fkey = r.fault.kind
	}
	pk := "C11/rabin/" + fkey
	var base *rout
	c.Case(r.String(), pk, func(x *vf.Ctx) {
		base = runRabin(r)
		c.Eval(1)
		judgeRabin(x, c, r, base, pk)
	})
	c.Count("transitions", 1)
	c.Count("states", 1)
	if r.fault.party >= 0 {
		c.Nontrivial(r.String())
	}
	if base == nil {
		return
	}
	canon := func(nd *rnode) string {
		if nd.key == nil {
			return "none"
		}
		e, _ := nd.key.Commits[0].MarshalBinary()
		s, _ := nd.key.Share.V.MarshalBinary()
		return fmt.Sprintf("QUAL=%v pub=%x share=%x", nd.qual, e[:8], s[:8])
	}
	// delivery orders: all permutations of one broadcast wave at one honest node (waves of up to 4 messages; longer waves: rotations and reversal)
	for node := 0; node < r.n; node++ {
		if node == r.fault.party {
			continue
		}
		for wave := 0; wave < 5; wave++ {
			for k := 2; k <= 6; k++ {
				var ps [][]int
				if k <= 3 {
					ps = permsOf(k)
				} else {
					rev := make([]int, k)
					rot := make([]int, k)
					for i := range rev {
						rev[i] = k - 1 - i
						rot[i] = (i + 1) % k
					}
					ps = [][]int{rev, rot}
				}
				for _, perm := range ps {
					ident := true
					for i, v := range perm {
						if v != i {
							ident = false
						}
					}
					if ident {
						continue
					}
					q := r
					q.permNode, q.permWave, q.perm = node, wave, perm
					c.Case(q.String(), pk, func(x *vf.Ctx) {
						o := runRabin(q)
						c.Eval(1)
						if canon(o.nodes[node]) != canon(base.nodes[node]) {
							x.Failf(pk+"/order-dependent-result", "%s: the node's output depends on the delivery order: %s vs %s", q, canon(base.nodes[node]), canon(o.nodes[node]))
							return
						}
						judgeRabin(x, c, q, o, pk)
					})
					c.Count("transitions", 1)
					c.Nontrivial(q.String())
				}
			}
		}
	}
}
