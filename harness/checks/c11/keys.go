package c11

import (
	"fmt"

	"go.dedis.ch/kyber/v4"
	"go.dedis.ch/kyber/v4/share"
)

// KeyShare is one participant's output of an honest DKG run.
type KeyShare struct {
	Share   *share.PriShare
	Commits []kyber.Point
}

func (k *KeyShare) PriShare() *share.PriShare  { return k.Share }
func (k *KeyShare) Commitments() []kyber.Point { return k.Commits }

// KeysFromDKG runs an all-honest DKG ("pedersen", "pedersen-fast" or "rabin")
// with randomness selected by tag and returns every participant's share.
func KeysFromDKG(kind string, n, t int, tag string) ([]*KeyShare, error) {
	keyTag = "/" + tag
	defer func() { keyTag = "" }()
	var out []*KeyShare
	switch kind {
	case "pedersen", "pedersen-fast":
		o := runPedersen(pcfg{n: n, t: t, fast: kind == "pedersen-fast", fault: fault{"none", -1, 0}, permNode: -1}, nil)
		for _, nd := range o.nodes {
			if nd.res == nil {
				return nil, fmt.Errorf("pedersen dkg node %d: %v", nd.idx, nd.err)
			}
			out = append(out, &KeyShare{Share: nd.res.Key.Share, Commits: nd.res.Key.Commits})
		}
	case "rabin":
		o := runRabin(rcfg{n: n, t: t, fault: fault{"none", -1, 0}, permNode: -1})
		for _, nd := range o.nodes {
			if nd.key == nil {
				return nil, fmt.Errorf("rabin dkg node %d: %v", nd.idx, nd.err)
			}
			out = append(out, &KeyShare{Share: nd.key.Share, Commits: nd.key.Commits})
		}
	default:
		return nil, fmt.Errorf("unknown dkg %q", kind)
	}
	return out, nil
}
