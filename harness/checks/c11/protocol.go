package c11

// L2: the goroutine-driven Protocol type itself. Every participant is a real
// dkg.Protocol (NewProtocol spawns its goroutine); the harness owns the two
// seams it talks through - Board (unbuffered channels, one pending send at a
// time) and Phaser - and therefore decides the complete schedule: which node
// gets which packet or phase tick next. Executions are enumerated by a
// stateless depth-first search with sleep sets (events at different nodes
// commute), bounded by the number of deviations from the canonical
// synchronous-rounds schedule; each execution runs to completion on fresh
// objects and the end-state oracle of L1 is applied.

import (
	"bytes"
	"fmt"
	"sort"
	"strings"
	"sync"
	"time"

	"go.dedis.ch/kyber/v4"
	"go.dedis.ch/kyber/v4/encrypt/ecies"
	dkg "go.dedis.ch/kyber/v4/share/dkg/pedersen"
	"go.dedis.ch/kyber/v4/sign/schnorr"
	"verif/harness/alpha"
	"verif/harness/groups"
	"verif/harness/vf"

	"crypto/sha256"
)

type lboard struct {
	mu    sync.Mutex
	deals chan dkg.DealBundle
	resps chan dkg.ResponseBundle
	justs chan dkg.JustificationBundle
	outD  []*dkg.DealBundle
	outR  []*dkg.ResponseBundle
	outJ  []*dkg.JustificationBundle
}

func (b *lboard) PushDeals(d *dkg.DealBundle) {
	b.mu.Lock()
	b.outD = append(b.outD, d)
	b.mu.Unlock()
}
func (b *lboard) PushResponses(r *dkg.ResponseBundle) {
	b.mu.Lock()
	b.outR = append(b.outR, r)
	b.mu.Unlock()
}
func (b *lboard) PushJustifications(j *dkg.JustificationBundle) {
	b.mu.Lock()
	b.outJ = append(b.outJ, j)
	b.mu.Unlock()
}
func (b *lboard) IncomingDeal() <-chan dkg.DealBundle                   { return b.deals }
func (b *lboard) IncomingResponse() <-chan dkg.ResponseBundle           { return b.resps }
func (b *lboard) IncomingJustification() <-chan dkg.JustificationBundle { return b.justs }

type lphaser struct{ ch chan dkg.Phase }

func (p *lphaser) NextPhase() chan dkg.Phase { return p.ch }

type lnode struct {
	pn       *pnode
	proto    *dkg.Protocol
	board    *lboard
	ph       *lphaser
	finished bool
	noResult bool // goroutine left without producing a result
	nextTick int  // 0 deal, 1 response, 2 justification, 3 finish, 4 none left
	token    bool
	got      map[string]int
}

// packet on the harness' bulletin board, under a schedule-independent name.
type lpacket struct {
	name string // D<i>, R<i>, J<i>, with ' for the second (conflicting) bundle of the deviating party
	d    *dkg.DealBundle
	r    *dkg.ResponseBundle
	j    *dkg.JustificationBundle
}

type lcfg struct {
	n, t    int
	reshare string // "": fresh; "grow": the 3 members of an earlier run plus one newcomer (n = 4)
	fast    bool
	fault fault
	dups  int // duplicate deliveries allowed in one execution
	bound int // deviations from the canonical schedule (-1: unbounded)
}

func (l lcfg) String() string {
	m := "regular"
	if l.fast {
		m = "fast-sync"
	}
	b := "all schedules"
	if l.bound >= 0 {
		b = fmt.Sprintf("<=%d deviations", l.bound)
	}
	r := ""
	if l.reshare != "" {
		r = " reshare=" + l.reshare
	}
	return fmt.Sprintf("protocol n=%d t=%d %s%s; %s; %s, %d duplicate deliveries", l.n, l.t, m, r, l.fault, b, l.dups)
}

type lev struct {
	node int
	kind byte // 't' tick, 'd' deliver, 'u' duplicate delivery
	pkt  string
}

func (e lev) String() string {
	switch e.kind {
	case 't':
		return fmt.Sprintf("tick@%d", e.node)
	case 'd':
		return fmt.Sprintf("%s->%d", e.pkt, e.node)
	}
	return fmt.Sprintf("%s->%d(again)", e.pkt, e.node)
}

func lindep(a, b lev) bool { return a.node != b.node && !(a.kind == 'u' && b.kind == 'u') }

type lworld struct {
	cfg     lcfg
	nodes   []*lnode
	board   []*lpacket
	byName  map[string]*lpacket
	dupLeft int
	forgedR bool
	hang    string
	oldPub  kyber.Point
}

var oldGroupCache *outcome

// oldGroup is the honest fresh run (n=3, t=2) whose shares are reshared.
func oldGroup() *outcome {
	if oldGroupCache == nil {
		oldGroupCache = runPedersen(pcfg{n: 3, t: 2, fault: fault{"none", -1, 0}, permNode: -1}, nil)
		for _, nd := range oldGroupCache.nodes {
			if nd.res == nil {
				panic(fmt.Sprintf("harness: the honest fresh run for the old group does not complete: %v", nd.err))
			}
		}
	}
	return oldGroupCache
}

func (w *lworld) faulty(i int) bool { return w.cfg.fault.party >= 0 && i == w.cfg.fault.party%w.cfg.n }

func newWorld(cfg lcfg) *lworld {
	w := &lworld{cfg: cfg, byName: map[string]*lpacket{}, dupLeft: cfg.dups}
	var newNodes []dkg.Node
	type km struct {
		l kyber.Scalar
		p kyber.Point
	}
	var keys []km
	for i := 0; i < cfg.n; i++ {
		l, p := longterm(i, "fresh")
		if cfg.reshare != "" && i >= 3 {
			l, p = longterm(i, "proto-newcomer")
		}
		keys = append(keys, km{l, p})
		newNodes = append(newNodes, dkg.Node{Index: uint32(i), Public: p})
	}
	var old *outcome
	var oldNodes []dkg.Node
	if cfg.reshare != "" {
		old = oldGroup()
		w.oldPub = old.nodes[0].res.Key.Commits[0]
		for _, on := range old.nodes {
			oldNodes = append(oldNodes, dkg.Node{Index: on.idx, Public: on.pub})
		}
	}
	for i := 0; i < cfg.n; i++ {
		s := mkSuite(fmt.Sprintf("proto-%d", i))
		c := &dkg.Config{Suite: s, Longterm: keys[i].l, NewNodes: append([]dkg.Node{}, newNodes...), Threshold: uint32(cfg.t), Nonce: nonce,
			Auth: schnorr.NewScheme(s), FastSync: cfg.fast, Reader: &zeroReader{label: fmt.Sprintf("proto-%d", i)}, UserReaderOnly: true}
		if old != nil {
			c.OldNodes = append([]dkg.Node{}, oldNodes...)
			c.OldThreshold = uint32(len(old.nodes[0].res.Key.Commits))
			if i < len(old.nodes) {
				k := *old.nodes[i].res.Key
				c.Share = &k
			} else {
				c.PublicCoeffs = old.nodes[0].res.Key.Commits
			}
		}
		b := &lboard{deals: make(chan dkg.DealBundle), resps: make(chan dkg.ResponseBundle), justs: make(chan dkg.JustificationBundle)}
		ph := &lphaser{ch: make(chan dkg.Phase)}
		nd := &lnode{pn: &pnode{idx: uint32(i), long: keys[i].l, pub: keys[i].p, cfg: c}, board: b, ph: ph, got: map[string]int{}}
		if w.faulty(i) && cfg.fault.kind == "absent" {
			nd.finished = true // never started
		} else {
			pr, err := dkg.NewProtocol(c, b, ph, false)
			if err != nil {
				nd.pn.err, nd.finished = err, true
			}
			nd.proto = pr
		}
		w.nodes = append(w.nodes, nd)
	}
	return w
}

func (nd *lnode) finish(r dkg.OptionResult) {
	nd.finished = true
	nd.pn.res, nd.pn.err, nd.pn.done = r.Result, r.Error, true
}

// close lets the goroutines of unfinished nodes terminate.
func (w *lworld) close() {
	for _, nd := range w.nodes {
		if nd.finished || nd.proto == nil {
			continue
		}
		select {
		case nd.ph.ch <- dkg.FinishPhase:
		case <-nd.proto.WaitEnd():
		case <-time.After(30 * time.Second):
		}
		nd.finished = true
	}
}

func cpDeal(b *dkg.DealBundle) dkg.DealBundle {
	c := *b
	c.Deals = append([]dkg.Deal{}, b.Deals...)
	c.Public = append([]kyber.Point{}, b.Public...)
	return c
}
func cpResp(b *dkg.ResponseBundle) dkg.ResponseBundle {
	c := *b
	c.Responses = append([]dkg.Response{}, b.Responses...)
	return c
}
func cpJust(b *dkg.JustificationBundle) dkg.JustificationBundle {
	c := *b
	c.Justifications = append([]dkg.Justification{}, b.Justifications...)
	return c
}

func (w *lworld) sign(nd *lnode, pk dkg.Packet) []byte {
	h, _ := pk.Hash()
	sig, _ := nd.pn.cfg.Auth.Sign(nd.pn.long, h)
	return sig
}

func (w *lworld) post(p *lpacket) {
	if _, dup := w.byName[p.name]; dup {
		return
	}
	w.byName[p.name] = p
	w.board = append(w.board, p)
}

// collect moves what node i pushed onto the bulletin board, applying the
// deviating party's behaviour.
func (w *lworld) collect(i int) {
	nd := w.nodes[i]
	nd.board.mu.Lock()
	outD, outR, outJ := nd.board.outD, nd.board.outR, nd.board.outJ
	nd.board.outD, nd.board.outR, nd.board.outJ = nil, nil, nil
	nd.board.mu.Unlock()
	f := w.cfg.fault
	n := len(w.nodes)
	if !w.faulty(i) {
		for _, b := range outD {
			w.post(&lpacket{name: fmt.Sprintf("D%d", i), d: b})
		}
		for _, b := range outR {
			w.post(&lpacket{name: fmt.Sprintf("R%d", i), r: b})
		}
		for _, b := range outJ {
			w.post(&lpacket{name: fmt.Sprintf("J%d", i), j: b})
		}
		return
	}
	victim := uint32(f.target % n)
	for _, b0 := range outD {
		b := cpDeal(b0)
		switch f.kind {
		case "bad-share", "bad-share+no-justification":
			for k := range b.Deals {
				if b.Deals[k].ShareIndex == victim {
					junk, _ := alpha.ToScalar(ed.Scalar(), alpha.Rand("c11-junk-share", groups.OrderEd25519), groups.OrderEd25519).MarshalBinary()
					b.Deals[k].EncryptedShare, _ = ecies.Encrypt(ed, w.nodes[victim].pn.pub, junk, sha256.New)
				}
			}
			b.Signature = w.sign(nd, &b)
		}
		w.post(&lpacket{name: fmt.Sprintf("D%d", i), d: &b})
		if f.kind == "conflicting-deal-bundles" {
			c := cpDeal(b0)
			c.Public[len(c.Public)-1] = ed.Point().Add(c.Public[len(c.Public)-1], ed.Point().Base())
			c.Signature = w.sign(nd, &c)
			w.post(&lpacket{name: fmt.Sprintf("D%d'", i), d: &c})
		}
	}
	forge := f.kind == "false-complaint" || f.kind == "conflicting-response-bundles"
	if !forge {
		for _, b := range outR {
			w.post(&lpacket{name: fmt.Sprintf("R%d", i), r: b})
		}
	} else if !w.forgedR && (len(outR) > 0 || nd.nextTick >= 2) {
		w.forgedR = true
		mk := func(accused uint32) *dkg.ResponseBundle {
			rb := &dkg.ResponseBundle{ShareIndex: uint32(i), SessionID: nonce}
			for d := 0; d < n; d++ {
				st := dkg.Success
				if uint32(d) == accused {
					st = dkg.Complaint
				}
				if w.cfg.fast || st == dkg.Complaint {
					rb.Responses = append(rb.Responses, dkg.Response{DealerIndex: uint32(d), Status: st})
				}
			}
			rb.Signature = w.sign(nd, rb)
			return rb
		}
		w.post(&lpacket{name: fmt.Sprintf("R%d", i), r: mk(victim)})
		if f.kind == "conflicting-response-bundles" {
			other := (victim + 1) % uint32(n)
			if int(other) == i {
				other = (other + 1) % uint32(n)
			}
			w.post(&lpacket{name: fmt.Sprintf("R%d'", i), r: mk(other)})
		}
	}
	if f.kind != "bad-share+no-justification" {
		for _, b := range outJ {
			w.post(&lpacket{name: fmt.Sprintf("J%d", i), j: b})
		}
	}
}

// enabled returns the events that may happen next, in canonical order: the
// canonical schedule (always the first one) is synchronous rounds - every
// node ticks, then every node receives the packets in name order.
func (w *lworld) enabled() []lev {
	for round := 0; round < 2; round++ {
		var ticks, dels, dups []lev
		for i, nd := range w.nodes {
			if nd.finished {
				continue
			}
			if nd.token {
				ticks = append(ticks, lev{i, 't', ""})
			}
			var names []string
			for _, p := range w.board {
				names = append(names, p.name)
			}
			sort.Strings(names)
			first := true
			for _, nm := range names {
				switch nd.got[nm] {
				case 0:
					if w.faulty(i) && !first {
						continue // the deviating party's own reception order is not explored
					}
					first = false
					dels = append(dels, lev{i, 'd', nm})
				case 1:
					if w.dupLeft > 0 && !w.faulty(i) {
						dups = append(dups, lev{i, 'u', nm})
					}
				}
			}
		}
		if len(ticks)+len(dels) > 0 || round == 1 {
			return append(append(ticks, dels...), dups...)
		}
		// quiescent: the phase timers of all unfinished nodes fire
		granted := false
		for _, nd := range w.nodes {
			if !nd.finished && nd.nextTick < 4 {
				nd.token = true
				granted = true
			}
		}
		if !granted {
			return nil
		}
	}
	return nil
}

var phases = []dkg.Phase{dkg.DealPhase, dkg.ResponsePhase, dkg.JustifPhase, dkg.FinishPhase}

func (w *lworld) apply(e lev) {
	nd := w.nodes[e.node]
	if nd.finished {
		panic("harness: event for a finished node: " + e.String())
	}
	if (e.kind == 't' && !nd.token) || (e.kind == 'd' && nd.got[e.pkt] != 0) || (e.kind == 'u' && (nd.got[e.pkt] != 1 || w.dupLeft <= 0)) {
		panic("harness: event is not enabled: " + e.String())
	}
	wait := func() <-chan time.Time { return time.After(120 * time.Second) }
	delivered := false
	switch e.kind {
	case 't':
		ph := phases[nd.nextTick]
		nd.nextTick++
		nd.token = false
		select {
		case nd.ph.ch <- ph:
			delivered = true
		case r := <-nd.proto.WaitEnd():
			nd.finish(r)
		case <-wait():
			w.hang = "node does not take " + e.String()
			nd.finished = true
		}
		if delivered && ph == dkg.FinishPhase {
			// the goroutine terminates after this tick, with or without a result
			select {
			case r := <-nd.proto.WaitEnd():
				nd.finish(r)
			case <-time.After(20 * time.Second):
				nd.finished, nd.noResult = true, true
			}
			w.collect(e.node)
			return
		}
	case 'd', 'u':
		p := w.byName[e.pkt]
		if p == nil {
			panic("harness: unknown packet " + e.pkt)
		}
		nd.got[e.pkt]++
		if e.kind == 'u' {
			w.dupLeft--
		}
		switch {
		case p.d != nil:
			select {
			case nd.board.deals <- cpDeal(p.d):
				delivered = true
			case r := <-nd.proto.WaitEnd():
				nd.finish(r)
			case <-wait():
				w.hang = "node does not take " + e.String()
				nd.finished = true
			}
		case p.r != nil:
			select {
			case nd.board.resps <- cpResp(p.r):
				delivered = true
			case r := <-nd.proto.WaitEnd():
				nd.finish(r)
			case <-wait():
				w.hang = "node does not take " + e.String()
				nd.finished = true
			}
		default:
			select {
			case nd.board.justs <- cpJust(p.j):
				delivered = true
			case r := <-nd.proto.WaitEnd():
				nd.finish(r)
			case <-wait():
				w.hang = "node does not take " + e.String()
				nd.finished = true
			}
		}
	}
	if delivered {
		// barrier: an InitPhase tick is a no-op for the Protocol; once it is taken
		// the previous event has been processed completely (pushes included)
		select {
		case nd.ph.ch <- dkg.InitPhase:
		case r := <-nd.proto.WaitEnd():
			nd.finish(r)
		case <-wait():
			w.hang = "node stuck while processing " + e.String()
			nd.finished = true
		}
	}
	w.collect(e.node)
}

type lexplorer struct {
	c        *vf.Check
	cfg      lcfg
	shard    int
	shards   int
	execs    int
	pruned   int
	events   int
	outcomes map[string]int
	samples  map[string]string
	maxDepth int
}

func (ex *lexplorer) replay(trace []lev) *lworld {
	w := newWorld(ex.cfg)
	for _, e := range trace {
		w.enabled() // grants the phase tokens exactly as in the original run
		w.apply(e)
		ex.events++
	}
	return w
}

func traceString(tr []lev) string {
	var s []string
	for _, e := range tr {
		s = append(s, e.String())
	}
	return strings.Join(s, " ")
}

func (ex *lexplorer) dfs(w *lworld, trace []lev, path []int, sleep []lev, devs int) {
	en := w.enabled()
	if len(en) == 0 || w.hang != "" {
		ex.leaf(w, trace)
		w.close()
		return
	}
	var cand []lev
	for _, e := range en {
		asleep := false
		for _, s := range sleep {
			if s == e {
				asleep = true
			}
		}
		if !asleep {
			cand = append(cand, e)
		}
	}
	if len(cand) == 0 {
		ex.pruned++
		w.close()
		return
	}
	var done []lev
	used := false
	for k, e := range cand {
		cost := devs
		if k > 0 {
			cost++
		}
		if ex.cfg.bound >= 0 && cost > ex.cfg.bound {
			break
		}
		np := append(append([]int{}, path...), k)
		if len(np) == 2 && ex.shards > 1 && (np[0]*31+np[1])%ex.shards != ex.shard {
			done = append(done, e)
			continue
		}
		var cw *lworld
		if !used {
			cw, used = w, true
		} else {
			cw = ex.replay(trace)
			if en2 := cw.enabled(); fmt.Sprint(en2) != fmt.Sprint(en) {
				panic(fmt.Sprintf("harness: replay diverged after %s: enabled %v, originally %v", traceString(trace), en2, en))
			}
		}
		var cs []lev
		for _, s := range sleep {
			if lindep(s, e) {
				cs = append(cs, s)
			}
		}
		for _, s := range done {
			if lindep(s, e) {
				cs = append(cs, s)
			}
		}
		cw.apply(e)
		ex.events++
		ex.dfs(cw, append(append([]lev{}, trace...), e), np, cs, cost)
		done = append(done, e)
	}
	if !used {
		w.close()
	}
}

func (ex *lexplorer) leaf(w *lworld, trace []lev) {
	ex.execs++
	if len(trace) > ex.maxDepth {
		ex.maxDepth = len(trace)
	}
	c := ex.c
	mode := "regular"
	if ex.cfg.fast {
		mode = "fast-sync"
	}
	fk := "no-fault"
	if ex.cfg.fault.party >= 0 {
		fk = ex.cfg.fault.kind
	}
	if ex.cfg.reshare != "" {
		mode += "-reshare-" + ex.cfg.reshare
	}
	pk := fmt.Sprintf("C11/protocol/%s/%s", mode, fk)
	id := ex.cfg.String() + "; schedule: " + traceString(trace)
	o := &outcome{dealPub0: map[uint32]kyber.Point{}, complaintsAgainst: map[uint32]int{}}
	for _, nd := range w.nodes {
		o.nodes = append(o.nodes, nd.pn)
	}
	complainers := map[uint32]map[uint32]bool{}
	for _, p := range w.board {
		if p.d != nil && len(p.d.Public) > 0 {
			if _, dup := o.dealPub0[p.d.DealerIndex]; !dup {
				o.dealPub0[p.d.DealerIndex] = p.d.Public[0]
			}
		}
		if p.r != nil {
			for _, r := range p.r.Responses {
				if r.Status == dkg.Complaint {
					if complainers[r.DealerIndex] == nil {
						complainers[r.DealerIndex] = map[uint32]bool{}
					}
					complainers[r.DealerIndex][p.r.ShareIndex] = true
				}
			}
		}
	}
	for d, m := range complainers {
		o.complaintsAgainst[d] = len(m)
	}
	var sig []string
	for i, nd := range w.nodes {
		if w.faulty(i) {
			sig = append(sig, "faulty")
			continue
		}
		s := canonRes(nd.pn.res, nd.pn.err)
		if k := strings.Index(s, " commits="); k > 0 {
			s = s[:k]
		}
		if nd.noResult {
			s = "no-result"
		}
		sig = append(sig, s)
	}
	ex.outcomes[strings.Join(sig, " | ")]++
	if ex.samples != nil && ex.samples[strings.Join(sig, " | ")] == "" {
		ex.samples[strings.Join(sig, " | ")] = traceString(trace)
	}
	p := pcfg{n: ex.cfg.n, t: ex.cfg.t, fast: ex.cfg.fast, reshare: ex.cfg.reshare, fault: ex.cfg.fault, permNode: -1}
	o.oldPub = w.oldPub
	c.CaseOnce(id, pk, func(x *vf.Ctx) {
		c.Eval(1)
		if w.hang != "" {
			x.Failf(pk+"/hang", "%s: %s", id, w.hang)
			return
		}
		for i, nd := range w.nodes {
			if !w.faulty(i) && nd.noResult {
				x.Failf(pk+"/no-result", "%s: the Protocol goroutine of node %d ended without delivering a result or an error on WaitEnd", id, i)
				return
			}
		}
		judgeAs(x, c, p, o, pk, id)
	})
	nontrivial := ex.cfg.fault.party >= 0
	if !nontrivial {
		// any schedule other than the canonical one
		nontrivial = len(trace) > 0 && ex.execs > 1
	}
	if nontrivial {
		c.Nontrivial(id)
	}
}

func protocolConfigs(c *vf.Check) []lcfg {
	var out []lcfg
	n := 3
	none := fault{"none", -1, 0}
	faults := []fault{none, {"absent", 0, 0}, {"bad-share", 0, 1}, {"bad-share+no-justification", 0, 1}, {"conflicting-deal-bundles", 0, 0},
		{"false-complaint", 0, 1}, {"conflicting-response-bundles", 0, 1}}
	if c.Thorough() {
		faults = append(faults, fault{"absent", 2, 0}, fault{"bad-share", 2, 0}, fault{"bad-share+no-justification", 2, 1}, fault{"conflicting-deal-bundles", 2, 0},
			fault{"false-complaint", 2, 0}, fault{"conflicting-response-bundles", 2, 0})
	}
	for _, fast := range []bool{false, true} {
		for _, f := range faults {
			bound := 2
			if c.Thorough() {
				bound = 3
			}
			if !fast && f.party < 0 {
				bound = -1 // complete
			}
			out = append(out, lcfg{n: n, t: 2, fast: fast, fault: f, bound: bound})
			if f.party < 0 {
				b3 := bound
				if b3 < 0 {
					b3 = 2 // same schedule space as t=2
				}
				out = append(out, lcfg{n: n, t: 3, fast: fast, fault: f, bound: b3})
				out = append(out, lcfg{n: n, t: 2, fast: fast, fault: f, bound: 1, dups: 1})
			}
		}
	}
	// resharing to a larger group (3 members + 1 newcomer), everybody honest
	for _, fast := range []bool{false, true} {
		b := 2
		if c.Thorough() {
			b = 3
		}
		if fast {
			b-- // four receivers of seven packets each: the fast-sync space is an order of magnitude larger
		}
		out = append(out, lcfg{n: 4, t: 3, reshare: "grow", fast: fast, fault: none, bound: b})
	}
	return out
}

func runProtocol(c *vf.Check) {
	cfgs := protocolConfigs(c)
	const shards = 8
	type job struct {
		cfg   lcfg
		shard int
	}
	var jobs []job
	for _, g := range cfgs {
		for s := 0; s < shards; s++ {
			jobs = append(jobs, job{g, s})
		}
	}
	vf.Parallel(len(jobs), func(i int) {
		j := jobs[i]
		if c.Only != "" {
			// replay of one recorded schedule: run exactly that execution
			pre := j.cfg.String() + "; schedule: "
			if !strings.HasPrefix(c.Only, pre) || j.shard != 0 {
				return
			}
			ex := &lexplorer{c: c, cfg: j.cfg, outcomes: map[string]int{}}
			tr, err := parseTrace(strings.TrimPrefix(c.Only, pre))
			if err != nil {
				c.Broken("cannot parse schedule %q: %v", c.Only, err)
				return
			}
			w := newWorld(j.cfg)
			for k, e := range tr {
				ok := false
				for _, x := range w.enabled() {
					if x == e {
						ok = true
					}
				}
				if !ok {
					// the code under test behaves differently from when the schedule was recorded
					fmt.Printf("replay: event %d (%s) of the recorded schedule is not enabled on this tree; the recorded execution does not exist here\n", k, e)
					c.Note("recorded schedule not feasible on this tree")
					c.CaseOnce(c.Only, "C11/protocol", func(x *vf.Ctx) {})
					w.close()
					return
				}
				w.apply(e)
			}
			ex.leaf(w, tr)
			w.close()
			return
		}
		ex := &lexplorer{c: c, cfg: j.cfg, shard: j.shard, shards: shards, outcomes: map[string]int{}}
		ex.dfs(newWorld(j.cfg), nil, nil, nil, 0)
		c.Count("protocol/executions", int64(ex.execs))
		c.Count("protocol/sleep-set-pruned", int64(ex.pruned))
		c.Count("protocol/events", int64(ex.events))
		c.Count("transitions", int64(ex.events))
		c.Count("states", int64(ex.execs))
		c.Count("traces_validated_against_impl", int64(ex.execs))
		for k, v := range ex.outcomes {
			kk := k
			c.Class(fmt.Sprintf("protocol/%s/%s", map[bool]string{false: "regular", true: "fast"}[j.cfg.fast], kk), func() any { return j.cfg.String() })
			_ = v
		}
	})
}

func parseTrace(s string) ([]lev, error) {
	var out []lev
	for _, f := range strings.Fields(s) {
		var e lev
		switch {
		case strings.HasPrefix(f, "tick@"):
			e.kind = 't'
			if _, err := fmt.Sscanf(f, "tick@%d", &e.node); err != nil {
				return nil, err
			}
		default:
			e.kind = 'd'
			if strings.HasSuffix(f, "(again)") {
				e.kind = 'u'
				f = strings.TrimSuffix(f, "(again)")
			}
			k := strings.Index(f, "->")
			if k < 0 {
				return nil, fmt.Errorf("bad event %q", f)
			}
			e.pkt = f[:k]
			if _, err := fmt.Sscanf(f[k+2:], "%d", &e.node); err != nil {
				return nil, err
			}
		}
		out = append(out, e)
	}
	return out, nil
}

var _ = bytes.Equal
