package c11

import (
	"fmt"

	"verif/harness/vf"
)

func permsOf(k int) [][]int {
	var out [][]int
	var rec func(cur []int, used []bool)
	rec = func(cur []int, used []bool) {
		if len(cur) == k {
			out = append(out, append([]int{}, cur...))
			return
		}
		for i := 0; i < k; i++ {
			if !used[i] {
				used[i] = true
				rec(append(cur, i), used)
				used[i] = false
			}
		}
	}
	rec(nil, make([]bool, k))
	return out
}

func Run(c *vf.Check) {
	c.Level = "model_checking"
	type job struct{ p pcfg }
	var jobs []pcfg
	ns := []int{3}
	if c.Thorough() {
		ns = []int{3, 4}
	}
	for _, n := range ns {
		for t := n/2 + 1; t <= n; t++ {
			for _, fast := range []bool{false, true} {
				for _, rs := range []string{"", "same", "permute", "replace-one", "grow", "shrink", "new-threshold"} {
					if rs != "" && fast && rs != "same" && rs != "permute" {
						continue
					}
					faults := pedersenFaults(n, rs != "")
					for fi, f := range faults {
						if f.party >= 0 && n-t < 1 && rs == "" {
							// no deviating party is tolerated at t = n; keep two representative faults to see agreement among those who complete
							if fi%9 != 0 {
								continue
							}
						}
						if rs != "" && rs != "permute" && f.party >= 0 && fi%4 != 1 {
							continue // resharing configurations: a quarter of the fault menu
						}
						jobs = append(jobs, pcfg{n: n, t: t, fast: fast, reshare: rs, fault: f, permNode: -1})
					}
					// a leaving old member (a dealer only) deviates: invalid share to each member of the new group
					if rs == "replace-one" || rs == "shrink" {
						newN := n
						if rs == "shrink" {
							newN = n - 1
						}
						for _, k := range []string{"bad-share+no-justification", "bad-share", "absent-deals"} {
							for tg := 0; tg < newN; tg++ {
								if k == "absent-deals" && tg > 0 {
									continue
								}
								jobs = append(jobs, pcfg{n: n, t: t, fast: fast, reshare: rs, fault: fault{k, 1000, tg}, permNode: -1})
							}
						}
					}
				}
			}
		}
	}
	if c.Thorough() {
		// two deviating parties (n - t = 2): n = 5, t = 3, every pair of behaviours from a reduced menu
		two := []fault{{"absent", 0, 0}, {"bad-share", 0, 2}, {"bad-share+no-justification", 0, 2}, {"conflicting-deal-bundles", 0, 0},
			{"false-complaint", 0, 2}, {"wrong-session-id-responses", 0, 2}, {"commitments-short", 0, 0}, {"share-to-wrong-holder", 0, 2}}
		for _, fast := range []bool{false, true} {
			for _, f1 := range two {
				for _, f2 := range two {
					f1, f2 := f1, f2
					f1.party, f2.party = 0, 4
					jobs = append(jobs, pcfg{n: 5, t: 3, fast: fast, fault: f1, fault2: f2, permNode: -1})
				}
			}
		}
	}
	vf.Parallel(len(jobs), func(i int) { runPedersenJob(c, jobs[i]) })
	rj := rabinJobs(c)
	vf.Parallel(len(rj), func(i int) { rj[i]() })
	runProtocol(c)
	c.Finish("engine S/E on the real DistKeyGenerator objects (Pedersen) and the per-message Rabin API: n=3 (thorough 3,4), every t in [n/2+1, n], regular and fast-sync, fresh and resharing {same group, same members under permuted indices (full fault menu), one leaves and one joins, growing, shrinking, new threshold}; (thorough: also n=5, t=3 with TWO deviating parties, every pair of behaviours from a menu of 8); the deviating party (first or last index) gets one behaviour from a menu of 19 {absent in all / response / justification phases, invalid share to each victim (then justified, not justified, wrongly justified), share encrypted to the wrong holder, share index out of range, commitments of length t-1 / t+1, wrong session id on deals / responses / justifications, duplicate identical bundle, two conflicting bundles, false complaint against each dealer, success response in regular mode, response naming an unknown dealer, justification for an out-of-range index, (resharing) wrong constant term}; bundles are mutated honest bundles re-signed with the deviating party's key and filtered by VerifyPacketSignature at every receiver as the Protocol driver does. "+
		"Also: a LEAVING old member (a dealer only) sending an invalid share to each member of the new group (justified never) or no deals; a response entry with a status code that is neither Success nor Complaint; an honest receiver of an invalid share must answer with a complaint about exactly that dealer (old-group index); Rabin: the output asked for twice is the same value and the first answer is left as it was. "+
		"For every honest node and phase, EVERY permutation of the bundle slice handed to ProcessDeals/Responses/Justifications is run and the node's emitted bundle and final output must equal those of the canonical order. End-state oracle: honest nodes that complete have identical commitments and QUAL, each share lies on the polynomial, every t-subset of honest shares reconstructs the secret of the public key, the key is the sum of QUAL's contributions (resharing: unchanged), a dealer with an unjustified invalid deal is not in QUAL, an honest dealer with < t complaints is; no fault => everybody completes. "+
		"L2 - the goroutine-driven Protocol type: n=3 real dkg.Protocol instances (signature verification on) talk through a harness Board (unbuffered channels, one pending send at a time) and a harness Phaser, so the harness decides the whole schedule; events = {phase tick at node i (timers fire only when no delivery is pending anywhere), delivery of a posted packet to node i, one repeated delivery}; stateless depth-first search with sleep sets (events at different nodes commute), every execution run to completion on fresh objects, InitPhase ticks as barriers; regular mode without faults: ALL schedules (every Mazurkiewicz trace once); other configurations: all schedules within the stated number of deviations from the canonical synchronous-rounds schedule; deviating party behaviours {absent, invalid share (justified / not), two conflicting deal bundles, false complaint, two conflicting response bundles} applied to what its real Protocol pushes; plus an all-honest resharing from 3 members to 4 (one newcomer) in both modes; same end-state oracle plus: every Protocol goroutine delivers a result or an error. "+
		"non-trivial = runs with a fault or a non-identity delivery order / non-canonical schedule; distinct by (configuration, fault, permuted node/phase/order or schedule)",
		[]string{"one deviating party (n - t >= 1 for the configurations with faults)", "ECIES draws from crypto/rand inside kyber (ciphertexts differ between runs, outcomes may not)", "map iteration order inside Protocol's packet sets is not controllable (L1 enumerates the resulting slice orders instead)"}, nil)
}

func runPedersenJob(c *vf.Check, p pcfg) {
	pk := "C11/pedersen"
	var old *outcome
	if p.reshare != "" {
		// the group before resharing: an honest fresh run with the same n, t
		c.Case(p.base()+": old group", pk+"/setup", func(x *vf.Ctx) {
			old = runPedersen(pcfg{n: p.n, t: p.t, fault: fault{"none", -1, 0}, permNode: -1}, nil)
			for _, nd := range old.nodes {
				if nd.res == nil {
					x.Failf(pk+"/honest-run-incomplete", "%s: the honest fresh run for the old group does not complete: %v", p.base(), nd.err)
					old = nil
					return
				}
			}
		})
		if old == nil {
			return
		}
		if p.reshare == "new-threshold" {
			p.t = p.n
		}
		if p.reshare == "shrink" && p.t > p.n-1 {
			p.t = p.n - 1
		}
	}
	var base *outcome
	c.Case(p.String(), pk, func(x *vf.Ctx) {
		base = runPedersen(p, old)
		c.Eval(1)
		judge(x, c, p, base, pk)
	})
	c.Count("transitions", 1)
	c.Count("states", 1)
	if p.fault.party >= 0 {
		c.Nontrivial(p.String())
	}
	if base == nil {
		return
	}
	// delivery orders: every permutation, one honest node and one phase at a time
	nNodes := len(base.nodes)
	for node := 0; node < nNodes; node++ {
		if p.fault.party >= 0 && node == p.fault.party%nNodes {
			continue
		}
		if p.fault2.kind != "" && p.fault2.party >= 0 && node == p.fault2.party%nNodes {
			continue
		}
		if nNodes >= 5 && node != 1 && node != nNodes-2 {
			continue // five participants: delivery orders at two of the honest nodes
		}
		for ph := 0; ph < 3; ph++ {
			k := nNodes + 1 // upper bound on the slice length; shorter slices ignore the permutation
			_ = k
			for _, perm := range permsOf(nNodes) {
				identity := true
				for i, v := range perm {
					if v != i {
						identity = false
					}
				}
				if identity {
					continue
				}
				q := p
				q.permNode, q.permPh, q.perm = node, ph, perm
				c.Case(q.String(), pk, func(x *vf.Ctx) {
					o := runPedersen(q, old)
					c.Eval(1)
					a, b := base.nodes[node], o.nodes[node]
					for s := ph + 1; s < 3; s++ {
						if nz(a.sent[s]) != nz(b.sent[s]) {
							x.Failf(pk+"/order-dependent-output", "%s: the bundle the node emits in phase %d depends on the delivery order: %q vs %q", q, s, a.sent[s], b.sent[s])
							return
						}
					}
					if canonRes(a.res, a.err) != canonRes(b.res, b.err) {
						x.Failf(pk+"/order-dependent-result", "%s: final output depends on the delivery order: %s vs %s", q, canonRes(a.res, a.err), canonRes(b.res, b.err))
						return
					}
					judge(x, c, q, o, pk)
				})
				c.Count("transitions", 1)
				c.Nontrivial(q.String())
			}
		}
	}
	c.Count("traces_validated_against_impl", 1)
	_ = fmt.Sprint
}

func nz(s string) string {
	if s == "nil" {
		return ""
	}
	return s
}
