// Package c05: value semantics and aliasing. Stateless exploration of every
// program of depth <= 2 (3 for fast groups in the thorough tier) over a pool
// of 3 point and 2 scalar variables with every aliasing pattern; states are
// never merged. After every step the encodings of ALL variables are compared
// with a reference execution of the same step on fresh, unaliased copies
// (decode(encode(.)), never Clone).
package c05

import (
	"bytes"
	"fmt"
	"math/big"

	"go.dedis.ch/kyber/v4"
	"verif/harness/alpha"
	"verif/harness/fmod"
	"verif/harness/groups"
	"verif/harness/vf"
)

const nP, nS = 3, 2

type op struct {
	kind       string
	d, a, b, k int // destination, operands, scalar index (Mul); a == -1: nil point
	scalar     bool
}

func (o op) String() string {
	pv := func(i int) string {
		if i < 0 {
			return "nil"
		}
		return fmt.Sprintf("p%d", i)
	}
	sv := func(i int) string { return fmt.Sprintf("s%d", i) }
	if o.scalar {
		switch o.kind {
		case "Add", "Sub", "Mul", "Div":
			return fmt.Sprintf("%s.%s(%s,%s)", sv(o.d), o.kind, sv(o.a), sv(o.b))
		case "Neg", "Inv", "Set":
			return fmt.Sprintf("%s.%s(%s)", sv(o.d), o.kind, sv(o.a))
		case "Clone":
			return fmt.Sprintf("%s=%s.Clone()", sv(o.d), sv(o.a))
		default:
			return fmt.Sprintf("%s.%s()", sv(o.d), o.kind)
		}
	}
	switch o.kind {
	case "Add", "Sub":
		return fmt.Sprintf("%s.%s(%s,%s)", pv(o.d), o.kind, pv(o.a), pv(o.b))
	case "Neg", "Set":
		return fmt.Sprintf("%s.%s(%s)", pv(o.d), o.kind, pv(o.a))
	case "Mul":
		return fmt.Sprintf("%s.Mul(%s,%s)", pv(o.d), sv(o.k), pv(o.a))
	case "Clone":
		return fmt.Sprintf("%s=%s.Clone()", pv(o.d), pv(o.a))
	default:
		return fmt.Sprintf("%s.%s()", pv(o.d), o.kind)
	}
}

func menu(g *groups.G) []op {
	var m []op
	for d := 0; d < nP; d++ {
		for a := 0; a < nP; a++ {
			for b := 0; b < nP; b++ {
				m = append(m, op{kind: "Add", d: d, a: a, b: b}, op{kind: "Sub", d: d, a: a, b: b})
			}
			m = append(m, op{kind: "Neg", d: d, a: a}, op{kind: "Set", d: d, a: a}, op{kind: "Clone", d: d, a: a})
			for k := 0; k < nS; k++ {
				m = append(m, op{kind: "Mul", d: d, a: a, k: k})
			}
		}
		if g.MulNil {
			for k := 0; k < nS; k++ {
				m = append(m, op{kind: "Mul", d: d, a: -1, k: k})
			}
		}
		m = append(m, op{kind: "Null", d: d})
		if g.Base {
			m = append(m, op{kind: "Base", d: d})
		}
		if g.Pick {
			m = append(m, op{kind: "Pick", d: d})
		}
		if g.Embed {
			m = append(m, op{kind: "Embed", d: d})
		}
	}
	for d := 0; d < nS; d++ {
		for a := 0; a < nS; a++ {
			for b := 0; b < nS; b++ {
				for _, k := range []string{"Add", "Sub", "Mul", "Div"} {
					m = append(m, op{kind: k, d: d, a: a, b: b, scalar: true})
				}
			}
			for _, k := range []string{"Neg", "Inv", "Set", "Clone"} {
				m = append(m, op{kind: k, d: d, a: a, scalar: true})
			}
		}
		for _, k := range []string{"Zero", "One", "SetInt64", "SetBytes", "Pick"} {
			m = append(m, op{kind: k, d: d, scalar: true})
		}
	}
	return m
}

type state struct {
	p [nP]kyber.Point
	s [nS]kyber.Scalar
}

type encs struct {
	p [nP][]byte
	s [nS][]byte
}

func enc(st *state) encs {
	var e encs
	for i := range st.p {
		e.p[i] = fmod.Enc(st.p[i])
	}
	for i := range st.s {
		b, err := st.s[i].MarshalBinary()
		if err != nil {
			panic(err)
		}
		e.s[i] = b
	}
	return e
}

type env struct {
	g     *groups.G
	init  encs
	poolB bool   // second pool: p2 is the identity, p0 = p1 + identity, s1 a scalar zeroed in place after holding a value
	s1was []byte // pool B: what s1 held before it was zeroed
}

func (e *env) label() string {
	if e.poolB {
		return e.g.Name + " [pool with identity and zeroed scalar]"
	}
	return e.g.Name
}

func (e *env) decP(b []byte) kyber.Point {
	p := e.g.Point()
	if err := p.UnmarshalBinary(b); err != nil {
		panic(fmt.Sprintf("decode of an encoding produced by MarshalBinary failed: %v", err))
	}
	return p
}
func (e *env) decS(b []byte) kyber.Scalar {
	s := e.g.Scalar()
	if err := s.UnmarshalBinary(b); err != nil {
		panic(fmt.Sprintf("decode of a scalar encoding failed: %v", err))
	}
	return s
}

// fresh builds the initial pool: p0 a non-normalised sum, p1 decoded, p2 a doubled point.
func (e *env) fresh() *state {
	st := &state{}
	st.p[0] = e.g.Point().Add(e.decP(e.init.p[1]), e.decP(e.init.p[2])) // p0 = p1+p2 computed => projective form
	// bring p0 to the advertised initial value (init.p[0] is its encoding) - it already is by construction
	st.p[1] = e.decP(e.init.p[1])
	st.p[2] = e.decP(e.init.p[2])
	st.s[0] = e.decS(e.init.s[0])
	st.s[1] = e.decS(e.init.s[1])
	if e.poolB {
		st.s[1] = e.decS(e.s1was)
		st.s[1].Sub(st.s[1], st.s[1]) // zero, in an object that held a full-size value
	}
	return st
}

var setBytesArg = []byte("verif C05 SetBytes argument, longer than any scalar: 0123456789abcdefghijklmnopqrstuvwxyzABCDEFGHIJKLMNOPQRSTUVWXYZ")
var embedArg = []byte("c05-embed")

// apply runs o on the live pool; returns the value the method returned.
func (e *env) apply(st *state, o op) (retP kyber.Point, retS kyber.Scalar) {
	if o.scalar {
		d := st.s[o.d]
		switch o.kind {
		case "Add":
			retS = d.Add(st.s[o.a], st.s[o.b])
		case "Sub":
			retS = d.Sub(st.s[o.a], st.s[o.b])
		case "Mul":
			retS = d.Mul(st.s[o.a], st.s[o.b])
		case "Div":
			retS = d.Div(st.s[o.a], st.s[o.b])
		case "Neg":
			retS = d.Neg(st.s[o.a])
		case "Inv":
			retS = d.Inv(st.s[o.a])
		case "Set":
			retS = d.Set(st.s[o.a])
		case "Clone":
			st.s[o.d] = st.s[o.a].Clone()
			retS = st.s[o.d]
		case "Zero":
			retS = d.Zero()
		case "One":
			retS = d.One()
		case "SetInt64":
			retS = d.SetInt64(-12345)
		case "SetBytes":
			retS = d.SetBytes(setBytesArg)
		case "Pick":
			retS = d.Pick(alpha.Stream("c05-spick"))
		}
		return
	}
	d := st.p[o.d]
	switch o.kind {
	case "Add":
		retP = d.Add(st.p[o.a], st.p[o.b])
	case "Sub":
		retP = d.Sub(st.p[o.a], st.p[o.b])
	case "Neg":
		retP = d.Neg(st.p[o.a])
	case "Set":
		retP = d.Set(st.p[o.a])
	case "Clone":
		st.p[o.d] = st.p[o.a].Clone()
		retP = st.p[o.d]
	case "Mul":
		if o.a < 0 {
			retP = d.Mul(st.s[o.k], nil)
		} else {
			retP = d.Mul(st.s[o.k], st.p[o.a])
		}
	case "Null":
		retP = d.Null()
	case "Base":
		retP = d.Base()
	case "Pick":
		retP = d.Pick(alpha.Stream("c05-ppick"))
	case "Embed":
		retP = d.Embed(embedArg, alpha.Stream("c05-embed"))
	}
	return
}

// ref computes the expected encodings after o from the encodings before it,
// on fresh unaliased objects.
func (e *env) ref(cur encs, o op) encs {
	nx := cur
	if o.scalar {
		a := func(i int) kyber.Scalar { return e.decS(cur.s[i]) }
		r := e.g.Scalar()
		switch o.kind {
		case "Add":
			r.Add(a(o.a), a(o.b))
		case "Sub":
			r.Sub(a(o.a), a(o.b))
		case "Mul":
			r.Mul(a(o.a), a(o.b))
		case "Div":
			r.Div(a(o.a), a(o.b))
		case "Neg":
			r.Neg(a(o.a))
		case "Inv":
			r.Inv(a(o.a))
		case "Set", "Clone":
			r = a(o.a)
		case "Zero":
			r.Zero()
		case "One":
			r.One()
		case "SetInt64":
			r.SetInt64(-12345)
		case "SetBytes":
			r.SetBytes(append([]byte{}, setBytesArg...))
		case "Pick":
			r.Pick(alpha.Stream("c05-spick"))
		}
		b, _ := r.MarshalBinary()
		nx.s[o.d] = b
		return nx
	}
	a := func(i int) kyber.Point { return e.decP(cur.p[i]) }
	r := e.g.Point()
	switch o.kind {
	case "Add":
		r.Add(a(o.a), a(o.b))
	case "Sub":
		r.Sub(a(o.a), a(o.b))
	case "Neg":
		r.Neg(a(o.a))
	case "Set", "Clone":
		r = a(o.a)
	case "Mul":
		if o.a < 0 {
			r.Mul(e.decS(cur.s[o.k]), nil)
		} else {
			r.Mul(e.decS(cur.s[o.k]), a(o.a))
		}
	case "Null":
		r.Null()
	case "Base":
		r.Base()
	case "Pick":
		r.Pick(alpha.Stream("c05-ppick"))
	case "Embed":
		r.Embed(append([]byte{}, embedArg...), alpha.Stream("c05-embed"))
	}
	nx.p[o.d] = fmod.Enc(r)
	return nx
}

func Run(c *vf.Check) {
	c.Level = "model_checking"
	gs := groups.All()
	type job struct {
		g  *groups.G
		o1 int
		b  bool
	}
	var jobs []job
	envs := map[string]*env{}
	menus := map[string][]op{}
	for _, g := range gs {
		g := g
		c.Case(g.Name+": initial pool", "C05/"+g.Name+"/setup", func(x *vf.Ctx) {
			m := fmod.New(g)
			e := &env{g: g}
			e.init.p[1] = fmod.Enc(m.Gens[len(m.Gens)-1])
			e.init.p[2] = fmod.Enc(g.Point().Add(m.Gens[0], m.Gens[0]))
			e.init.p[0] = fmod.Enc(g.Point().Add(m.Gens[len(m.Gens)-1], g.Point().Add(m.Gens[0], m.Gens[0])))
			s0, _ := alpha.ToScalar(g.Scalar(), alpha.Rand("c05-s0", g.Order), g.Order).MarshalBinary()
			s1, _ := alpha.ToScalar(g.Scalar(), new(big.Int).Sub(g.Order, big.NewInt(2)), g.Order).MarshalBinary()
			e.init.s[0], e.init.s[1] = s0, s1
			// the fresh pool must encode to init
			if got := enc(e.fresh()); !sameEnc(got, e.init) {
				x.Failf("C05/"+g.Name+"/setup", "fresh pool does not encode to the initial encodings")
				return
			}
			envs[g.Name] = e
			menus[g.Name] = menu(g)
			// second pool
			eb := &env{g: g, poolB: true, s1was: s1}
			eb.init.p[1] = e.init.p[1]
			eb.init.p[2] = fmod.Enc(g.Point().Null())
			eb.init.p[0] = e.init.p[1]
			eb.init.s[0] = s0
			zb, _ := g.Scalar().Zero().MarshalBinary()
			eb.init.s[1] = zb
			if got := enc(eb.fresh()); !sameEnc(got, eb.init) {
				x.Failf("C05/"+g.Name+"/setup", "fresh second pool does not encode to the initial encodings")
				return
			}
			envs[g.Name+"#B"] = eb
		})
		if envs[g.Name] == nil {
			continue
		}
		for i := range menus[g.Name] {
			jobs = append(jobs, job{g, i, false})
		}
		if envs[g.Name+"#B"] != nil {
			for i := range menus[g.Name] {
				jobs = append(jobs, job{g, i, true})
			}
		}
	}
	depth := 2
	vf.Parallel(len(jobs), func(i int) {
		j := jobs[i]
		if j.b {
			// second pool: depth 1, and second steps after first steps writing variable 0 (thorough: all on fast groups)
			explore(c, envs[j.g.Name+"#B"], menus[j.g.Name], j.o1, depth, !c.Thorough() || expensive(j.g))
			return
		}
		explore(c, envs[j.g.Name], menus[j.g.Name], j.o1, depth, !c.Thorough() && expensive(j.g))
	})
	for _, g := range gs {
		c.Note(fmt.Sprintf("%s: menu=%d operations, depth=%d, second-step-reduced=%v", g.Name, len(menus[g.Name]), depth, !c.Thorough() && expensive(g)))
	}
	c.Finish("engine S (stateless, no state merging): every program of depth <= 2 over the operation menu {Add,Sub (27 aliasing patterns each), Neg, Set, Clone, Mul(s,p|nil), Null, Base, Pick, Embed; scalar Add,Sub,Mul,Div (8 patterns each), Neg, Inv, Set, Clone, Zero, One, SetInt64, SetBytes, Pick} on a pool of 3 points (one in non-normalised form) and 2 scalars, each program replayed from a fresh pool; and on a second pool (p2 the identity, p0 = p1 + identity, s1 a scalar zeroed in place after holding a full-size value) every first step and the second steps after first steps writing variable 0. "+
		"After every step: (1) returned value Equal to and encoded as the receiver, (2) receiver encoding = reference execution of that step on fresh decode(encode(.)) copies, (3) every other variable's encoding unchanged. "+
		"non-trivial = program whose last step's receiver is also an operand, or whose two steps touch a common variable; distinct by (group, program)",
		[]string{"the reference step uses the same implementation operation on unaliased fresh objects (the property's own definition of the expected result)",
			"hidden sharing that never changes any encoding within the explored depth is invisible"},
		nil)
}

func sameEnc(a, b encs) bool {
	for i := range a.p {
		if !bytes.Equal(a.p[i], b.p[i]) {
			return false
		}
	}
	for i := range a.s {
		if !bytes.Equal(a.s[i], b.s[i]) {
			return false
		}
	}
	return true
}

// step applies o to the live state, checks the three oracle clauses against
// the reference, and returns the reference encodings after the step.
func step(x *vf.Ctx, e *env, st *state, cur encs, o op, prog string) (encs, bool) {
	pk := "C05/" + e.g.Name + "/"
	if o.scalar {
		pk = "C05/" + e.g.Name + ".Scalar/"
	}
	if o.scalar && (o.kind == "Div" && isZero(e, cur.s[o.b]) || o.kind == "Inv" && isZero(e, cur.s[o.a])) {
		return cur, false // division by zero is outside the statement
	}
	want := e.ref(cur, o)
	retP, retS := e.apply(st, o)
	got := enc(st)
	ok := true
	for i := range got.p {
		if !bytes.Equal(got.p[i], want.p[i]) {
			ok = false
			if !o.scalar && i == o.d {
				x.Failf(pk+o.kind+"/receiver", "after %s: receiver p%d = %x.., reference on unaliased copies = %x..", prog, i, hd(got.p[i]), hd(want.p[i]))
			} else {
				x.Failf(pk+o.kind+"/other-var-changed", "after %s: p%d changed although it is not the receiver (%x.. -> %x..)", prog, i, hd(want.p[i]), hd(got.p[i]))
			}
		}
	}
	for i := range got.s {
		if !bytes.Equal(got.s[i], want.s[i]) {
			ok = false
			if o.scalar && i == o.d {
				x.Failf(pk+o.kind+"/receiver", "after %s: receiver s%d = %x, reference = %x", prog, i, got.s[i], want.s[i])
			} else {
				x.Failf(pk+o.kind+"/other-var-changed", "after %s: s%d changed although it is not the receiver", prog, i)
			}
		}
	}
	if o.scalar {
		if retS == nil || !retS.Equal(st.s[o.d]) {
			ok = false
			x.Failf(pk+o.kind+"/return", "after %s: returned scalar is not Equal to the receiver", prog)
		} else if rb, _ := retS.MarshalBinary(); !bytes.Equal(rb, got.s[o.d]) {
			ok = false
			x.Failf(pk+o.kind+"/return", "after %s: returned scalar encodes differently from the receiver", prog)
		}
	} else {
		if retP == nil || !retP.Equal(st.p[o.d]) {
			ok = false
			x.Failf(pk+o.kind+"/return", "after %s: returned point is not Equal to the receiver", prog)
		} else if !bytes.Equal(fmod.Enc(retP), got.p[o.d]) {
			ok = false
			x.Failf(pk+o.kind+"/return", "after %s: returned point encodes differently from the receiver", prog)
		}
	}
	return want, ok
}

// probe looks for sharing that the program left behind without having changed any encoding yet (e.g. a Neg or Set
// that made the receiver point to its operand's storage): every variable is written in place once and must then hold
// exactly its own old value plus the increment - a variable that shares storage with another receives two increments.
func probe(x *vf.Ctx, e *env, st *state, cur encs, prog string, o op) {
	pk := "C05/" + e.g.Name + "/" + o.kind
	K := e.decP(e.init.p[1])
	one := e.g.Scalar().One()
	// phase 1: every variable negated in place (an implementation may negate a coordinate inside storage it shares)
	var want encs
	for i := range st.p {
		want.p[i] = fmod.Enc(e.g.Point().Neg(e.decP(cur.p[i])))
	}
	for i := range st.s {
		b, _ := e.g.Scalar().Neg(e.decS(cur.s[i])).MarshalBinary()
		want.s[i] = b
	}
	for i := range st.p {
		st.p[i].Neg(st.p[i])
	}
	for i := range st.s {
		st.s[i].Neg(st.s[i])
	}
	got := enc(st)
	for i := range got.p {
		if !bytes.Equal(got.p[i], want.p[i]) {
			x.Failf(pk+"/latent-sharing", "after %s: negating every variable in place once (v.Neg(v)) leaves p%d = %x.. instead of the negation of its old value %x..: it shares storage with another variable", prog, i, hd(got.p[i]), hd(want.p[i]))
			return
		}
	}
	for i := range got.s {
		if !bytes.Equal(got.s[i], want.s[i]) {
			x.Failf(pk+"/latent-sharing", "after %s: negating every variable in place once leaves s%d different from the negation of its old value: it shares storage with another variable", prog, i)
			return
		}
	}
	// phase 2: every variable incremented in place, by another amount each ((i+1)K, i+1)
	cur = want
	incS := e.g.Scalar().Zero()
	incP := e.g.Point().Null()
	var incsS []kyber.Scalar
	var incsP []kyber.Point
	for i := 0; i < len(st.p) || i < len(st.s); i++ {
		incS = e.g.Scalar().Add(incS, one)
		incP = e.g.Point().Add(incP, K)
		incsS, incsP = append(incsS, incS), append(incsP, incP)
	}
	for i := range st.p {
		want.p[i] = fmod.Enc(e.g.Point().Add(e.decP(cur.p[i]), incsP[i]))
	}
	for i := range st.s {
		b, _ := e.g.Scalar().Add(e.decS(cur.s[i]), incsS[i]).MarshalBinary()
		want.s[i] = b
	}
	for i := range st.p {
		st.p[i].Add(st.p[i], incsP[i])
	}
	for i := range st.s {
		st.s[i].Add(st.s[i], incsS[i])
	}
	got = enc(st)
	for i := range got.p {
		if !bytes.Equal(got.p[i], want.p[i]) {
			x.Failf(pk+"/latent-sharing", "after %s: writing every variable in place (v.Neg(v), then v.Add(v,(i+1)K)) leaves p%d = %x.. instead of %x..: it shares storage with another variable", prog, i, hd(got.p[i]), hd(want.p[i]))
			return
		}
	}
	for i := range got.s {
		if !bytes.Equal(got.s[i], want.s[i]) {
			x.Failf(pk+"/latent-sharing", "after %s: writing every variable in place (v.Neg(v), then v.Add(v,i+1)) leaves s%d different from -old+%d: it shares storage with another variable", prog, i, i+1)
			return
		}
	}
}

func isZero(e *env, b []byte) bool {
	return e.decS(b).Equal(e.g.Scalar().Zero())
}

func touches(o op) (set map[string]bool) {
	set = map[string]bool{}
	pre := "p"
	if o.scalar {
		pre = "s"
	}
	set[fmt.Sprintf("%s%d", pre, o.d)] = true
	switch o.kind {
	case "Add", "Sub", "Div":
		set[fmt.Sprintf("%s%d", pre, o.a)] = true
		set[fmt.Sprintf("%s%d", pre, o.b)] = true
	case "Mul":
		if o.scalar {
			set[fmt.Sprintf("s%d", o.a)] = true
			set[fmt.Sprintf("s%d", o.b)] = true
		} else {
			set[fmt.Sprintf("s%d", o.k)] = true
			if o.a >= 0 {
				set[fmt.Sprintf("p%d", o.a)] = true
			}
		}
	case "Neg", "Inv", "Set", "Clone":
		set[fmt.Sprintf("%s%d", pre, o.a)] = true
	}
	return
}

func aliased(o op) bool {
	switch o.kind {
	case "Add", "Sub", "Div":
		return o.d == o.a || o.d == o.b
	case "Mul":
		if o.scalar {
			return o.d == o.a || o.d == o.b
		}
		return o.d == o.a
	case "Neg", "Inv", "Set":
		return o.d == o.a
	}
	return false
}

func explore(c *vf.Check, e *env, m []op, i1 int, depth int, reduced bool) {
	g := e.g
	o1 := m[i1]
	pk := "C05/" + g.Name + "/" + o1.kind
	ok1 := false
	var after1 encs
	c.Case(e.label()+": "+o1.String(), pk, func(x *vf.Ctx) {
		st := e.fresh()
		after1, ok1 = step(x, e, st, e.init, o1, o1.String())
		c.Eval(1)
		if ok1 {
			probe(x, e, st, after1, o1.String(), o1)
		}
	})
	c.Count("states", 1)
	c.Count("transitions", 1)
	if aliased(o1) {
		c.Nontrivial(e.label() + "|" + o1.String())
	}
	c.Class(g.Name+"/depth1", func() any { return o1.String() })
	if !ok1 || depth < 2 {
		return
	}
	if reduced && o1.d != 0 {
		return // quick tier, expensive group: second step only after first steps writing variable 0
	}
	t1 := touches(o1)
	for _, o2 := range m {
		o2 := o2
		prog := o1.String() + "; " + o2.String()
		if !dependent(o1, o2) {
			continue // o2 reads and writes nothing o1 touched: same as the depth-1 program o2
		}
		c.Case(e.label()+": "+prog, "C05/"+g.Name+"/"+o2.kind, func(x *vf.Ctx) {
			st := e.fresh()
			e.apply(st, o1) // checked as a depth-1 program above; after1 is its reference result
			after2, ok2 := step(x, e, st, after1, o2, prog)
			c.Eval(1)
			if ok2 {
				probe(x, e, st, after2, prog, o2)
			}
		})
		c.Count("states", 1)
		c.Count("transitions", 1)
		nt := aliased(o2)
		if !nt {
			for k := range touches(o2) {
				if t1[k] {
					nt = true
				}
			}
		}
		if nt {
			c.Nontrivial(e.label() + "|" + prog)
		}
		if c.Expired() {
			c.Cap(g.Name + ": deadline")
			return
		}
	}
	c.Count("traces_validated_against_impl", int64(len(m)+1))
}

func hd(b []byte) []byte {
	if len(b) > 16 {
		return b[:16]
	}
	return b
}

// expensive groups get a reduced depth-2 exploration in the quick tier.
func expensive(g *groups.G) bool {
	return g.Slow || g.Family == "kilic" || g.Name == "bn254.G2" || g.Name == "circl.G2"
}

// dependent reports whether o2 reads or writes a variable o1 touched.
func dependent(o1, o2 op) bool {
	t1 := touches(o1)
	for k := range touches(o2) {
		if t1[k] {
			return true
		}
	}
	return false
}
