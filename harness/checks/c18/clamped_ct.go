//go:build constantTime

package c18

import "verif/harness/vf"

func runClampedKeys(c *vf.Check) {}
func runPickSmallOrder(c *vf.Check) {}
func runCustomDSTHash(c *vf.Check) {}
