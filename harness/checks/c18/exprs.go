// Package c18: independent implementations and build variants agree bit for bit.
package c18

import (
	"verif/harness/curves"
	"fmt"
	"math/big"
	"sort"

	"go.dedis.ch/kyber/v4"
	"verif/harness/alpha"
	"verif/harness/groups"
)

// expr: a value k*B (K != nil) or a value involving hashed points (K == nil),
// evaluated the same way in every implementation.
type expr struct {
	Name string
	K    *big.Int
	Enc  []byte
}

type val struct {
	name string
	k    *big.Int // nil: unknown multiple (involves a hashed point)
	p    kyber.Point
}

// evaluate runs the fixed straight-line programs (depth <= 2 over the seed pool) on one implementation.
// Everything is derived from scalars and messages only.
func evaluate(g *groups.G, level int, withHash bool) (out []expr, err error) {
	defer func() {
		if r := recover(); r != nil {
			err = fmt.Errorf("panic: %v", r)
		}
	}()
	q := g.Order
	S := alpha.Scalars(q, level)
	core := alpha.Scalars(q, 0)
	if g.Slow {
		S, core = alpha.Scalars(q, 0), alpha.Scalars(q, 0)[:6]
	}
	sc := func(v *big.Int) kyber.Scalar { return alpha.ToScalar(g.Scalar(), v, q) }
	md := func(v *big.Int) *big.Int { return new(big.Int).Mod(v, q) }
	emit := func(v val) {
		b, e := v.p.MarshalBinary()
		if e != nil {
			panic(e)
		}
		out = append(out, expr{v.name, v.k, b})
	}
	B := g.Gen()
	seeds := []val{{"O", big.NewInt(0), g.Point().Null()}, {"B", big.NewInt(1), B}}
	for _, s := range S {
		seeds = append(seeds, val{"Mul(" + s.Name + ",B)", s.V, g.Point().Mul(sc(s.V), B)})
		if g.MulNil {
			emit(val{"Mul(" + s.Name + ",nil)", s.V, g.Point().Mul(sc(s.V), nil)})
		}
	}
	if withHash && g.Hash {
		for i, m := range [][]byte{{}, []byte("abc"), make([]byte, 300)} {
			h := g.Point().(kyber.HashablePoint).Hash(m)
			seeds = append(seeds, val{fmt.Sprintf("Hash(m%d)", i), nil, h})
		}
	}
	// decoded (normalised) forms as seeds, incl. the decoded identity
	dec := func(v val) val {
		b, e := v.p.MarshalBinary()
		if e != nil {
			panic(e)
		}
		p := g.Point()
		if e := p.UnmarshalBinary(b); e != nil {
			panic(fmt.Sprintf("decode(encode(%s)): %v", v.name, e))
		}
		return val{"dec(" + v.name + ")", v.k, p}
	}
	seeds = append(seeds, dec(seeds[0]), dec(seeds[1]), dec(seeds[3]))
	for _, v := range seeds {
		emit(v)
	}
	// accumulator forms: the receiver is also an operand
	for _, a := range []val{seeds[1], seeds[3], seeds[len(seeds)-1]} {
		for _, s := range core[:8] {
			x := dec(a)
			x.p.Mul(sc(s.V), x.p)
			var nk *big.Int
			if a.k != nil {
				nk = md(new(big.Int).Mul(s.V, a.k))
			}
			emit(val{"MulInPlace(" + s.Name + "," + a.name + ")", nk, x.p})
		}
		y := dec(a)
		y.p.Add(y.p, seeds[1].p)
		var nk *big.Int
		if a.k != nil {
			nk = md(new(big.Int).Add(a.k, big.NewInt(1)))
		}
		emit(val{"AddInPlace(" + a.name + ",B)", nk, y.p})
		z := dec(a)
		z.p.Add(seeds[1].p, z.p)
		emit(val{"AddInPlace2(B," + a.name + ")", nk, z.p})
		var mk, mk2, zk *big.Int
		if a.k != nil {
			mk = md(new(big.Int).Sub(a.k, big.NewInt(1)))
			mk2 = md(new(big.Int).Sub(big.NewInt(1), a.k))
			zk = big.NewInt(0)
		}
		u := dec(a)
		u.p.Sub(u.p, seeds[1].p)
		emit(val{"SubInPlace(" + a.name + ",B)", mk, u.p})
		v := dec(a)
		v.p.Sub(seeds[1].p, v.p)
		emit(val{"SubInPlace2(B," + a.name + ")", mk2, v.p})
		w := dec(a)
		w.p.Sub(w.p, w.p)
		emit(val{"SubInPlace3(" + a.name + "," + a.name + ")", zk, w.p})
		n := dec(a)
		n.p.Neg(n.p)
		var negk *big.Int
		if a.k != nil {
			negk = md(new(big.Int).Neg(a.k))
		}
		emit(val{"NegInPlace(" + a.name + ")", negk, n.p})
	}
	kadd := func(a, b *big.Int, sign int) *big.Int {
		if a == nil || b == nil {
			return nil
		}
		if sign < 0 {
			return md(new(big.Int).Sub(a, b))
		}
		return md(new(big.Int).Add(a, b))
	}
	// level 1
	var l1 []val
	pick := seeds
	if len(pick) > 14 {
		pick = append(append([]val{}, seeds[:8]...), seeds[len(seeds)-6:]...)
	}
	for _, a := range pick {
		var nk *big.Int
		if a.k != nil {
			nk = md(new(big.Int).Neg(a.k))
		}
		l1 = append(l1, val{"Neg(" + a.name + ")", nk, g.Point().Neg(a.p)})
		for _, b := range pick {
			l1 = append(l1, val{"Add(" + a.name + "," + b.name + ")", kadd(a.k, b.k, 1), g.Point().Add(a.p, b.p)},
				val{"Sub(" + a.name + "," + b.name + ")", kadd(a.k, b.k, -1), g.Point().Sub(a.p, b.p)})
		}
	}
	for _, s := range core {
		for _, a := range []val{seeds[1], seeds[len(seeds)-1], seeds[4]} {
			var nk *big.Int
			if a.k != nil {
				nk = md(new(big.Int).Mul(s.V, a.k))
			}
			l1 = append(l1, val{"Mul(" + s.Name + "," + a.name + ")", nk, g.Point().Mul(sc(s.V), a.p)})
		}
	}
	for _, v := range l1 {
		emit(v)
	}
	// level 2: results as operands again (non-normalised internal forms)
	step := 1 + len(l1)/24
	var sel []val
	for i := 0; i < len(l1); i += step {
		sel = append(sel, l1[i])
	}
	for _, a := range sel {
		for _, b := range sel[:8] {
			emit(val{"Add(" + a.name + "," + b.name + ")", kadd(a.k, b.k, 1), g.Point().Add(a.p, b.p)})
		}
		for _, s := range core[:6] {
			var nk *big.Int
			if a.k != nil {
				nk = md(new(big.Int).Mul(s.V, a.k))
			}
			emit(val{"Mul(" + s.Name + "," + a.name + ")", nk, g.Point().Mul(sc(s.V), a.p)})
		}
	}
	// Ed25519 family: the encodings with y = p+k (k = 0..18, either sign bit) name the same points as y = k; every
	// implementation must treat them alike (reject, or decode to the point that re-encodes canonically)
	if g.Family == "ed25519" {
		for k := int64(0); k < 19; k++ {
			for sign := 0; sign < 2; sign++ {
				v := new(big.Int).Add(curves.EdP, big.NewInt(k))
				be := v.FillBytes(make([]byte, 32))
				le := make([]byte, 32)
				for i := range be {
					le[31-i] = be[i]
				}
				le[31] |= byte(sign << 7)
				name := fmt.Sprintf("decode(y=p+%d,sign=%d)", k, sign)
				P := g.Point()
				if err := P.UnmarshalBinary(le); err != nil {
					out = append(out, expr{name, nil, []byte("rejected")})
					continue
				}
				b, _ := P.MarshalBinary()
				out = append(out, expr{name, nil, b})
				b2, _ := P.Clone().MarshalBinary()
				out = append(out, expr{name + ".Clone()", nil, b2})
				b3, _ := g.Point().Add(P, B).MarshalBinary()
				out = append(out, expr{"Add(" + name + ",B)", nil, b3})
			}
		}
	}
	// scalars: arithmetic results encode identically everywhere
	for _, a := range core {
		for _, b := range core {
			sa, sb := sc(a.V), sc(b.V)
			for _, o := range []struct {
				n string
				s kyber.Scalar
			}{{"sAdd", g.Scalar().Add(sa, sb)}, {"sMul", g.Scalar().Mul(sa, sb)}, {"sSub", g.Scalar().Sub(sa, sb)}} {
				eb, _ := o.s.MarshalBinary()
				if o.s.ByteOrder() == kyber.LittleEndian { // compare scalars as big-endian numbers across implementations
					for i, j := 0, len(eb)-1; i < j; i, j = i+1, j-1 {
						eb[i], eb[j] = eb[j], eb[i]
					}
				}
				out = append(out, expr{fmt.Sprintf("%s(%s,%s)", o.n, a.Name, b.Name), nil, eb})
			}
		}
	}
	// SetBytes interprets its input in the implementation's own byte order: comparable across build variants of one
	// implementation only (the cross-implementation comparison skips "variant-only:" lines)
	for _, n := range []int{0, 1, 2, 3, 31, 32, 33, 47, 48, 63, 64, 65, 96} {
		hb := g.Scalar().SetBytes(alpha.Bytes(fmt.Sprintf("c18-setbytes-%d", n), n))
		eb, _ := hb.MarshalBinary()
		out = append(out, expr{fmt.Sprintf("variant-only:SetBytes(len=%d)", n), nil, eb})
		pk := g.Scalar().Pick(alpha.Stream(fmt.Sprintf("c18-pick-%d", n)))
		pb, _ := pk.MarshalBinary()
		out = append(out, expr{fmt.Sprintf("variant-only:Pick(#%d)", n), nil, pb})
	}
	sort.SliceStable(out, func(i, j int) bool { return false })
	return out, nil
}
