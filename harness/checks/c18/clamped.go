//go:build !constantTime

package c18

import (
	"go.dedis.ch/kyber/v4/pairing/bls12381/kilic"
	"bytes"
	"crypto/ed25519"
	"fmt"
	"math/big"

	"go.dedis.ch/kyber/v4"
	kyed "go.dedis.ch/kyber/v4/group/edwards25519"
	"verif/harness/alpha"
	"verif/harness/groups"
	"verif/harness/vf"
)

// runClampedKeys: the private scalars the Ed25519 key generators hand out (clamped, NOT reduced modulo the group
// order: bit 254 set) as multipliers of the implicit generator, of the explicit base point and of two other points,
// on the constant-time implementation and with AllowVarTime: identical encodings, equal to (k mod l)*P of the
// arbitrary-precision model and, for the generator, to crypto/ed25519's public key.
func runClampedKeys(c *vf.Check) {
	pk := "C18/clamped-keys"
	ct, vt := groups.ByName("ed25519"), groups.ByName("ed25519-vt")
	ref := refEncoder(ct)
	var curve kyed.Curve
	for blk := 0; blk < 64; blk += 8 {
		blk := blk
		id := fmt.Sprintf("Ed25519 clamped private scalars of seeds #%d..%d as multipliers (constant-time / AllowVarTime / model / crypto/ed25519)", blk, blk+7)
		c.Case(id, pk, func(x *vf.Ctx) {
			for i := blk; i < blk+8; i++ {
				seed := alpha.Bytes(fmt.Sprintf("c18-clamped-%d", i), 32)
				if i == 0 {
					seed = make([]byte, 32)
				}
				k, _, _ := curve.NewKeyAndSeedWithInput(seed)
				kb, _ := k.MarshalBinary()
				kv := new(big.Int)
				for j := len(kb) - 1; j >= 0; j-- {
					kv.Lsh(kv, 8).Or(kv, big.NewInt(int64(kb[j])))
				}
				kv.Mod(kv, groups.OrderEd25519)
				want := ed25519.NewKeyFromSeed(seed).Public().(ed25519.PublicKey)
				c.Eval(8)
				for _, g := range []*groups.G{ct, vt} {
					if got, _ := g.Point().Mul(k, nil).MarshalBinary(); !bytes.Equal(got, want) {
						x.Failf(pk+"/"+g.Name, "%s: Mul(k,nil) of seed #%d differs from crypto/ed25519's public key", g.Name, i)
						return
					}
				}
				// explicit points: B, 3B (as a computed sum), a hashed-scalar multiple (decoded, affine)
				for pi, m := range []*big.Int{big.NewInt(1), big.NewInt(3), alpha.Rand("c18-clamped-point", groups.OrderEd25519)} {
					mk := func(g *groups.G) kyber.Point {
						switch pi {
						case 0:
							return g.Point().Base()
						case 1:
							b := g.Point().Base()
							return g.Point().Add(g.Point().Add(b, b), b)
						}
						p := g.Point()
						_ = p.UnmarshalBinary(ref(m))
						return p
					}
					model := ref(new(big.Int).Mod(new(big.Int).Mul(kv, m), groups.OrderEd25519))
					a, _ := ct.Point().Mul(k, mk(ct)).MarshalBinary()
					b, _ := vt.Point().Mul(k, mk(vt)).MarshalBinary()
					if !bytes.Equal(a, model) {
						x.Failf(pk+"/ed25519", "constant-time Mul(clamped key of seed #%d, point #%d) = %x, model %x", i, pi, a, model)
						return
					}
					if !bytes.Equal(b, model) {
						x.Failf(pk+"/ed25519-vt", "AllowVarTime Mul(clamped key of seed #%d, point #%d) = %x, model (and constant-time) %x", i, pi, b, model)
						return
					}
				}
			}
		})
		c.Count("transitions", 8)
		c.Nontrivial(id)
	}
}

var smallOrderEncodings = []string{
	"0100000000000000000000000000000000000000000000000000000000000000", "ecffffffffffffffffffffffffffffffffffffffffffffffffffffffffffff7f",
	"0000000000000000000000000000000000000000000000000000000000000000", "0000000000000000000000000000000000000000000000000000000000000080",
	"c7176a703d4dd84fba3c0b760d10670f2a2053fa2c39ccc64ec7fd7792ac037a", "c7176a703d4dd84fba3c0b760d10670f2a2053fa2c39ccc64ec7fd7792ac03fa",
	"26e8958fc2b227b045c3f489f2ef98f0d5dfac05d3c63339b13802886d53fc05", "26e8958fc2b227b045c3f489f2ef98f0d5dfac05d3c63339b13802886d53fc85",
	"0100000000000000000000000000000000000000000000000000000000000080", "ecffffffffffffffffffffffffffffffffffffffffffffffffffffffffffffff",
	"eeffffffffffffffffffffffffffffffffffffffffffffffffffffffffffff7f", "edffffffffffffffffffffffffffffffffffffffffffffffffffffffffffff7f",
}

// runPickSmallOrder: key streams whose first candidate (the first 32 bytes, also behind a leading rejected block) is
// an encoding of one of the eight small-order points or a non-canonical spelling of one: the three Ed25519
// implementations pick the same point.
func runPickSmallOrder(c *vf.Check) {
	pk := "C18/pick-small-order"
	names := []string{"ed25519", "ed25519-vt", "ed25519vartime"}
	for ei, e := range smallOrderEncodings {
		for lead := 0; lead < 2; lead++ {
			ei, e, lead := ei, e, lead
			id := fmt.Sprintf("Pick under a stream whose candidate #%d is %s..", lead, e[:16])
			c.Case(id, pk, func(x *vf.Ctx) {
				var prefix []byte
				if lead == 1 {
					prefix = bytes.Repeat([]byte{0xff}, 32) // a first block that no implementation can use
				}
				b := make([]byte, 32)
				for i := range b {
					fmt.Sscanf(e[2*i:2*i+2], "%02x", &b[i])
				}
				prefix = append(prefix, b...)
				var encs [][]byte
				for _, gn := range names {
					g := groups.ByName(gn)
					p := g.Point().Pick(&alpha.PrefixStream{Prefix: append([]byte{}, prefix...), Next: alpha.Stream(fmt.Sprintf("c18-pick-so-%d", ei))})
					eb, _ := p.MarshalBinary()
					encs = append(encs, eb)
				}
				c.Eval(3)
				for i := 1; i < len(encs); i++ {
					if !bytes.Equal(encs[0], encs[i]) {
						x.Failf(pk+"/"+names[i], "%s: %s picks %x, %s picks %x", id, names[0], encs[0], names[i], encs[i])
						return
					}
				}
			})
			c.Count("transitions", 1)
			c.Nontrivial(id)
		}
	}
}

// runCustomDSTHash: hash-to-curve under caller-supplied tags: kilic groups configured with the tag (hashing on a fresh
// point, on a clone of a template point, on a clone of a clone, on a point that went through Set) against circl's and
// gnark's Hash2(msg, tag): identical encodings on G1 and G2.
func runCustomDSTHash(c *vf.Check) {
	pk := "C18/custom-dst-hash"
	type h2 interface {
		Hash2(msg, dst []byte) kyber.Point
	}
	for _, kind := range []string{"G1", "G2"} {
		for di, d := range [][]byte{[]byte("VERIF-C18-TAG-A"), []byte("VERIF-C18-TAG-B_with_a_longer_tag_0123456789")} {
			kind, di, d := kind, di, d
			id := fmt.Sprintf("hash to %s under custom tag #%d: kilic (fresh / clone / clone of clone / Set) vs circl vs gnark", kind, di)
			c.Case(id, pk, func(x *vf.Ctx) {
				var kg kyber.Group
				if kind == "G1" {
					kg = kilic.NewBLS12381SuiteWithDST(d, nil).G1()
				} else {
					kg = kilic.NewBLS12381SuiteWithDST(nil, d).G2()
				}
				for mi := 0; mi < 6; mi++ {
					msg := alpha.Bytes(fmt.Sprintf("c18-dst-msg-%d", mi), 5+13*mi)
					var want []byte
					for _, other := range []string{"circl." + kind, "gnark." + kind} {
						hp, ok := groups.ByName(other).Point().(h2)
						if !ok {
							continue
						}
						e, _ := hp.Hash2(msg, d).MarshalBinary()
						if want != nil && !bytes.Equal(want, e) {
							x.Failf(pk+"/"+other, "%s: circl and gnark disagree on message #%d", id, mi)
							return
						}
						want = e
					}
					if want == nil {
						return
					}
					template := kg.Point()
					recv := map[string]kyber.Point{
						"fresh point":    kg.Point(),
						"clone":          template.Clone(),
						"clone of clone": template.Clone().Clone(),
						"Set into fresh": kg.Point().Set(kg.Point().Base()),
						"clone of Base":  kg.Point().Base().Clone(),
					}
					for _, name := range []string{"fresh point", "clone", "clone of clone", "Set into fresh", "clone of Base"} {
						r := recv[name]
						got, _ := r.(kyber.HashablePoint).Hash(msg).MarshalBinary()
						c.Eval(1)
						if !bytes.Equal(got, want) {
							x.Failf(pk+"/kilic."+kind, "%s: kilic hashing on a %s gives %x.., circl/gnark %x.. (message #%d)", id, name, got[:8], want[:8], mi)
							return
						}
					}
				}
			})
			c.Count("transitions", 6)
			c.Nontrivial(id)
		}
	}
}
