package c18

import (
	"crypto/sha256"
	"bufio"
	"bytes"
	"crypto/ed25519"
	"crypto/sha512"
	"encoding/hex"
	"fmt"
	"math/big"
	"os"
	"os/exec"
	"strings"

	"go.dedis.ch/kyber/v4"
	"go.dedis.ch/kyber/v4/sign/bls"
	"verif/harness/alpha"
	"verif/harness/curves"
	"verif/harness/groups"
	"verif/harness/vf"
)

// reference encodings of k*B
func refEncoder(g *groups.G) func(k *big.Int) []byte {
	switch {
	case g.Family == "ed25519":
		c, B := curves.Ed25519Curve, curves.Ed25519Base()
		return func(k *big.Int) []byte {
			p := c.Mul(k, B)
			e := p.Y.FillBytes(make([]byte, 32))
			for i, j := 0, 31; i < j; i, j = i+1, j-1 {
				e[i], e[j] = e[j], e[i]
			}
			e[31] |= byte(p.X.Bit(0)) << 7
			return e
		}
	case g.Family == "p256":
		c, B := curves.P256Curve, curves.AffinePoint{X: curves.P256Gx, Y: curves.P256Gy}
		return func(k *big.Int) []byte {
			p := c.Mul(k, B)
			e := make([]byte, 65)
			e[0] = 4
			if !p.Inf {
				p.X.FillBytes(e[1:33])
				p.Y.FillBytes(e[33:65])
			}
			return e
		}
	case g.Name == "bn256.G1" || g.Name == "bn254.G1":
		c, B := curves.BN256Curve, curves.AffinePoint{X: big.NewInt(1), Y: new(big.Int).Sub(curves.BN256P, big.NewInt(2))}
		if g.Name == "bn254.G1" {
			c, B = curves.BN254Curve, curves.AffinePoint{X: big.NewInt(1), Y: big.NewInt(2)}
		}
		return func(k *big.Int) []byte {
			p := c.Mul(k, B)
			e := make([]byte, 64)
			if !p.Inf {
				p.X.FillBytes(e[0:32])
				p.Y.FillBytes(e[32:64])
			}
			return e
		}
	}
	return nil
}

func Run(c *vf.Check) {
	c.Level = "model_checking"
	lvl := 1
	if c.Thorough() {
		lvl = 2
	}
	var jobs []func()
	// (a),(b): each implementation against the arbitrary-precision reference, and the Ed25519 implementations against each other
	for _, gn := range []string{"ed25519", "ed25519-vt", "ed25519vartime", "p256", "bn256.G1", "bn254.G1"} {
		gn := gn
		jobs = append(jobs, func() { runRef(c, gn, lvl) })
	}
	jobs = append(jobs, func() { runCross(c, []string{"ed25519", "ed25519-vt", "ed25519vartime"}, lvl, false) })
	for _, kind := range []string{"G1", "G2", "GT"} {
		kind := kind
		jobs = append(jobs, func() { runCross(c, []string{"kilic." + kind, "circl." + kind, "gnark." + kind}, lvl, true) })
	}
	jobs = append(jobs, func() { runPairBLS(c) }, func() { runStdlib(c) }, func() { runClampedKeys(c) }, func() { runPickSmallOrder(c) }, func() { runCustomDSTHash(c) }, func() { runModIntEndian(c) })
	for _, v := range []string{"generic", "constantTime"} {
		v := v
		jobs = append(jobs, func() { runVariant(c, v) })
	}
	vf.Parallel(len(jobs), func(i int) { jobs[i]() })
	c.Finish("engine S in lock-step over a product of implementations: the straight-line programs of depth <= 2 over {Add, Sub, Neg, Mul(s in S(q)), Mul(s,nil), Base, Null, Hash(m)} on the seed pool {O, B, s*B} are executed on every implementation of the same mathematical object and every resulting encoding is compared: Ed25519 constant-time, Ed25519 with AllowVarTime, edwards25519vartime pairwise and each against an affine math/big Edwards model (also P-256, bn256.G1, bn254.G1 against an affine Weierstrass model); kilic, circl, gnark pairwise on G1, G2, GT, scalars, hash-to-curve outputs, pairings e(aB1,bB2) for a,b in a 6-element core, and BLS signatures on both groups; Ed25519 base multiplication against crypto/ed25519 key derivation for 24 seeds; the clamped, unreduced private scalars of the key generator (64 seeds) as multipliers of the generator and of three explicit points, constant-time = AllowVarTime = model; Pick on the three Ed25519 implementations under streams whose first usable candidate encodes a small-order point; hash-to-curve under caller-supplied tags, kilic (hashing on fresh points, clones, clones of clones, Set results) = circl = gnark. "+
		"Build variants: the same transcript program (all groups of the registry, pairings, hashes, BLS signatures) is produced by the binaries built with no tag, -tags generic and -tags constantTime and compared line by line on the lines both configurations contain. "+
		"non-trivial = expressions with a scalar outside {0,1}; distinct by (family, expression)",
		[]string{"base points of the BN curves are the conventional (1,-2)/(1,2); Ed25519 base y=4/5", "agreement of decoders on hostile bytes is C04's subject, not demanded here", "arm64 assembly is not present in this sandbox"},
		nil)
}

func runRef(c *vf.Check, gn string, lvl int) {
	pk := "C18/reference/" + gn
	g := groups.ByName(gn)
	enc := refEncoder(g)
	id := gn + " vs arbitrary-precision reference"
	c.Case(id, pk, func(x *vf.Ctx) {
		ex, err := evaluate(g, lvl, false)
		if err != nil {
			x.Failf(pk+"/panic", "%s: %v", id, err)
			return
		}
		n := 0
		for _, e := range ex {
			if e.K == nil {
				continue
			}
			n++
			c.Eval(1)
			want := enc(e.K)
			if !bytes.Equal(e.Enc, want) {
				x.Failf(pk+"/"+opOf(e.Name), "%s: %s encodes %x.., the reference model gives %x.. for %s*B", gn, e.Name, head(e.Enc), head(want), e.K)
				return
			}
			if e.K.Cmp(big.NewInt(1)) > 0 {
				c.Nontrivial(gn + "|" + e.Name)
			}
		}
		c.Count("programs", int64(n))
		c.Count("states", int64(n))
		c.Count("traces_validated_against_impl", int64(n))
		c.Count("disagreements_checked", int64(n))
		c.Class("reference/"+gn, func() any { return fmt.Sprintf("%d expressions", n) })
	})
	c.Count("transitions", 1)
}

func opOf(name string) string {
	if i := strings.IndexByte(name, '('); i > 0 {
		return name[:i]
	}
	return name
}

func head(b []byte) []byte {
	if len(b) > 12 {
		return b[:12]
	}
	return b
}

func runCross(c *vf.Check, names []string, lvl int, hash bool) {
	pk := "C18/cross/" + strings.Join(names, "=")
	id := strings.Join(names, " = ")
	c.Case(id, pk, func(x *vf.Ctx) {
		var all [][]expr
		for _, n := range names {
			ex, err := evaluate(groups.ByName(n), lvl, hash)
			if err != nil {
				x.Failf(pk+"/panic", "%s: %v", n, err)
				return
			}
			all = append(all, ex)
		}
		base := map[string][]byte{}
		for _, e := range all[0] {
			base[e.Name] = e.Enc
		}
		for i := 1; i < len(all); i++ {
			common := 0
			for _, e := range all[i] {
				want, ok := base[e.Name]
				if !ok || strings.HasPrefix(e.Name, "variant-only:") {
					continue // slow implementations evaluate a smaller alphabet
				}
				common++
				c.Eval(1)
				if !bytes.Equal(want, e.Enc) {
					x.Failf(pk+"/"+opOf(e.Name), "%s: %s gives %x.., %s gives %x..", e.Name, names[0], head(want), names[i], head(e.Enc))
					return
				}
			}
			if common < 200 {
				c.Broken("%s and %s share only %d expressions", names[0], names[i], common)
			}
		}
		for _, e := range all[0] {
			c.Nontrivial(id + "|" + e.Name)
		}
		c.Count("programs", int64(len(all[0])))
		c.Count("states", int64(len(all[0])))
		c.Count("traces_validated_against_impl", int64(len(all[0])*(len(all)-1)))
		c.Count("disagreements_checked", int64(len(all[0])*(len(all)-1)))
		c.Class("cross/"+names[0], func() any { return fmt.Sprintf("%d expressions x %d implementations", len(all[0]), len(all)) })
	})
	c.Count("transitions", 1)
}

// pairLines: pairings and BLS signatures of one suite as named lines.
func pairLines(ps groups.PS) (out []expr, err error) {
	defer func() {
		if r := recover(); r != nil {
			err = fmt.Errorf("panic: %v", r)
		}
	}()
	g1, g2 := groups.ByName(ps.Name+".G1"), groups.ByName(ps.Name+".G2")
	core := alpha.Scalars(g1.Order, 0)[:6]
	for _, a := range core {
		for _, b := range core {
			p := g1.Point().Mul(alpha.ToScalar(g1.Scalar(), a.V, g1.Order), nil)
			q := g2.Point().Mul(alpha.ToScalar(g2.Scalar(), b.V, g2.Order), nil)
			e, _ := ps.Suite.Pair(p, q).MarshalBinary()
			out = append(out, expr{Name: fmt.Sprintf("Pair(%s*B1,%s*B2)", a.Name, b.Name), Enc: e})
		}
	}
	for _, on := range []string{"G1", "G2"} {
		if on == "G2" && !g2.Hash {
			continue
		}
		sch := bls.NewSchemeOnG1(ps.Suite)
		kg := g2
		if on == "G2" {
			sch, kg = bls.NewSchemeOnG2(ps.Suite), g1
		}
		for _, k := range core[1:5] {
			for mi, m := range [][]byte{{}, []byte("c18 message"), bytes.Repeat([]byte{7}, 200)} {
				sig, err := sch.Sign(alpha.ToScalar(kg.Scalar(), k.V, kg.Order), m)
				if err != nil {
					return nil, err
				}
				out = append(out, expr{Name: fmt.Sprintf("bls.Sign-on-%s(key=%s,msg#%d)", on, k.Name, mi), Enc: sig})
			}
		}
	}
	return out, nil
}

func runPairBLS(c *vf.Check) {
	pk := "C18/cross/bls12381-pairing-and-signatures"
	c.Case("kilic = circl = gnark: pairings and BLS signatures", pk, func(x *vf.Ctx) {
		var all [][]expr
		var names []string
		for _, ps := range groups.PairingSuites() {
			if ps.Name == "bn256" || ps.Name == "bn254" {
				continue
			}
			l, err := pairLines(ps)
			if err != nil {
				x.Failf(pk+"/panic", "%s: %v", ps.Name, err)
				return
			}
			all, names = append(all, l), append(names, ps.Name)
		}
		for i := 1; i < len(all); i++ {
			for j := range all[0] {
				c.Eval(1)
				if !bytes.Equal(all[0][j].Enc, all[i][j].Enc) {
					x.Failf(pk+"/"+opOf(all[0][j].Name), "%s: %s gives %x.., %s gives %x..", all[0][j].Name, names[0], head(all[0][j].Enc), names[i], head(all[i][j].Enc))
					return
				}
			}
		}
		for _, e := range all[0] {
			c.Nontrivial("bls|" + e.Name)
		}
		c.Count("programs", int64(len(all[0])))
		c.Count("disagreements_checked", int64(len(all[0])*(len(all)-1)))
	})
	c.Count("transitions", 1)
}

func runStdlib(c *vf.Check) {
	pk := "C18/stdlib-ed25519"
	for _, gn := range []string{"ed25519", "ed25519-vt", "ed25519vartime"} {
		gn := gn
		c.Case(gn+" base multiplication vs crypto/ed25519 key derivation", pk, func(x *vf.Ctx) {
			g := groups.ByName(gn)
			for i := 0; i < 24; i++ {
				seed := alpha.Bytes(fmt.Sprintf("c18-seed-%d", i), 32)
				if i == 0 {
					seed = make([]byte, 32)
				}
				if i == 1 {
					seed = bytes.Repeat([]byte{0xff}, 32)
				}
				h := sha512.Sum512(seed)
				h[0] &= 248
				h[31] &= 127
				h[31] |= 64
				k := new(big.Int)
				for j := 31; j >= 0; j-- {
					k.Lsh(k, 8).Or(k, big.NewInt(int64(h[j])))
				}
				s := alpha.ToScalar(g.Scalar(), k, g.Order)
				got, _ := g.Point().Mul(s, nil).MarshalBinary()
				want := ed25519.NewKeyFromSeed(seed).Public().(ed25519.PublicKey)
				c.Eval(1)
				if !bytes.Equal(got, want) {
					x.Failf(pk+"/"+gn, "%s: clamp(SHA-512(seed))*B = %x, crypto/ed25519 public key %x (seed #%d)", gn, got, []byte(want), i)
					return
				}
				c.Nontrivial(fmt.Sprintf("%s|seed%d", gn, i))
			}
		})
		c.Count("transitions", 1)
	}
}

// Transcript writes one line per value computed by the deterministic program, for this build configuration.
func Transcript(path string) error {
	f, err := os.Create(path)
	if err != nil {
		return err
	}
	defer f.Close()
	w := bufio.NewWriter(f)
	defer w.Flush()
	for _, g := range groups.All() {
		ex, err := evaluate(g, 0, true)
		if err != nil {
			fmt.Fprintf(w, "%s|ERROR|%v\n", g.Name, err)
			continue
		}
		for _, e := range ex {
			fmt.Fprintf(w, "%s|%s|%s\n", g.Name, e.Name, hex.EncodeToString(e.Enc))
		}
	}
	// families of Pick streams and hashed messages, one digest per block of 100: the rare candidate shapes
	// (x >= p, rejected candidates, coordinates with leading zeros) must be handled identically by every build
	for _, g := range groups.All() {
		fam := func(kind string, n int, f func(i int) (kyber.Point, bool)) {
			for blk := 0; blk < n; blk += 100 {
				h := sha256.New()
				for i := blk; i < blk+100 && i < n; i++ {
					var line string
					func() {
						defer func() {
							if r := recover(); r != nil {
								line = fmt.Sprintf("panic: %v", r)
							}
						}()
						p, ok := f(i)
						if !ok {
							line = "unsupported"
							return
						}
						b, err := p.MarshalBinary()
						line = fmt.Sprintf("%x %v", b, err)
					}()
					h.Write([]byte(line + "\n"))
				}
				fmt.Fprintf(w, "%s|%s family [%d,%d)|%x\n", g.Name, kind, blk, blk+100, h.Sum(nil)[:16])
			}
		}
		n := 1500
		if g.Slow || g.Kind == "G2" || g.Kind == "GT" {
			n = 200
		}
		if g.Pick {
			fam("Pick", n, func(i int) (kyber.Point, bool) {
				return g.Point().Pick(alpha.Stream(fmt.Sprintf("c18-pick-family-%d", i))), true
			})
		}
		if g.Pick {
			// candidates at the top of the coordinate range: 0xff.. prefixes with one varying byte at either end
			L := g.Group.PointLen()
			if L > 64 {
				L = 64
			}
			fam("Pick(0xff-prefix)", 512, func(i int) (kyber.Point, bool) {
				pre := bytes.Repeat([]byte{0xff}, L)
				if i < 256 {
					pre[0] = byte(i)
				} else {
					pre[L-1] = byte(i - 256)
				}
				return g.Point().Pick(&alpha.PrefixStream{Prefix: pre, Next: alpha.Stream(fmt.Sprintf("c18-pick-ff-%d", i))}), true
			})
		}
		if hp, ok := g.Point().(kyber.HashablePoint); ok {
			_ = hp
			fam("Hash", n, func(i int) (kyber.Point, bool) {
				return g.Point().(kyber.HashablePoint).Hash([]byte(fmt.Sprintf("message %d", i))), true
			})
		}
	}
	// coordinates encoded as v+p (where that still fits the coordinate width): whatever a build does with such an
	// encoding - reject it, or decode it to the point with coordinate v - every build must do the same
	for _, e := range []struct {
		name string
		p    *big.Int
	}{{"bn256.G1", curves.BN256P}, {"bn256.G2", curves.BN256P}, {"bn254.G1", curves.BN254P}, {"bn254.G2", curves.BN254P}, {"p256", curves.P256P}} {
		g := groups.ByName(e.name)
		if g == nil {
			continue
		}
		n := 1200
		if g.Kind == "G2" {
			n = 300
		}
		for blk := 1; blk <= n; blk += 100 {
			h := sha256.New()
			for k := blk; k < blk+100 && k <= n; k++ {
				P := g.Point().Mul(g.Scalar().SetInt64(int64(k)), nil)
				b, _ := P.MarshalBinary()
				off := 0
				if e.name == "p256" {
					off = 1
				}
				cw := 32
				for c0 := off; c0+cw <= len(b); c0 += cw {
					v := new(big.Int).SetBytes(b[c0 : c0+cw])
					v.Add(v, e.p)
					if v.BitLen() > 8*cw {
						continue
					}
					enc := append([]byte{}, b...)
					v.FillBytes(enc[c0 : c0+cw])
					var line string
					func() {
						defer func() {
							if r := recover(); r != nil {
								line = fmt.Sprintf("panic: %v", r)
							}
						}()
						Q := g.Point()
						if err := Q.UnmarshalBinary(enc); err != nil {
							line = "rejected"
							return
						}
						o, _ := Q.MarshalBinary()
						line = fmt.Sprintf("%x", o)
					}()
					h.Write([]byte(line + "\n"))
				}
			}
			fmt.Fprintf(w, "%s|coordinates encoded as v+p, k in [%d,%d)|%x\n", e.name, blk, blk+100, h.Sum(nil)[:16])
		}
	}
	for _, l := range modIntEndianLines() {
		fmt.Fprintf(w, "mod.Int|%s|%x\n", l.name, l.enc)
	}
	for _, ps := range groups.PairingSuites() {
		l, err := pairLines(ps)
		if err != nil {
			fmt.Fprintf(w, "%s|ERROR|%v\n", ps.Name, err)
			continue
		}
		for _, e := range l {
			fmt.Fprintf(w, "%s|%s|%s\n", ps.Name, e.Name, hex.EncodeToString(e.Enc))
		}
	}
	return nil
}

func readTranscript(path string) (map[string]string, error) {
	b, err := os.ReadFile(path)
	if err != nil {
		return nil, err
	}
	m := map[string]string{}
	for _, l := range strings.Split(string(b), "\n") {
		if i := strings.LastIndexByte(l, '|'); i > 0 {
			m[l[:i]] = l[i+1:]
		}
	}
	return m, nil
}

// runVariant compares this binary's transcript with the one of a sibling binary built with other tags.
func runVariant(c *vf.Check, variant string) {
	pk := "C18/build-variant/" + variant
	c.Case("transcript default vs "+variant, pk, func(x *vf.Ctx) {
		bin := os.Getenv("VERIF_BIN_" + strings.ToUpper(variant))
		if bin == "" {
			c.Broken("VERIF_BIN_%s is not set: the driver must build the %s variant", strings.ToUpper(variant), variant)
			return
		}
		dir, err := os.MkdirTemp(vf.Out(), ".transcript-")
		if err != nil {
			c.Broken("temp dir: %v", err)
			return
		}
		defer os.RemoveAll(dir)
		if err := Transcript(dir + "/default.txt"); err != nil {
			c.Broken("transcript: %v", err)
			return
		}
		cmd := exec.Command(bin, "transcript", dir+"/other.txt")
		if out, err := cmd.CombinedOutput(); err != nil {
			x.Failf(pk+"/crash", "the %s build fails to produce its transcript: %v %s", variant, err, string(out))
			return
		}
		a, err1 := readTranscript(dir + "/default.txt")
		b, err2 := readTranscript(dir + "/other.txt")
		if err1 != nil || err2 != nil {
			c.Broken("reading transcripts: %v %v", err1, err2)
			return
		}
		common := 0
		for k, v := range a {
			if strings.Contains(k, "|ERROR") {
				x.Failf(pk+"/error-line", "default build: %s %s", k, v)
			}
			w, ok := b[k]
			if !ok {
				continue
			}
			common++
			c.Eval(1)
			if v != w {
				x.Failf(pk+"/"+strings.SplitN(k, "|", 2)[0], "line %q: default build %s.., %s build %s..", k, v[:min(24, len(v))], variant, w[:min(24, len(w))])
				return
			}
			c.Nontrivial(variant + "|" + k)
		}
		for k, v := range b {
			if strings.Contains(k, "|ERROR") {
				x.Failf(pk+"/error-line", "%s build: %s %s", variant, k, v)
			}
		}
		if common < 500 {
			c.Broken("only %d common transcript lines between default and %s", common, variant)
		}
		c.Count("programs", int64(common))
		c.Count("disagreements_checked", int64(common))
		c.Class("build-variant/"+variant, func() any { return fmt.Sprintf("%d common lines of %d/%d", common, len(a), len(b)) })
	})
	c.Count("transitions", 1)
	c.Count("states", 1)
	var _ kyber.Point
}
