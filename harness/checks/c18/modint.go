package c18

import (
	"bytes"
	"fmt"
	"math/big"

	"go.dedis.ch/kyber/v4/compatible/compatiblemod"
	"go.dedis.ch/kyber/v4/group/mod"
	"verif/harness/groups"
	"verif/harness/vf"
)

type modIntLine struct {
	name string
	enc  []byte
	want []byte
}

// modIntEndianLines: mod.Int's explicit-width encoders BigEndian(min,max) / LittleEndian(min,max) on values shorter
// than the modulus (leading zero bytes) - part of the build-variant transcript, and compared here with math/big.
func modIntEndianLines() []modIntLine {
	var out []modIntLine
	mods := []struct {
		name string
		q    *big.Int
	}{{"1000003", big.NewInt(1000003)}, {"P256 N", groups.OrderP256}, {"ed25519 l", groups.OrderEd25519}}
	for _, m := range mods {
		cm := compatiblemod.FromBigInt(new(big.Int).Set(m.q))
		ml := (m.q.BitLen() + 7) / 8
		vals := []*big.Int{big.NewInt(0), big.NewInt(5), big.NewInt(70000), new(big.Int).Sub(m.q, big.NewInt(1))}
		if m.q.BitLen() > 70 {
			vals = append(vals, new(big.Int).Add(new(big.Int).Lsh(big.NewInt(1), 64), big.NewInt(1)))
		}
		for _, v := range vals {
			i := mod.NewInt64(0, cm)
			be := v.FillBytes(make([]byte, ml))
			i.SetBytes(be) // big-endian is the default byte order of a new Int
			for _, min := range []int{0, ml, ml + 3} {
				w := ml
				if min > w {
					w = min
				}
				wantBE := v.FillBytes(make([]byte, w))
				out = append(out, modIntLine{fmt.Sprintf("mod.Int(%s) value %s BigEndian(%d,0)", m.name, v.String(), min), i.BigEndian(min, 0), wantBE})
			}
		}
	}
	return out
}

func runModIntEndian(c *vf.Check) {
	pk := "C18/mod.Int-endian"
	c.Case("mod.Int BigEndian(min,max) against math/big", pk, func(x *vf.Ctx) {
		for _, l := range modIntEndianLines() {
			c.Eval(1)
			if !bytes.Equal(l.enc, l.want) {
				x.Failf(pk+"/BigEndian", "%s = %x, the big-endian encoding of the value in that width is %x", l.name, l.enc, l.want)
				return
			}
			c.Nontrivial(l.name)
		}
	})
	c.Count("transitions", 1)
}
