// Package c02: every scalar implementation is Z_q. Depth-2 closure of the
// scalar operations over a boundary alphabet, every SetBytes length 0..96,
// SetInt64 boundaries and Pick streams, against math/big.
package c02

import (
	"bytes"
	"crypto/cipher"
	"fmt"
	"math/big"

	"go.dedis.ch/kyber/v4"
	"go.dedis.ch/kyber/v4/compatible/compatiblemod"
	"go.dedis.ch/kyber/v4/group/mod"
	"verif/harness/alpha"
	"verif/harness/groups"
	"verif/harness/vf"
)

type impl struct {
	name string
	mk   func() kyber.Scalar
	q    *big.Int
	slen int // advertised ScalarLen (0: not a group scalar)
}

func impls() []impl {
	var out []impl
	seen := map[string]bool{}
	for _, g := range groups.All() {
		g := g
		k := fmt.Sprintf("%T/%s", g.Scalar(), g.Order.String())
		if g.Name == "ed25519vartime" {
			k += "/vt"
		}
		if seen[k] {
			continue
		}
		seen[k] = true
		out = append(out, impl{g.Name + ".Scalar", g.Scalar, g.Order, g.Group.ScalarLen()})
	}
	mk := func(name string, q *big.Int, bo kyber.ByteOrder) {
		m := compatiblemod.FromBigInt(new(big.Int).Set(q))
		out = append(out, impl{name, func() kyber.Scalar {
			i := mod.NewInt64(0, m)
			i.BO = bo
			return i
		}, q, 0})
	}
	mk("mod.Int(ed25519 l,LE)", groups.OrderEd25519, kyber.LittleEndian)
	mk("mod.Int(ed25519 l,BE)", groups.OrderEd25519, kyber.BigEndian)
	mk("mod.Int(P256 N,LE)", groups.OrderP256, kyber.LittleEndian)
	mk("mod.Int(QR512 q,LE)", groups.OrderQR512, kyber.LittleEndian)
	mk("mod.Int(BN254 r,BE)", groups.OrderBN254, kyber.BigEndian)
	mk("mod.Int(BLS r,LE)", groups.OrderBLS, kyber.LittleEndian)
	mk("mod.Int(2^61-1,BE)", new(big.Int).Sub(new(big.Int).Lsh(big.NewInt(1), 61), big.NewInt(1)), kyber.BigEndian)
	mk("mod.Int(65537,LE)", big.NewInt(65537), kyber.LittleEndian)
	return out
}

func Run(c *vf.Check) {
	c.Level = "model_checking"
	is := impls()
	vf.Parallel(len(is), func(i int) { runImpl(c, is[i]); runForeignReceivers(c, is[i]) })
	c.Finish("engine S: per scalar implementation, V = S(q) + limb/word boundary values; all Add/Sub/Mul/Div on VxV, Neg/Inv on V, then every level-1 result (kept as the implementation object, not re-encoded) fed back as either operand of every operation against the core alphabet (depth-2 closure); "+
		"Equal<=>residue equality on all pairs of a pool mixing decoded and computed forms; SetBytes for every length 0..96 x 12 patterns; SetInt64 boundaries; Zero/One; Pick under constant/counter/seeded/rejection-forcing streams with a recording stream (same drawn bytes => same value, whatever the receiver held). "+
		"mod.Int: every operation into a target that is the zero value of mod.Int or was last used modulo another number, the target then used as receiver and first operand (the documented rule: the target receives the modulus of the first operand). "+
		"non-trivial = both operands outside {0,1} (ops), input length not in {0} and value >= q or shorter than the modulus (SetBytes); distinct by (implementation, op, operand names)",
		[]string{"operand values reach the implementation through UnmarshalBinary of canonical fixed-length encodings", "math/big is the reference",
			"build variant: " + groups.Variant + " (mod.Int over bigmod is exercised by the constantTime binary, see coverage.variants)"},
		map[string]any{"variant": groups.Variant})
}

type sv struct {
	name string
	s    kyber.Scalar
	v    *big.Int
}

func val(x *vf.Ctx, key string, im impl, s kyber.Scalar) *big.Int {
	b, err := s.MarshalBinary()
	if err != nil {
		x.Failf(key, "MarshalBinary error: %v", err)
		return nil
	}
	if len(b) != s.MarshalSize() || (im.slen != 0 && len(b) != im.slen) {
		x.Failf(key+"/len", "encoding has %d bytes, MarshalSize=%d ScalarLen=%d", len(b), s.MarshalSize(), im.slen)
		return nil
	}
	if s.ByteOrder() == kyber.LittleEndian {
		r := make([]byte, len(b))
		for i := range b {
			r[len(b)-1-i] = b[i]
		}
		b = r
	}
	return new(big.Int).SetBytes(b)
}

func runImpl(c *vf.Check, im impl) {
	pk := "C02/" + im.name
	q := im.q
	lvl := 1
	if c.Thorough() {
		lvl = 2
	}
	var V []alpha.NS
	V = append(V, alpha.Scalars(q, lvl)...)
	seen := map[string]bool{}
	for _, v := range V {
		seen[v.V.String()] = true
	}
	addV := func(name string, v *big.Int) {
		v = new(big.Int).Mod(v, q)
		if !seen[v.String()] {
			seen[v.String()] = true
			V = append(V, alpha.NS{Name: name, V: v})
		}
	}
	// limb (21-bit) and word (64-bit) boundaries
	for k := uint(21); k < uint(q.BitLen()); k += 21 {
		if lvl < 2 && k%63 != 0 && k != 21 && k != 252 {
			continue
		}
		p := new(big.Int).Lsh(big.NewInt(1), k)
		addV(fmt.Sprintf("2^%d-1", k), new(big.Int).Sub(p, big.NewInt(1)))
		addV(fmt.Sprintf("2^%d", k), p)
	}
	for k := uint(64); k < uint(q.BitLen()); k += 64 {
		p := new(big.Int).Lsh(big.NewInt(1), k)
		addV(fmt.Sprintf("2^%d-1", k), new(big.Int).Sub(p, big.NewInt(1)))
		addV(fmt.Sprintf("2^%d", k), p)
		addV(fmt.Sprintf("q-2^%d", k), new(big.Int).Sub(q, p))
	}
	core := alpha.Scalars(q, 0)
	mkv := func(n alpha.NS) sv { return sv{n.Name, alpha.ToScalar(im.mk(), n.V, q), n.V} }

	type binop struct {
		name string
		f    func(r, a, b kyber.Scalar) kyber.Scalar
		m    func(a, b *big.Int) *big.Int
		nzb  bool
	}
	bin := []binop{
		{"Add", func(r, a, b kyber.Scalar) kyber.Scalar { return r.Add(a, b) }, func(a, b *big.Int) *big.Int { return new(big.Int).Add(a, b) }, false},
		{"Sub", func(r, a, b kyber.Scalar) kyber.Scalar { return r.Sub(a, b) }, func(a, b *big.Int) *big.Int { return new(big.Int).Sub(a, b) }, false},
		{"Mul", func(r, a, b kyber.Scalar) kyber.Scalar { return r.Mul(a, b) }, func(a, b *big.Int) *big.Int { return new(big.Int).Mul(a, b) }, false},
		{"Div", func(r, a, b kyber.Scalar) kyber.Scalar { return r.Div(a, b) }, func(a, b *big.Int) *big.Int {
			return new(big.Int).Mul(a, new(big.Int).ModInverse(b, q))
		}, true},
	}
	type unop struct {
		name string
		f    func(r, a kyber.Scalar) kyber.Scalar
		m    func(a *big.Int) *big.Int
		nz   bool
	}
	un := []unop{
		{"Neg", func(r, a kyber.Scalar) kyber.Scalar { return r.Neg(a) }, func(a *big.Int) *big.Int { return new(big.Int).Neg(a) }, false},
		{"Inv", func(r, a kyber.Scalar) kyber.Scalar { return r.Inv(a) }, func(a *big.Int) *big.Int { return new(big.Int).ModInverse(a, q) }, true},
		{"Set", func(r, a kyber.Scalar) kyber.Scalar { return r.Set(a) }, func(a *big.Int) *big.Int { return a }, false},
	}
	trans := int64(0)
	nt := func(a, b *big.Int) bool { return a.Cmp(big.NewInt(1)) > 0 && (b == nil || b.Cmp(big.NewInt(1)) > 0) }

	doBin := func(op binop, a, b sv) (sv, bool) {
		name := op.name + "(" + a.name + "," + b.name + ")"
		var out sv
		ok := false
		if op.nzb && b.v.Sign() == 0 {
			return out, false
		}
		c.Case(im.name+": "+name, pk+"/"+op.name, func(x *vf.Ctx) {
			r := op.f(im.mk(), a.s, b.s)
			c.Eval(1)
			want := new(big.Int).Mod(op.m(a.v, b.v), q)
			got := val(x, pk+"/"+op.name, im, r)
			if got == nil {
				return
			}
			if got.Cmp(want) != 0 {
				x.Failf(pk+"/"+op.name, "%s = %s, want %s", name, got, want)
				return
			}
			out, ok = sv{name, r, want}, true
		})
		trans++
		if ok && nt(a.v, b.v) {
			c.Nontrivial(im.name + "|" + name)
		}
		return out, ok
	}
	doUn := func(op unop, a sv) (sv, bool) {
		name := op.name + "(" + a.name + ")"
		var out sv
		ok := false
		if op.nz && a.v.Sign() == 0 {
			return out, false
		}
		c.Case(im.name+": "+name, pk+"/"+op.name, func(x *vf.Ctx) {
			r := op.f(im.mk(), a.s)
			c.Eval(1)
			want := new(big.Int).Mod(op.m(a.v), q)
			got := val(x, pk+"/"+op.name, im, r)
			if got == nil {
				return
			}
			if got.Cmp(want) != 0 {
				x.Failf(pk+"/"+op.name, "%s = %s, want %s", name, got, want)
				return
			}
			out, ok = sv{name, r, want}, true
		})
		trans++
		if ok && nt(a.v, nil) {
			c.Nontrivial(im.name + "|" + name)
		}
		return out, ok
	}

	var vals []sv
	okSetup := false
	c.Case(im.name+": alphabet setup", pk+"/setup", func(x *vf.Ctx) {
		vals = nil
		for _, n := range V {
			s := mkv(n)
			if got := val(x, pk+"/decode", im, s.s); got == nil || got.Cmp(n.V) != 0 {
				x.Failf(pk+"/decode", "decode(encode(%s)) = %v", n.Name, got)
				return
			}
			vals = append(vals, s)
		}
		okSetup = true
	})
	if !okSetup {
		return
	}
	coreV := vals[:0:0]
	for _, n := range core {
		coreV = append(coreV, mkv(n))
	}
	// level 1
	var l1 []sv
	for _, a := range vals {
		for _, op := range un {
			if r, ok := doUn(op, a); ok && op.name != "Set" {
				l1 = append(l1, r)
			}
		}
		for _, b := range vals {
			for _, op := range bin {
				r, ok := doBin(op, a, b)
				if ok && inCore(core, a.v) && inCore(core, b.v) {
					l1 = append(l1, r)
				}
			}
		}
	}
	c.Class(im.name+"/level1", func() any { return fmt.Sprintf("|V|=%d level-1 results kept=%d", len(vals), len(l1)) })
	// level 2: computed forms as operands
	for _, r := range l1 {
		for _, op := range un {
			doUn(op, r)
		}
		for _, b := range coreV {
			for _, op := range bin {
				doBin(op, r, b)
				doBin(op, b, r)
			}
		}
		if c.Expired() {
			c.Cap(im.name + ": deadline in level 2")
			break
		}
	}
	// Equal <=> residue equality over a mixed pool
	pool := append([]sv{}, vals...)
	for i := 0; i < len(l1); i += 1 + len(l1)/60 {
		pool = append(pool, l1[i])
	}
	c.Case(im.name+": Equal over pool", pk+"/Equal", func(x *vf.Ctx) {
		for _, a := range pool {
			for _, b := range pool {
				c.Eval(1)
				if a.s.Equal(b.s) != (a.v.Cmp(b.v) == 0) {
					x.Failf(pk+"/Equal", "%s.Equal(%s)=%v, residues %s %s", a.name, b.name, a.s.Equal(b.s), a.v, b.v)
					return
				}
			}
		}
	})
	// Zero / One / SetInt64 on receivers holding junk
	junk := func() kyber.Scalar { return alpha.ToScalar(im.mk(), alpha.Rand("junk", q), q) }
	c.Case(im.name+": Zero/One", pk+"/ZeroOne", func(x *vf.Ctx) {
		if v := val(x, pk+"/Zero", im, junk().Zero()); v == nil || v.Sign() != 0 {
			x.Failf(pk+"/Zero", "Zero() = %v", v)
		}
		if v := val(x, pk+"/One", im, junk().One()); v == nil || v.Cmp(big.NewInt(1)) != 0 {
			x.Failf(pk+"/One", "One() = %v", v)
		}
		c.Eval(2)
	})
	ints := []int64{0, 1, -1, 2, -2, 255, 256, -256, 1 << 31, -(1 << 31), 1<<31 - 1, 1 << 32, -(1 << 32), 1<<32 + 1, 1<<53 + 1, 1<<63 - 1, -(1<<63 - 1), -1 << 63, 1 << 62, -(1 << 62)}
	for _, iv := range ints {
		iv := iv
		c.Case(fmt.Sprintf("%s: SetInt64(%d)", im.name, iv), pk+"/SetInt64", func(x *vf.Ctx) {
			r := junk().SetInt64(iv)
			c.Eval(1)
			want := new(big.Int).Mod(big.NewInt(iv), q)
			if got := val(x, pk+"/SetInt64", im, r); got == nil || got.Cmp(want) != 0 {
				x.Failf(pk+"/SetInt64", "SetInt64(%d) = %v want %s", iv, got, want)
			}
		})
		trans++
		c.Nontrivial(fmt.Sprintf("%s|SetInt64|%d", im.name, iv))
	}
	// receiver is also an operand: r.Op(r,b), r.Op(a,r), r.Op(r,r) over the core values
	for _, a := range coreV {
		for _, b := range coreV {
			for _, op := range bin {
				a, b, op := a, b, op
				if op.nzb && (b.v.Sign() == 0 || a.v.Sign() == 0) {
					continue
				}
				name := op.name + "-aliased(" + a.name + "," + b.name + ")"
				c.Case(im.name+": "+name, pk+"/"+op.name, func(x *vf.Ctx) {
					r1 := mkv(alpha.NS{Name: a.name, V: a.v}).s
					got1 := val(x, pk+"/"+op.name, im, op.f(r1, r1, b.s))
					r2 := mkv(alpha.NS{Name: b.name, V: b.v}).s
					got2 := val(x, pk+"/"+op.name, im, op.f(r2, a.s, r2))
					r3 := mkv(alpha.NS{Name: a.name, V: a.v}).s
					got3 := val(x, pk+"/"+op.name, im, op.f(r3, r3, r3))
					c.Eval(3)
					want := new(big.Int).Mod(op.m(a.v, b.v), q)
					want3 := new(big.Int).Mod(op.m(a.v, a.v), q)
					if got1 == nil || got2 == nil || got3 == nil {
						return
					}
					if got1.Cmp(want) != 0 {
						x.Failf(pk+"/"+op.name, "r.%s(r,b) with r=%s b=%s = %s, want %s", op.name, a.name, b.name, got1, want)
					}
					if got2.Cmp(want) != 0 {
						x.Failf(pk+"/"+op.name, "r.%s(a,r) with a=%s r=%s = %s, want %s", op.name, a.name, b.name, got2, want)
					}
					if got3.Cmp(want3) != 0 {
						x.Failf(pk+"/"+op.name, "r.%s(r,r) with r=%s = %s, want %s", op.name, a.name, got3, want3)
					}
				})
				trans += 3
			}
		}
	}
	// values made by every constructor (fresh, Zero, One, SetInt64, SetBytes of short inputs, Pick, Clone) as
	// operands: internal representations differ from those of decoded values (shorter limb vectors, unreduced bytes)
	var ctor []sv
	okCtor := false
	c.Case(im.name+": constructor-made operands", pk+"/ctor-setup", func(x *vf.Ctx) {
		ctor = nil
		add := func(name string, sc kyber.Scalar) {
			if v := val(x, pk+"/ctor-setup", im, sc); v != nil {
				ctor = append(ctor, sv{name, sc, new(big.Int).Mod(v, q)})
			}
		}
		add("fresh", im.mk())
		add("Zero()", junk().Zero())
		add("One()", junk().One())
		add("fresh.One()", im.mk().One())
		for _, iv := range []int64{0, 1, -1, 5, 1 << 31, 1<<63 - 1, -1 << 63} {
			add(fmt.Sprintf("SetInt64(%d)", iv), junk().SetInt64(iv))
			add(fmt.Sprintf("fresh.SetInt64(%d)", iv), im.mk().SetInt64(iv))
		}
		for _, b := range [][]byte{{}, {1}, {0xff}, {1, 0, 0, 0, 0, 0, 0, 0, 0}, {0, 0, 0, 0, 0, 0, 0, 0, 1}, bytes.Repeat([]byte{0xff}, 8), bytes.Repeat([]byte{0xff}, 16), bytes.Repeat([]byte{0xa5}, 17)} {
			add(fmt.Sprintf("SetBytes(%x)", b), junk().SetBytes(b))
			add(fmt.Sprintf("fresh.SetBytes(%x)", b), im.mk().SetBytes(b))
		}
		add("Pick", im.mk().Pick(alpha.Stream("c02-ctor-pick")))
		add("One().Clone()", im.mk().One().Clone())
		add("Set(One())", junk().Set(im.mk().One()))
		okCtor = !x.Failed()
	})
	if okCtor {
		for _, a := range ctor {
			for _, op := range un {
				doUn(op, a)
			}
			for _, b := range append(append([]sv{}, coreV...), ctor...) {
				for _, op := range bin {
					doBin(op, a, b)
					doBin(op, b, a)
				}
			}
		}
		c.Case(im.name+": Equal with constructor-made values", pk+"/Equal", func(x *vf.Ctx) {
			for _, a := range ctor {
				for _, b := range append(append([]sv{}, pool...), ctor...) {
					c.Eval(2)
					if a.s.Equal(b.s) != (a.v.Cmp(b.v) == 0) {
						x.Failf(pk+"/Equal", "%s.Equal(%s)=%v, residues %s %s", a.name, b.name, a.s.Equal(b.s), a.v, b.v)
						return
					}
					if b.s.Equal(a.s) != (a.v.Cmp(b.v) == 0) {
						x.Failf(pk+"/Equal", "%s.Equal(%s)=%v, residues %s %s", b.name, a.name, b.s.Equal(a.s), b.v, a.v)
						return
					}
				}
			}
		})
	}
	// SetBytes: every length 0..96 x patterns
	bo := im.mk().ByteOrder()
	ql := (q.BitLen() + 7) / 8
	for L := 0; L <= 96; L++ {
		pats := map[string][]byte{
			"zeros": make([]byte, L), "ff": bytes.Repeat([]byte{0xff}, L),
			"r1": alpha.Bytes(fmt.Sprintf("sb1-%d", L), L), "r2": alpha.Bytes(fmt.Sprintf("sb2-%d", L), L),
		}
		if L > 0 {
			a := make([]byte, L)
			a[0] = 1
			pats["01first"] = a
			b := make([]byte, L)
			b[L-1] = 1
			pats["01last"] = b
			d := make([]byte, L)
			d[0] = 0x80
			pats["80first"] = d
			e := make([]byte, L)
			e[L-1] = 0x80
			pats["80last"] = e
		}
		if L >= ql {
			// encodings of q-1, q, q+1, 2q-1 placed in the declared order, zero-padded to L
			for nm, v := range map[string]*big.Int{"q-1": new(big.Int).Sub(q, big.NewInt(1)), "q": q, "q+1": new(big.Int).Add(q, big.NewInt(1)),
				"2q-1": new(big.Int).Sub(new(big.Int).Lsh(q, 1), big.NewInt(1))} {
				if (v.BitLen()+7)/8 > L {
					continue
				}
				be := make([]byte, L)
				v.FillBytes(be)
				if bo == kyber.LittleEndian {
					rev(be)
				}
				pats[nm] = be
			}
		}
		for pn, pb := range pats {
			pn, pb := pn, pb
			id := fmt.Sprintf("%s: SetBytes(len=%d,%s)", im.name, L, pn)
			c.Case(id, pk+"/SetBytes", func(x *vf.Ctx) {
				in := append([]byte{}, pb...)
				r := junk().SetBytes(in)
				c.Eval(1)
				if !bytes.Equal(in, pb) {
					x.Failf(pk+"/SetBytes-mutates-input", "SetBytes changed its argument")
				}
				be := append([]byte{}, pb...)
				if bo == kyber.LittleEndian {
					rev(be)
				}
				want := new(big.Int).Mod(new(big.Int).SetBytes(be), q)
				got := val(x, pk+"/SetBytes", im, r)
				if got == nil || got.Cmp(want) != 0 {
					x.Failf(pk+"/SetBytes", "SetBytes(%x) (len %d) = %v want %s", pb, L, got, want)
				}
			})
			trans++
			if L > 0 {
				c.Nontrivial(id)
			}
		}
	}
	// Pick
	type st struct {
		name string
		mk   func() cipher.Stream
	}
	sts := []st{
		{"zeros", func() cipher.Stream { return alpha.ConstStream(0) }},
		{"counter", func() cipher.Stream { return &alpha.CounterStream{} }},
		{"x1", func() cipher.Stream { return alpha.Stream("pick-x1") }},
		{"x2", func() cipher.Stream { return alpha.Stream("pick-x2") }},
		{"x3", func() cipher.Stream { return alpha.Stream("pick-x3") }},
		{"ff*1+x", func() cipher.Stream {
			return &alpha.PrefixStream{Prefix: bytes.Repeat([]byte{0xff}, ql), Next: alpha.Stream("pick-p1")}
		}},
		{"ff*3+x", func() cipher.Stream {
			return &alpha.PrefixStream{Prefix: bytes.Repeat([]byte{0xff}, 3*ql), Next: alpha.Stream("pick-p3")}
		}},
		{"q+x", func() cipher.Stream {
			return &alpha.PrefixStream{Prefix: beBytes(q, ql), Next: alpha.Stream("pick-q")}
		}},
		{"q,q+1,q-1", func() cipher.Stream {
			p := append(beBytes(q, ql), beBytes(new(big.Int).Add(q, big.NewInt(1)), ql)...)
			p = append(p, beBytes(new(big.Int).Sub(q, big.NewInt(1)), ql)...)
			return &alpha.PrefixStream{Prefix: p, Next: alpha.Stream("pick-qq")}
		}},
		{"ff*5+zeros", func() cipher.Stream {
			return &alpha.PrefixStream{Prefix: bytes.Repeat([]byte{0xff}, 5*ql), Next: alpha.ConstStream(0)}
		}},
	}
	for _, s := range sts {
		s := s
		c.Case(im.name+": Pick("+s.name+")", pk+"/Pick", func(x *vf.Ctx) {
			rec := &alpha.PrefixStream{Next: s.mk()}
			r1 := junk().Pick(rec)
			v1 := val(x, pk+"/Pick", im, r1)
			c.Eval(1)
			if v1 == nil {
				return
			}
			if v1.Cmp(q) >= 0 {
				x.Failf(pk+"/Pick-range", "Pick = %s >= q", v1)
			}
			// same drawn bytes, fresh receiver holding another value
			replay := &alpha.PrefixStream{Prefix: append([]byte{}, rec.Drawn...), Next: alpha.ConstStream(0x55)}
			r2 := im.mk().Zero().Pick(replay)
			v2 := val(x, pk+"/Pick", im, r2)
			if v2 == nil || v1.Cmp(v2) != 0 {
				x.Failf(pk+"/Pick-determinism", "same %d drawn bytes gave %s then %v", len(rec.Drawn), v1, v2)
			}
			if len(replay.Drawn) != len(rec.Drawn) {
				x.Failf(pk+"/Pick-determinism", "replay drew %d bytes, original %d", len(replay.Drawn), len(rec.Drawn))
			}
			if !r1.Equal(r2) {
				x.Failf(pk+"/Pick-determinism", "picked values not Equal")
			}
		})
		trans++
		c.Nontrivial(im.name + "|Pick|" + s.name)
	}
	c.Count("states", int64(len(vals)+len(l1)))
	c.Count("transitions", trans)
	c.Count("traces_validated_against_impl", trans)
	c.Note(fmt.Sprintf("%s: |V|=%d core=%d level1=%d byteorder_LE=%v", im.name, len(vals), len(core), len(l1), bo == kyber.LittleEndian))
}

func inCore(core []alpha.NS, v *big.Int) bool {
	for _, c := range core {
		if c.V.Cmp(v) == 0 {
			return true
		}
	}
	return false
}

func rev(b []byte) {
	for i, j := 0, len(b)-1; i < j; i, j = i+1, j-1 {
		b[i], b[j] = b[j], b[i]
	}
}

func beBytes(v *big.Int, n int) []byte {
	b := make([]byte, n)
	if (v.BitLen()+7)/8 > n {
		return b
	}
	return v.FillBytes(b)
}
