package c02

import (
	"fmt"
	"math/big"
	"strings"

	"go.dedis.ch/kyber/v4"
	"go.dedis.ch/kyber/v4/compatible/compatiblemod"
	"go.dedis.ch/kyber/v4/group/mod"
	"verif/harness/alpha"
	"verif/harness/vf"
)

// runForeignReceivers: mod.Int documents that the target of an operation receives the modulus of the first operand.
// Targets that do not yet belong to the operands' field - the zero value of mod.Int, and an Int last used modulo another
// number - are written by every operation and then used as receiver and first operand of a follow-up operation: all
// results are the operation on integers modulo the operands' modulus.
func runForeignReceivers(c *vf.Check, im impl) {
	if !strings.HasPrefix(im.name, "mod.Int(") {
		return
	}
	pk := "C02/" + im.name
	q := im.q
	other := compatiblemod.FromBigInt(big.NewInt(1000003))
	a0 := alpha.Rand("c02-foreign-a", q)
	b0 := alpha.Rand("c02-foreign-b", q)
	if a0.Sign() == 0 || b0.Sign() == 0 {
		return
	}
	type op struct {
		name string
		f    func(r, a, b kyber.Scalar)
		m    func(a, b *big.Int) *big.Int
	}
	md := func(v *big.Int) *big.Int { return new(big.Int).Mod(v, q) }
	ops := []op{
		{"Add", func(r, a, b kyber.Scalar) { r.Add(a, b) }, func(a, b *big.Int) *big.Int { return md(new(big.Int).Add(a, b)) }},
		{"Sub", func(r, a, b kyber.Scalar) { r.Sub(a, b) }, func(a, b *big.Int) *big.Int { return md(new(big.Int).Sub(a, b)) }},
		{"Mul", func(r, a, b kyber.Scalar) { r.Mul(a, b) }, func(a, b *big.Int) *big.Int { return md(new(big.Int).Mul(a, b)) }},
		{"Div", func(r, a, b kyber.Scalar) { r.Div(a, b) }, func(a, b *big.Int) *big.Int {
			return md(new(big.Int).Mul(a, new(big.Int).ModInverse(b, q)))
		}},
		{"Neg", func(r, a, b kyber.Scalar) { r.Neg(a) }, func(a, b *big.Int) *big.Int { return md(new(big.Int).Neg(a)) }},
		{"Inv", func(r, a, b kyber.Scalar) { r.Inv(a) }, func(a, b *big.Int) *big.Int { return new(big.Int).ModInverse(a, q) }},
		{"Set", func(r, a, b kyber.Scalar) { r.Set(a) }, func(a, b *big.Int) *big.Int { return md(a) }},
	}
	targets := []struct {
		name string
		mk   func() kyber.Scalar
	}{
		{"the zero value of mod.Int", func() kyber.Scalar { return new(mod.Int) }},
		{"an Int last used modulo 1000003", func() kyber.Scalar { return mod.NewInt64(77, other) }},
	}
	for _, tg := range targets {
		for _, o := range ops {
			tg, o := tg, o
			id := fmt.Sprintf("%s: %s into %s, then the target as receiver and first operand of Mul and Add", im.name, o.name, tg.name)
			c.Case(id, pk+"/"+o.name, func(x *vf.Ctx) {
				a := alpha.ToScalar(im.mk(), a0, q)
				b := alpha.ToScalar(im.mk(), b0, q)
				r := tg.mk()
				o.f(r, a, b)
				want := o.m(a0, b0)
				c.Eval(3)
				if got := alpha.FromScalar(r); got == nil || got.Cmp(want) != 0 {
					x.Failf(pk+"/"+o.name, "%s: the target holds %v, expected %v", id, got, want)
					return
				}
				r.Mul(r, b)
				want = md(new(big.Int).Mul(want, b0))
				if got := alpha.FromScalar(r); got == nil || got.Cmp(want) != 0 {
					x.Failf(pk+"/"+o.name+"/target-modulus", "%s: after the follow-up r.Mul(r,b) the target holds %v, expected %v (not reduced by the operands' modulus)", id, got, want)
					return
				}
				r.Add(r, a)
				want = md(new(big.Int).Add(want, a0))
				if got := alpha.FromScalar(r); got == nil || got.Cmp(want) != 0 {
					x.Failf(pk+"/"+o.name+"/target-modulus", "%s: after the follow-up r.Add(r,a) the target holds %v, expected %v", id, got, want)
				}
			})
			c.Count("transitions", 3)
			c.Nontrivial(id)
		}
	}
}
