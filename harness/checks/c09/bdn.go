package c09

import (
	"bytes"
	"fmt"

	"go.dedis.ch/kyber/v4"
	"go.dedis.ch/kyber/v4/sign/bdn"
	"verif/harness/vf"
)

type route struct {
	name  string
	build func() (*bdn.Mask, error)
}

func runBDN(c *vf.Check, k combo, n int) {
	pk := "C09/bdn/" + k.name()
	var sch *bdn.Scheme
	if k.on == "G1" {
		sch = bdn.NewSchemeOnG1(k.ps.Suite)
	} else {
		sch = bdn.NewSchemeOnG2(k.ps.Suite)
	}
	msg := []byte("c09 bdn message")
	var privs []kyber.Scalar
	var pubs []kyber.Point
	var sigs [][]byte
	ok := false
	cfg := fmt.Sprintf("bdn %s n=%d", k.name(), n)
	c.Case(cfg+": setup", pk+"/setup", func(x *vf.Ctx) {
		privs, pubs, sigs = nil, nil, nil
		for i := 0; i < n; i++ {
			s, p := keyOf(k, fmt.Sprintf("bdn-%d", i), 0)
			privs, pubs = append(privs, s), append(pubs, p)
			sg, err := sch.Sign(s, msg)
			if err != nil {
				x.Failf(pk+"/sign", "Sign: %v", err)
				return
			}
			sigs = append(sigs, sg)
		}
		ok = true
	})
	if !ok {
		return
	}
	bits := func(mask int) []int {
		var b []int
		for i := 0; i < n; i++ {
			if mask>>i&1 == 1 {
				b = append(b, i)
			}
		}
		return b
	}
	maskBytes := func(mask int) []byte {
		b := make([]byte, (n+7)/8)
		for _, i := range bits(mask) {
			b[i/8] |= 1 << (i % 8)
		}
		return b
	}
	routesFor := func(mask int) []route {
		set := bits(mask)
		rs := []route{
			{"NewMask(nil)+SetBit", func() (*bdn.Mask, error) {
				m, err := bdn.NewMask(k.key.Group, pubs, nil)
				if err != nil {
					return nil, err
				}
				for _, i := range set {
					if err := m.SetBit(i, true); err != nil {
						return nil, err
					}
				}
				return m, nil
			}},
			{"SetMask(bytes)", func() (*bdn.Mask, error) {
				m, err := bdn.NewMask(k.key.Group, pubs, nil)
				if err != nil {
					return nil, err
				}
				return m, m.SetMask(maskBytes(mask))
			}},
			{"all-then-clear", func() (*bdn.Mask, error) {
				m, err := bdn.NewMask(k.key.Group, pubs, nil)
				if err != nil {
					return nil, err
				}
				for i := 0; i < n; i++ {
					_ = m.SetBit(i, true)
				}
				for i := 0; i < n; i++ {
					if mask>>i&1 == 0 {
						_ = m.SetBit(i, false)
					}
				}
				return m, nil
			}},
			{"Merge(halves)", func() (*bdn.Mask, error) {
				m, err := bdn.NewMask(k.key.Group, pubs, nil)
				if err != nil {
					return nil, err
				}
				lo, hi := make([]byte, (n+7)/8), make([]byte, (n+7)/8)
				for j, i := range set {
					if j%2 == 0 {
						lo[i/8] |= 1 << (i % 8)
					} else {
						hi[i/8] |= 1 << (i % 8)
					}
				}
				if err := m.Merge(lo); err != nil {
					return nil, err
				}
				return m, m.Merge(hi)
			}},
			{"aggregate-then-Merge", func() (*bdn.Mask, error) {
				// use the object once with a smaller mask, then grow it
				m, err := bdn.NewMask(k.key.Group, pubs, nil)
				if err != nil {
					return nil, err
				}
				_ = m.SetBit(set[0], true)
				if _, err := sch.AggregatePublicKeys(m); err != nil {
					return nil, err
				}
				return m, m.Merge(maskBytes(mask))
			}},
			{"Clone-then-edit", func() (*bdn.Mask, error) {
				m, err := bdn.NewMask(k.key.Group, pubs, nil)
				if err != nil {
					return nil, err
				}
				_ = m.SetBit((set[0]+1)%n, true)
				cl := m.Clone()
				_ = cl.SetBit((set[0]+1)%n, false)
				for _, i := range set {
					_ = cl.SetBit(i, true)
				}
				// the original must be untouched by edits of the clone
				if !bytes.Equal(m.Mask(), maskBytes(1<<((set[0]+1)%n))) {
					return nil, fmt.Errorf("editing a Clone changed the original mask")
				}
				return cl, nil
			}},
		}
		rs = append(rs, route{"after-a-Clone-aggregated-everything", func() (*bdn.Mask, error) {
			// the object's clone is used for a full aggregation first (an earlier round with other participants)
			m, err := bdn.NewMask(k.key.Group, pubs, nil)
			if err != nil {
				return nil, err
			}
			cl := m.Clone()
			for i := 0; i < n; i++ {
				_ = cl.SetBit(i, true)
			}
			if _, err := sch.AggregateSignatures(sigs, cl); err != nil {
				return nil, err
			}
			if _, err := sch.AggregatePublicKeys(cl); err != nil {
				return nil, err
			}
			for _, i := range set {
				if err := m.SetBit(i, true); err != nil {
					return nil, err
				}
			}
			return m, nil
		}})
		for _, own := range set {
			own := own
			rs = append(rs, route{fmt.Sprintf("NewMask(own key %d)+SetBit", own), func() (*bdn.Mask, error) {
				m, err := bdn.NewMask(k.key.Group, pubs, pubs[own])
				if err != nil {
					return nil, err
				}
				for _, i := range set {
					if err := m.SetBit(i, true); err != nil {
						return nil, err
					}
				}
				return m, nil
			}})
		}
		return rs
	}
	// reference aggregate keys per mask (first route), for the cross-mask rejection
	refKey := map[int][]byte{}
	var masks []int
	if n <= 5 {
		for mask := 1; mask < 1<<n; mask++ {
			masks = append(masks, mask)
		}
	} else {
		// more signers than one mask byte holds: a menu of masks around the byte boundary
		full := 1<<n - 1
		seen := map[int]bool{}
		for _, m := range []int{1, 1 << 7, 1 << 8 & full, 1 << (n - 1), full, 0xff, full &^ 0xff, 0x155 & full, 0x2aa & full, 0x181 & full, full &^ 1, full &^ (1 << 7), full &^ (1 << (n - 1)), 0x0f0, 0x303 & full} {
			if m != 0 && !seen[m] {
				seen[m] = true
				masks = append(masks, m)
			}
		}
	}
	for _, mask := range masks {
		mask := mask
		c.Case(fmt.Sprintf("%s: reference key of mask %b", cfg, mask), pk+"/AggregatePublicKeys", func(x *vf.Ctx) {
			m, err := routesFor(mask)[0].build()
			if err != nil {
				x.Failf(pk+"/mask", "building mask %b: %v", mask, err)
				return
			}
			ak, err := sch.AggregatePublicKeys(m)
			if err != nil {
				x.Failf(pk+"/AggregatePublicKeys", "mask %b: %v", mask, err)
				return
			}
			refKey[mask] = enc(ak)
		})
	}
	for _, mask := range masks {
		if refKey[mask] == nil {
			continue
		}
		var ss [][]byte
		for _, i := range bits(mask) {
			ss = append(ss, sigs[i])
		}
		for ri, r := range routesFor(mask) {
			mask, ri, r := mask, ri, r
			id := fmt.Sprintf("%s: mask %0*b via %s", cfg, n, mask, r.name)
			c.Case(id, pk+"/route", func(x *vf.Ctx) {
				m, err := r.build()
				if err != nil {
					x.Failf(pk+"/mask-route", "%s: %v", id, err)
					return
				}
				if !bytes.Equal(m.Mask(), maskBytes(mask)) {
					x.Failf(pk+"/mask-route", "%s: Mask() = %x, expected %x", id, m.Mask(), maskBytes(mask))
					return
				}
				if m.CountEnabled() != len(bits(mask)) || len(m.Participants()) != len(bits(mask)) {
					x.Failf(pk+"/mask-count", "%s: CountEnabled=%d Participants=%d", id, m.CountEnabled(), len(m.Participants()))
				}
				ak, err := sch.AggregatePublicKeys(m)
				if err != nil {
					x.Failf(pk+"/AggregatePublicKeys", "%s: %v", id, err)
					return
				}
				as, err := sch.AggregateSignatures(ss, m)
				if err != nil {
					x.Failf(pk+"/AggregateSignatures", "%s: %v", id, err)
					return
				}
				c.Eval(1)
				// the second use of the same mask object gives the same aggregates
				if ak2, err := sch.AggregatePublicKeys(m); err != nil || !bytes.Equal(enc(ak2), enc(ak)) {
					x.Failf(pk+"/aggregate-not-repeatable", "%s: AggregatePublicKeys on the same mask a second time: %v / another key", id, err)
					return
				}
				if as2, err := sch.AggregateSignatures(ss, m); err != nil || !bytes.Equal(enc(as2), enc(as)) {
					x.Failf(pk+"/aggregate-not-repeatable", "%s: AggregateSignatures on the same mask and signatures a second time: %v / another aggregate", id, err)
					return
				}
				if !bytes.Equal(enc(ak), refKey[mask]) {
					x.Failf(pk+"/route-dependent-key", "%s: aggregate key differs from the one of the same mask built with NewMask(nil)+SetBit", id)
					return
				}
				sb := enc(as)
				if err := sch.Verify(ak, msg, sb); err != nil {
					x.Failf(pk+"/aggregate-rejected", "%s: aggregate signature rejected under the aggregate key of its mask: %v", id, err)
					return
				}
				if sch.Verify(ak, []byte("another message"), sb) == nil {
					x.Failf(pk+"/other-message-accepted", "%s: aggregate verifies for another message", id)
				}
				if ri == 0 {
					for other, okb := range refKey {
						if other == mask {
							continue
						}
						ok2 := k.key.Point()
						_ = ok2.UnmarshalBinary(okb)
						c.Eval(1)
						if sch.Verify(ok2, msg, sb) == nil {
							x.Failf(pk+"/other-mask-accepted", "%s: aggregate verifies under the aggregate key of mask %b", id, other)
						}
					}
					// wrong number of signatures
					if len(ss) > 1 {
						if _, err := sch.AggregateSignatures(ss[1:], m); err == nil {
							x.Failf(pk+"/sig-count", "%s: AggregateSignatures accepts fewer signatures than enabled bits", id)
						}
					}
					if _, err := sch.AggregateSignatures(append(append([][]byte{}, ss...), ss[0]), m); err == nil {
						x.Failf(pk+"/sig-count", "%s: AggregateSignatures accepts more signatures than enabled bits", id)
					}
				}
			})
			c.Count("transitions", 1)
			c.Class("bdn/"+k.name(), func() any { return id })
			if len(bits(mask)) > 1 {
				c.Nontrivial(id)
			}
		}
	}
	c.Count("states", int64(len(masks)))
	_ = privs
}
