// Package c09: BLS, threshold BLS, BDN and CoSi verify iff honestly formed.
package c09

import (
	"bytes"
	"fmt"
	"math/big"

	"go.dedis.ch/kyber/v4"
	"go.dedis.ch/kyber/v4/share"
	"go.dedis.ch/kyber/v4/sign"
	"go.dedis.ch/kyber/v4/sign/bls"
	"go.dedis.ch/kyber/v4/sign/tbls"
	"verif/harness/alpha"
	"verif/harness/groups"
	"verif/harness/vf"
)

type combo struct {
	ps  groups.PS
	on  string // signature group
	sig *groups.G
	key *groups.G
}

func (k combo) name() string { return k.ps.Name + "/sig-on-" + k.on }

func combos() []combo {
	var out []combo
	for _, ps := range groups.PairingSuites() {
		g1, g2 := groups.ByName(ps.Name+".G1"), groups.ByName(ps.Name+".G2")
		out = append(out, combo{ps, "G1", g1, g2})
		if g2.Hash {
			out = append(out, combo{ps, "G2", g2, g1})
		}
	}
	return out
}

func (k combo) bls() sign.Scheme {
	if k.on == "G1" {
		return bls.NewSchemeOnG1(k.ps.Suite)
	}
	return bls.NewSchemeOnG2(k.ps.Suite)
}
func (k combo) tbls() sign.ThresholdScheme {
	if k.on == "G1" {
		return tbls.NewThresholdSchemeOnG1(k.ps.Suite)
	}
	return tbls.NewThresholdSchemeOnG2(k.ps.Suite)
}

func Run(c *vf.Check) {
	c.Level = "model_checking"
	var jobs []func()
	cs := combos()
	for _, k := range cs {
		k := k
		jobs = append(jobs, func() { runBLS(c, k) })
		maxN := 3
		if c.Thorough() || k.name() == "bn256/sig-on-G1" || k.name() == "gnark/sig-on-G2" {
			maxN = 4
		}
		if c.Thorough() && (k.ps.Name == "bn256" || k.ps.Name == "gnark") {
			maxN = 5
		}
		for n := 2; n <= maxN; n++ {
			for t := 2; t <= n; t++ {
				t, n := t, n
				jobs = append(jobs, func() { runTBLS(c, k, t, n, false) })
			}
		}
		// larger committees (the statement quantifies n up to 8): a reduced menu
		if c.Thorough() || k.name() == "bn256/sig-on-G1" {
			for _, n := range []int{6, 8} {
				for t := 2; t <= n; t++ {
					if !c.Thorough() && !(t == 2 || t == n/2+1 || t == n) {
						continue
					}
					t, n := t, n
					jobs = append(jobs, func() { runTBLS(c, k, t, n, true) })
				}
			}
		}
		bn := 3
		if c.Thorough() || k.ps.Name == "bn256" {
			bn = 4
		}
		if c.Thorough() && k.ps.Name == "bn256" {
			bn = 5
		}
		for n := 1; n <= bn; n++ {
			n := n
			jobs = append(jobs, func() { runBDN(c, k, n) })
		}
		if c.Thorough() || k.name() == "bn256/sig-on-G1" {
			jobs = append(jobs, func() { runBDN(c, k, 9) }, func() { runBDN(c, k, 10) })
		}
	}
	for n := 1; n <= 4; n++ {
		n := n
		jobs = append(jobs, func() { runCoSi(c, n) })
	}
	jobs = append(jobs, func() { runCoSiMaskSeq(c) })
	vf.Parallel(len(jobs), func(i int) { jobs[i]() })
	c.Finish("engine E (+S for mask objects): BLS on the 8 supported (suite, signature group) combinations: keys {1,r1,r2} x messages {empty, 1 byte, 300 bytes}: verifies; other message/key, sigma+B, -sigma, 2*sigma, identity, one bit per byte flipped -> rejected. "+
		"Threshold BLS: all (t,n), 2<=t<=n<=3 (4 for bn256-G1 and gnark-G2; thorough 4-5; and n in {6,8} with t in {2,n/2+1,n} on bn256-G1 - thorough: every t, every combination - on a reduced menu: every subset of size t, the full list, the subsets of size t-1 touching either end, sorted and reversed, {duplicate, bit flip, wrong index} at the front, the middle and the end): every subset of the valid partials with >= t-1 members in all orders (n<=3) or sorted/reversed, with none or one injected item from {duplicate of the first/last, bit-flipped partial, valid signature under another signer's index, partial on another message, 1-byte garbage, empty, index >= n} at every position: Recover returns exactly bls.Sign(secret,msg) and VerifyRecovered accepts iff >= t distinct valid partials are present, else an error. Forging strategy: for every index set of size t, two partials replaced by an invalid pair whose errors cancel in the interpolation (S_a+D, S_b-(l_a/l_b)D) - alone, followed by the genuine two, behind garbage and a duplicate: refused iff fewer than t valid partials are listed. "+
		"BDN: n <= 3 (4 for bn256) signers, all non-empty masks (and 9 and 10 signers - two mask bytes - on bn256-G1, thorough on every combination, with a menu of 15 masks around the byte boundary), each built through {NewMask(nil)+SetBit, NewMask(own key k)+SetBit for every k in the mask, SetMask(bytes), Merge of two halves, Clone then edited, after a Clone with every bit set has aggregated}; both aggregations run twice on the same mask object with identical results: aggregate key bytes equal across routes; aggregate signature verifies under it, fails under every other mask's key and another message. "+
		"CoSi (Ed25519): n <= 4, all masks x policies {Complete, Threshold k}: verifies iff policy met, also with the unused bits of the last mask byte set (each, all); every bit of V, r and every meaningful mask bit flipped -> error; all SetBit/SetMask sequences of depth <= 3 keep AggregatePublic = sum of enabled keys. "+
		"non-trivial = lists with an injected item or a non-sorted order, masks with >= 2 signers; distinct by (scheme, combination, t, n, list/mask/route)",
		[]string{"signing keys and polynomials come from seeded streams", "chance acceptance of a mutated signature is ignored"}, nil)
}

func keyOf(k combo, label string, small int64) (kyber.Scalar, kyber.Point) {
	var v *big.Int
	if small > 0 {
		v = big.NewInt(small)
	} else {
		v = alpha.Rand("c09-key-"+label, k.key.Order)
	}
	s := alpha.ToScalar(k.key.Scalar(), v, k.key.Order)
	return s, k.key.Point().Mul(s, nil)
}

func runBLS(c *vf.Check, k combo) {
	pk := "C09/bls/" + k.name()
	sch := k.bls()
	// one scheme object, one message buffer refilled in place between calls (same length): nothing may be remembered
	// about the previous content
	c.Case(fmt.Sprintf("bls %s: message buffer reused in place", k.name()), pk, func(x *vf.Ctx) {
		priv, pub := keyOf(k, "r1", 0)
		buf := []byte("message number one")
		sig1, err := sch.Sign(priv, buf)
		if err != nil {
			x.Failf(pk+"/sign", "Sign: %v", err)
			return
		}
		if err := sch.Verify(pub, buf, sig1); err != nil {
			x.Failf(pk+"/honest-rejected", "honest signature rejected: %v", err)
			return
		}
		copy(buf, "message number two")
		c.Eval(3)
		if sch.Verify(pub, buf, sig1) == nil {
			x.Failf(pk+"/stale-message-accepted", "%s: after the caller's message buffer was refilled with another message of the same length, the signature on the old content still verifies", k.name())
		}
		sig2, err := sch.Sign(priv, buf)
		if err != nil {
			x.Failf(pk+"/sign", "Sign: %v", err)
			return
		}
		want, _ := k.bls().Sign(priv, []byte("message number two"))
		if !bytes.Equal(sig2, want) {
			x.Failf(pk+"/stale-message-signed", "%s: Sign on a refilled message buffer does not sign its current content", k.name())
		}
		if err := k.bls().Verify(pub, []byte("message number two"), sig2); err != nil {
			x.Failf(pk+"/stale-message-signed", "%s: the signature made on a refilled buffer does not verify for its content: %v", k.name(), err)
		}
	})
	// a family of 400 short messages under one key: the hash-to-group candidates with rare shapes (coordinates with
	// leading zero bytes, several rejected candidates) occur with probability 2^-7 .. 2^-8 per message
	for blk := 0; blk < 400; blk += 100 {
		blk := blk
		id := fmt.Sprintf("bls %s key=r1 messages \"message i\" for i in [%d,%d)", k.name(), blk, blk+100)
		c.Case(id, pk, func(x *vf.Ctx) {
			priv, pub := keyOf(k, "r1", 0)
			for i := blk; i < blk+100; i++ {
				msg := []byte(fmt.Sprintf("message %d", i))
				sig, err := sch.Sign(priv, msg)
				c.Eval(1)
				if err != nil {
					x.Failf(pk+"/sign", "%s: Sign(%q): %v", id, msg, err)
					return
				}
				if err := sch.Verify(pub, msg, sig); err != nil {
					x.Failf(pk+"/honest-rejected", "%s: honest signature on %q rejected: %v", id, msg, err)
					return
				}
			}
		})
		c.Count("transitions", 100)
		c.Nontrivial(id)
	}
	msgs := [][]byte{{}, []byte("a"), bytes.Repeat([]byte("0123456789"), 30)}
	for ki, kn := range []string{"1", "r1", "r2"} {
		for mi, msg := range msgs {
			ki, kn, mi, msg := ki, kn, mi, msg
			id := fmt.Sprintf("bls %s key=%s msg#%d", k.name(), kn, mi)
			c.Case(id, pk, func(x *vf.Ctx) {
				var priv kyber.Scalar
				var pub kyber.Point
				if ki == 0 {
					priv, pub = keyOf(k, "", 1)
				} else {
					priv, pub = keyOf(k, kn, 0)
				}
				sig, err := sch.Sign(priv, msg)
				if err != nil {
					x.Failf(pk+"/sign", "Sign: %v", err)
					return
				}
				c.Eval(1)
				if err := sch.Verify(pub, msg, sig); err != nil {
					x.Failf(pk+"/honest-rejected", "%s: honest signature rejected: %v", id, err)
					return
				}
				sig2, _ := sch.Sign(priv, msg)
				if !bytes.Equal(sig, sig2) {
					x.Failf(pk+"/not-deterministic", "two BLS signatures of the same message differ")
				}
				// sigma = x*H(m): compare with the group law directly
				S := k.sig.Point()
				if err := S.UnmarshalBinary(sig); err != nil {
					x.Failf(pk+"/sig-decode", "signature does not decode: %v", err)
					return
				}
				_, otherPub := keyOf(k, "other", 0)
				bad := map[string][]byte{
					"sigma+B":  enc(k.sig.Point().Add(S, k.sig.Point().Base())),
					"-sigma":   enc(k.sig.Point().Neg(S)),
					"2*sigma":  enc(k.sig.Point().Add(S, S)),
					"identity": enc(k.sig.Point().Null()),
					"empty":    {},
					"short":    sig[:len(sig)-1],
				}
				for bn, b := range bad {
					c.Eval(1)
					if bn == "-sigma" || bn == "2*sigma" || bn == "sigma+B" || bn == "identity" {
						if bytes.Equal(b, sig) {
							continue
						}
					}
					if sch.Verify(pub, msg, b) == nil {
						x.Failf(pk+"/forged-accepted", "%s: %s accepted", id, bn)
					}
				}
				if sch.Verify(pub, append([]byte("x"), msg...), sig) == nil {
					x.Failf(pk+"/other-message-accepted", "%s: verifies for another message", id)
				}
				if sch.Verify(otherPub, msg, sig) == nil {
					x.Failf(pk+"/other-key-accepted", "%s: verifies under another key", id)
				}
				if sch.Verify(k.key.Point().Null(), msg, sig) == nil {
					x.Failf(pk+"/identity-key-accepted", "%s: verifies under the identity key", id)
				}
				for i := 0; i < len(sig); i++ {
					mut := append([]byte{}, sig...)
					mut[i] ^= 1 << (i % 8)
					c.Eval(1)
					if sch.Verify(pub, msg, mut) == nil {
						p2 := k.sig.Point()
						if p2.UnmarshalBinary(mut) != nil || !p2.Equal(S) {
							x.Failf(pk+"/sig-bitflip-accepted", "%s: signature with byte %d mutated accepted", id, i)
							return
						}
					}
				}
			})
			c.Count("transitions", 1)
			c.Nontrivial(id)
			c.Class("bls/"+k.name(), func() any { return id })
		}
	}
}

func enc(p kyber.Point) []byte { b, _ := p.MarshalBinary(); return b }

func permsOf(a []int) [][]int {
	if len(a) <= 1 {
		return [][]int{append([]int{}, a...)}
	}
	var out [][]int
	for i := range a {
		rest := append(append([]int{}, a[:i]...), a[i+1:]...)
		for _, p := range permsOf(rest) {
			out = append(out, append([]int{a[i]}, p...))
		}
	}
	return out
}

func runTBLS(c *vf.Check, k combo, t, n int, large bool) {
	pk := "C09/tbls/" + k.name()
	ts := k.tbls()
	msg := []byte("c09 threshold message")
	q := k.key.Order
	var poly *share.PriPoly
	var pub *share.PubPoly
	var partials [][]byte
	var want []byte
	ok := false
	cfg := fmt.Sprintf("tbls %s t=%d n=%d", k.name(), t, n)
	c.Case(cfg+": setup", pk+"/setup", func(x *vf.Ctx) {
		var coeffs []kyber.Scalar
		for i := 0; i < t; i++ {
			coeffs = append(coeffs, alpha.ToScalar(k.key.Scalar(), alpha.Rand(fmt.Sprintf("c09-tbls-%d", i), q), q))
		}
		poly = share.CoefficientsToPriPoly(k.key.Group, coeffs)
		pub = poly.Commit(k.key.Point().Base())
		partials = nil
		for _, sh := range poly.Shares(uint32(n)) {
			p, err := ts.Sign(sh, msg)
			if err != nil {
				x.Failf(pk+"/sign", "partial Sign: %v", err)
				return
			}
			if err := ts.VerifyPartial(pub, msg, p); err != nil {
				x.Failf(pk+"/partial-rejected", "honest partial of signer %d rejected: %v", sh.I, err)
				return
			}
			if i, err := ts.IndexOf(p); err != nil || i != int(sh.I) {
				x.Failf(pk+"/IndexOf", "IndexOf = %d, %v (signer %d)", i, err, sh.I)
			}
			partials = append(partials, p)
		}
		var err error
		want, err = k.bls().Sign(poly.Secret(), msg)
		if err != nil {
			x.Failf(pk+"/sign", "bls Sign with the group secret: %v", err)
			return
		}
		ok = true
	})
	if !ok {
		return
	}
	// injection menu
	otherMsg, _ := ts.Sign(poly.Eval(0), []byte("another message"))
	type inj struct {
		name string
		b    []byte
	}
	mkInj := func(first, last int) []inj {
		flip := append([]byte{}, partials[first]...)
		flip[len(flip)-1] ^= 0x04
		wrongIdx := append([]byte{}, partials[first]...)
		wrongIdx[1] = byte((first + 1) % n) // valid signature of `first` under another signer's index
		big := append([]byte{}, partials[first]...)
		big[0], big[1] = 0xff, 0xff
		return []inj{
			{"dup-first", append([]byte{}, partials[first]...)},
			{"dup-last", append([]byte{}, partials[last]...)},
			{"bitflip", flip}, {"wrong-index", wrongIdx}, {"other-message", otherMsg},
			{"garbage1", []byte{0x07}}, {"empty", []byte{}}, {"index>=n", big},
		}
	}
	all := make([]int, n)
	for i := range all {
		all[i] = i
	}
	for mask := 1; mask < 1<<n; mask++ {
		var sub []int
		for i := 0; i < n; i++ {
			if mask>>i&1 == 1 {
				sub = append(sub, i)
			}
		}
		if len(sub) < t-1 {
			continue
		}
		if large && !(len(sub) == t || len(sub) == n || (len(sub) == t-1 && (sub[0] == 0 || sub[len(sub)-1] == n-1))) {
			continue // large n: every subset of size t, the full list, and the subsets of size t-1 touching either end
		}
		var ords [][]int
		if n <= 3 {
			ords = permsOf(sub)
		} else {
			rev := make([]int, len(sub))
			for i := range sub {
				rev[i] = sub[len(sub)-1-i]
			}
			ords = [][]int{sub, rev}
		}
		for oi, ord := range ords {
			_ = oi
			injs := append([]inj{{"none", nil}}, mkInj(ord[0], ord[len(ord)-1])...)
			if large {
				if oi == 0 {
					injs = []inj{injs[0], injs[1], injs[3], injs[4]} // none, duplicate of the first, bit flip, wrong index
				} else {
					injs = injs[:1]
				}
			}
			for _, in := range injs {
				positions := len(ord) + 1
				if in.name == "none" {
					positions = 1
				}
				for pos := 0; pos < positions; pos++ {
					if large && !(pos == 0 || pos == len(ord)/2 || pos == len(ord)) {
						continue
					}
					var list [][]byte
					for i, s := range ord {
						if in.name != "none" && i == pos {
							list = append(list, in.b)
						}
						list = append(list, append([]byte{}, partials[s]...))
					}
					if in.name != "none" && pos == len(ord) {
						list = append(list, in.b)
					}
					id := fmt.Sprintf("%s: partials %v inject %s@%d", cfg, ord, in.name, pos)
					enough := len(sub) >= t
					c.Case(id, pk+"/Recover", func(x *vf.Ctx) {
						got, err := ts.Recover(pub, msg, list, uint32(t), uint32(n))
						c.Eval(1)
						if enough {
							if err != nil {
								x.Failf(pk+"/Recover-refused", "%s: refused although %d >= t distinct valid partials are present: %v", id, len(sub), err)
								return
							}
							if !bytes.Equal(got, want) {
								x.Failf(pk+"/Recover-wrong", "%s: recovered signature differs from the signature of the group secret", id)
								return
							}
							if err := ts.VerifyRecovered(pub.Commit(), msg, got); err != nil {
								x.Failf(pk+"/VerifyRecovered", "%s: recovered signature rejected: %v", id, err)
							}
						} else if err == nil {
							x.Failf(pk+"/Recover-too-few", "%s: a signature was produced from %d < t valid partials", id, len(sub))
						}
					})
					c.Count("transitions", 1)
					c.Class(fmt.Sprintf("tbls/%s/enough=%v", k.name(), enough), func() any { return id })
					if in.name != "none" || len(ord) > 1 {
						c.Nontrivial(id)
					}
				}
			}
		}
	}
	c.Count("states", int64(1)<<n)
	// forging strategy: two invalid partials whose errors cancel in the interpolation. For an index set I and a, b in I:
	// S_a + D and S_b - (l_a/l_b) D (l = Lagrange coefficients of I at 0) interpolate to the genuine signature although
	// neither is a valid partial. With fewer than t *valid* partials in the list the recovery must refuse; with t valid
	// ones besides the two it must return the genuine signature.
	if t >= 2 && !large {
		lag := func(I []int, i int) *big.Int {
			num, den := big.NewInt(1), big.NewInt(1)
			xi := big.NewInt(int64(i + 1))
			for _, j := range I {
				if j == i {
					continue
				}
				xj := big.NewInt(int64(j + 1))
				num.Mul(num, xj).Mod(num, q)
				d := new(big.Int).Sub(xj, xi)
				den.Mul(den, d.Mod(d, q)).Mod(den, q)
			}
			return num.Mul(num, new(big.Int).ModInverse(den, q)).Mod(num, q)
		}
		D := k.sig.Point().Mul(alpha.ToScalar(k.sig.Scalar(), alpha.Rand("c09-tbls-cancel", q), q), nil)
		for mask := 1; mask < 1<<n; mask++ {
			var sub []int
			for i := 0; i < n; i++ {
				if mask>>i&1 == 1 {
					sub = append(sub, i)
				}
			}
			if len(sub) != t {
				continue
			}
			for _, pair := range [][2]int{{0, len(sub) - 1}, {len(sub) - 1, 0}, {0, 1}} {
				a, b := sub[pair[0]], sub[pair[1]]
				if a == b {
					continue
				}
				for variant := 0; variant < 3; variant++ {
					a, b, variant, sub := a, b, variant, sub
					id := fmt.Sprintf("%s: index set %v, partials %d and %d replaced by a cancelling pair, variant %d", cfg, sub, a, b, variant)
					c.Case(id, pk+"/Recover", func(x *vf.Ctx) {
						ratio := new(big.Int).Mul(lag(sub, a), new(big.Int).ModInverse(lag(sub, b), q))
						ratio.Mod(ratio, q)
						fake := func(i int, delta kyber.Point) []byte {
							S := k.sig.Point()
							if err := S.UnmarshalBinary(partials[i][2:]); err != nil {
								panic(err)
							}
							sb, _ := k.sig.Point().Add(S, delta).MarshalBinary()
							return append(append([]byte{}, partials[i][:2]...), sb...)
						}
						fa := fake(a, D)
						fb := fake(b, k.sig.Point().Neg(k.sig.Point().Mul(alpha.ToScalar(k.sig.Scalar(), ratio, q), D)))
						if ts.VerifyPartial(pub, msg, fa) == nil || ts.VerifyPartial(pub, msg, fb) == nil {
							x.Failf(pk+"/invalid-partial-accepted", "%s: VerifyPartial accepts a shifted partial", id)
							return
						}
						var list [][]byte
						for _, i := range sub {
							switch i {
							case a:
								list = append(list, fa)
							case b:
								list = append(list, fb)
							default:
								list = append(list, append([]byte{}, partials[i]...))
							}
						}
						valid := t - 2
						switch variant {
						case 1: // the two genuine partials follow the forged ones: t valid ones in all
							list = append(list, append([]byte{}, partials[a]...), append([]byte{}, partials[b]...))
							valid = t
						case 2: // garbage and a duplicate in front
							list = append([][]byte{{0x07}, append([]byte{}, list[len(list)-1]...)}, list...)
						}
						got, err := ts.Recover(pub, msg, list, uint32(t), uint32(n))
						c.Eval(1)
						if valid < t && err == nil {
							x.Failf(pk+"/Recover-too-few", "%s: a signature is produced although only %d < t of the listed partials are valid (the two invalid ones cancel in the interpolation)", id, valid)
						}
						if valid >= t {
							if err != nil {
								x.Failf(pk+"/Recover-refused", "%s: refused although %d valid partials are present: %v", id, valid, err)
							} else if !bytes.Equal(got, want) {
								x.Failf(pk+"/Recover-wrong", "%s: recovered signature differs from the signature of the group secret", id)
							}
						}
					})
					c.Count("transitions", 1)
					c.Nontrivial(id)
				}
			}
		}
	}
}
