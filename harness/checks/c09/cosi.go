package c09

import (
	"crypto/cipher"
	"bytes"
	"fmt"

	"go.dedis.ch/kyber/v4"
	"go.dedis.ch/kyber/v4/group/edwards25519"
	"go.dedis.ch/kyber/v4/sign/cosi"
	"verif/harness/alpha"
	"verif/harness/vf"
)

// fixedRand: every RandomStream() call returns a fresh stream from the same seed, so that a re-run of a case
// sees the same commitments (the default suite draws from crypto/rand).
type fixedRand struct{ cosi.Suite }

func (f fixedRand) RandomStream() cipher.Stream { return alpha.Stream("c09-cosi-randomness") }

func cosiKeys(n int) (cosi.Suite, []kyber.Scalar, []kyber.Point) {
	ed := fixedRand{edwards25519.NewBlakeSHA256Ed25519()}
	var privs []kyber.Scalar
	var pubs []kyber.Point
	for i := 0; i < n; i++ {
		s := ed.Scalar().Pick(alpha.Stream(fmt.Sprintf("c09-cosi-%d", i)))
		privs, pubs = append(privs, s), append(pubs, ed.Point().Mul(s, nil))
	}
	return ed, privs, pubs
}

func runCoSi(c *vf.Check, n int) {
	pk := "C09/cosi"
	suite, privs, pubs := cosiKeys(n)
	msg := []byte("c09 cosi message")
	for mask := 1; mask < 1<<n; mask++ {
		mask := mask
		var set []int
		for i := 0; i < n; i++ {
			if mask>>i&1 == 1 {
				set = append(set, i)
			}
		}
		id := fmt.Sprintf("cosi n=%d mask %0*b", n, n, mask)
		c.Case(id, pk, func(x *vf.Ctx) {
			m, err := cosi.NewMask(suite, pubs, nil)
			if err != nil {
				x.Failf(pk+"/mask", "NewMask: %v", err)
				return
			}
			var vs []kyber.Scalar
			var Vs []kyber.Point
			var masks [][]byte
			for _, i := range set {
				v := suite.Scalar().Pick(alpha.Stream(fmt.Sprintf("%s-v%d", id, i)))
				vs, Vs = append(vs, v), append(Vs, suite.Point().Mul(v, nil))
				mi, err := cosi.NewMask(suite, pubs, pubs[i])
				if err != nil {
					x.Failf(pk+"/mask", "NewMask(own key): %v", err)
					return
				}
				masks = append(masks, mi.Mask())
			}
			var VsEnc [][]byte
			for _, V := range Vs {
				b, _ := V.MarshalBinary()
				VsEnc = append(VsEnc, b)
			}
			aggV, aggMask, err := cosi.AggregateCommitments(suite, Vs, masks)
			if err != nil {
				x.Failf(pk+"/AggregateCommitments", "%v", err)
				return
			}
			// the aggregate is the sum of the commitments, the participants' commitments are left as they were,
			// and aggregating the same commitments again (a leader retrying) gives the same result
			wantV := suite.Point().Null()
			for _, b := range VsEnc {
				p := suite.Point()
				_ = p.UnmarshalBinary(b)
				wantV.Add(wantV, p)
			}
			if !aggV.Equal(wantV) {
				x.Failf(pk+"/AggregateCommitments", "%s: the aggregate commitment is not the sum of the commitments", id)
				return
			}
			for k, V := range Vs {
				if b, _ := V.MarshalBinary(); !bytes.Equal(b, VsEnc[k]) {
					x.Failf(pk+"/AggregateCommitments-clobbers-input", "%s: AggregateCommitments changed commitment %d of its input", id, k)
					return
				}
			}
			if again, _, err := cosi.AggregateCommitments(suite, Vs, masks); err != nil || !again.Equal(aggV) {
				x.Failf(pk+"/AggregateCommitments-clobbers-input", "%s: aggregating the same commitments a second time gives another result (%v)", id, err)
				return
			}
			if err := m.SetMask(aggMask); err != nil {
				x.Failf(pk+"/SetMask", "%v", err)
				return
			}
			want := suite.Point().Null()
			for _, i := range set {
				want.Add(want, pubs[i])
			}
			if !m.AggregatePublic.Equal(want) {
				x.Failf(pk+"/AggregatePublic", "%s: AggregatePublic is not the sum of the enabled keys", id)
				return
			}
			ch, err := cosi.Challenge(suite, aggV, m.AggregatePublic, msg)
			if err != nil {
				x.Failf(pk+"/Challenge", "%v", err)
				return
			}
			var rs []kyber.Scalar
			for j, i := range set {
				r, err := cosi.Response(suite, privs[i], vs[j], ch)
				if err != nil {
					x.Failf(pk+"/Response", "%v", err)
					return
				}
				rs = append(rs, r)
			}
			var rsEnc [][]byte
			for _, r := range rs {
				b, _ := r.MarshalBinary()
				rsEnc = append(rsEnc, b)
			}
			aggR, err := cosi.AggregateResponses(suite, rs)
			if err != nil {
				x.Failf(pk+"/AggregateResponses", "%v", err)
				return
			}
			for k, r := range rs {
				if b, _ := r.MarshalBinary(); !bytes.Equal(b, rsEnc[k]) {
					x.Failf(pk+"/AggregateResponses-clobbers-input", "%s: AggregateResponses changed response %d of its input", id, k)
					return
				}
			}
			if again, err := cosi.AggregateResponses(suite, rs); err != nil || !again.Equal(aggR) {
				x.Failf(pk+"/AggregateResponses-clobbers-input", "%s: aggregating the same responses a second time gives another result (%v)", id, err)
				return
			}
			sig, err := cosi.Sign(suite, aggV, aggR, m)
			if err != nil {
				x.Failf(pk+"/Sign", "%v", err)
				return
			}
			// policies
			for th := 0; th <= n+1; th++ {
				var pol cosi.Policy = cosi.NewThresholdPolicy(th)
				name := fmt.Sprintf("Threshold(%d)", th)
				met := len(set) >= th
				if th == n+1 {
					pol, name, met = cosi.CompletePolicy{}, "Complete", len(set) == n
				}
				err := cosi.Verify(suite, pubs, msg, sig, pol)
				c.Eval(1)
				if met && err != nil {
					x.Failf(pk+"/honest-rejected", "%s policy %s: honest collective signature rejected: %v", id, name, err)
				}
				if !met && err == nil {
					x.Failf(pk+"/policy-ignored", "%s policy %s: accepted although the policy is not met", id, name)
				}
				// the bits of the last mask byte beyond the last participant stand for nobody: setting them must not
				// help a signature below the policy (each alone, and all of them)
				if !met && n%8 != 0 {
					var pads []byte
					all := byte(0)
					for b := n % 8; b < 8; b++ {
						pads = append(pads, 1<<b)
						all |= 1 << b
					}
					for _, pad := range append(pads, all) {
						mut := append([]byte{}, sig...)
						mut[len(mut)-1] |= pad
						c.Eval(1)
						if cosi.Verify(suite, pubs, msg, mut, pol) == nil {
							x.Failf(pk+"/policy-ignored", "%s policy %s: accepted with the unused mask bits %08b set although only %d participants signed", id, name, pad, len(set))
						}
					}
				}
			}
			if len(set) == n {
				if err := cosi.Verify(suite, pubs, msg, sig, nil); err != nil {
					x.Failf(pk+"/honest-rejected", "%s default policy: rejected: %v", id, err)
				}
			}
			pol := cosi.NewThresholdPolicy(1)
			pl, sl := suite.PointLen(), suite.ScalarLen()
			for bit := 0; bit < len(sig)*8; bit++ {
				if bit/8 >= pl+sl && bit-8*(pl+sl) >= n {
					continue // mask bits beyond the last participant carry no meaning
				}
				mut := append([]byte{}, sig...)
				mut[bit/8] ^= 1 << (bit % 8)
				c.Eval(1)
				if cosi.Verify(suite, pubs, msg, mut, pol) == nil {
					x.Failf(pk+"/bitflip-accepted", "%s: signature with bit %d flipped (of V|r|mask) accepted", id, bit)
					return
				}
			}
			if cosi.Verify(suite, pubs, []byte("other"), sig, pol) == nil {
				x.Failf(pk+"/other-message-accepted", "%s: verifies for another message", id)
			}
			for _, mut := range [][]byte{sig[:len(sig)-1], sig[:pl+sl], sig[:pl], sig[:pl-1], {}, append(append([]byte{}, sig...), 0)} {
				func() {
					defer func() {
						if r := recover(); r != nil {
							x.Failf(pk+"/length-panic", "%s: signature of length %d panics: %v", id, len(mut), r)
						}
					}()
					if cosi.Verify(suite, pubs, msg, mut, pol) == nil {
						x.Failf(pk+"/length-accepted", "%s: signature of length %d accepted", id, len(mut))
					}
				}()
			}
		})
		c.Count("transitions", 1)
		c.Class("cosi", func() any { return id })
		if len(set) > 1 {
			c.Nontrivial(id)
		}
	}
}

// runCoSiMaskSeq: every sequence of depth <= 3 of mask edits keeps the
// aggregate public key equal to the sum of the enabled keys.
func runCoSiMaskSeq(c *vf.Check) {
	pk := "C09/cosi/mask"
	n := 3
	suite, _, pubs := cosiKeys(n)
	type op struct {
		name string
		f    func(m *cosi.Mask) error
	}
	var ops []op
	for i := 0; i < n; i++ {
		i := i
		ops = append(ops, op{fmt.Sprintf("SetBit(%d,true)", i), func(m *cosi.Mask) error { return m.SetBit(i, true) }},
			op{fmt.Sprintf("SetBit(%d,false)", i), func(m *cosi.Mask) error { return m.SetBit(i, false) }})
	}
	for v := 0; v < 1<<n; v++ {
		v := v
		ops = append(ops, op{fmt.Sprintf("SetMask(%03b)", v), func(m *cosi.Mask) error { return m.SetMask([]byte{byte(v)}) }})
	}
	depth := 3
	var rec func(prefix []int)
	rec = func(prefix []int) {
		if len(prefix) > 0 {
			names := ""
			for _, o := range prefix {
				names += ops[o].name + ";"
			}
			id := "cosi mask n=3: " + names
			c.Case(id, pk, func(x *vf.Ctx) {
				m, _ := cosi.NewMask(suite, pubs, nil)
				for _, o := range prefix {
					if err := ops[o].f(m); err != nil {
						x.Failf(pk+"/op-error", "%s: %v", id, err)
						return
					}
				}
				want := suite.Point().Null()
				cnt := 0
				for i := 0; i < n; i++ {
					if m.Mask()[0]>>i&1 == 1 {
						want.Add(want, pubs[i])
						cnt++
					}
				}
				c.Eval(1)
				if !m.AggregatePublic.Equal(want) {
					x.Failf(pk+"/AggregatePublic", "after %s (mask %03b) AggregatePublic is not the sum of the enabled keys", names, m.Mask()[0])
				}
				if m.CountEnabled() != cnt || m.CountTotal() != n {
					x.Failf(pk+"/Count", "after %s CountEnabled=%d (mask has %d)", names, m.CountEnabled(), cnt)
				}
				for i := 0; i < n; i++ {
					en, err := m.IndexEnabled(i)
					ke, err2 := m.KeyEnabled(pubs[i])
					if err != nil || err2 != nil || en != (m.Mask()[0]>>i&1 == 1) || ke != en {
						x.Failf(pk+"/IndexEnabled", "after %s IndexEnabled(%d)=%v KeyEnabled=%v", names, i, en, ke)
					}
				}
				if !bytes.Equal(m.Mask(), m.Mask()) {
					x.Failf(pk+"/Mask", "Mask() unstable")
				}
			})
			c.Count("transitions", 1)
			c.Count("states", 1)
			if len(prefix) > 1 {
				c.Nontrivial(id)
			}
		}
		if len(prefix) == depth {
			return
		}
		for o := range ops {
			rec(append(append([]int{}, prefix...), o))
		}
	}
	rec(nil)
}
