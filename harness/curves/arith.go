package curves

import "math/big"

// Affine reference arithmetic in math/big (deliberately boring).

// AffinePoint: Inf or (X,Y).
type AffinePoint struct {
	X, Y *big.Int
	Inf  bool
}

// Curve is either short Weierstrass y^2 = x^3 + A x + B or twisted Edwards -x^2 + y^2 = 1 + D x^2 y^2.
type Curve struct {
	P, A, B, D *big.Int
	Edwards    bool
}

var (
	Ed25519Curve = &Curve{P: EdP, D: EdD, Edwards: true}
	P256Curve    = &Curve{P: P256P, A: big.NewInt(-3), B: P256B}
	BN256Curve   = &Curve{P: BN256P, A: big.NewInt(0), B: big.NewInt(3)}
	BN254Curve   = &Curve{P: BN254P, A: big.NewInt(0), B: big.NewInt(3)}
	// standard base points
	P256Gx = bi("0x6b17d1f2e12c4247f8bce6e563a440f277037d812deb33a0f4a13945d898c296")
	P256Gy = bi("0x4fe342e2fe1a7f9b8ee7eb4a7c0f9e162bce33576b315ececbb6406837bf51f5")
)

func (c *Curve) mod(v *big.Int) *big.Int { return new(big.Int).Mod(v, c.P) }
func (c *Curve) inv(v *big.Int) *big.Int { return new(big.Int).ModInverse(c.mod(v), c.P) }

// Identity of the curve's group.
func (c *Curve) Identity() AffinePoint {
	if c.Edwards {
		return AffinePoint{X: big.NewInt(0), Y: big.NewInt(1)}
	}
	return AffinePoint{Inf: true}
}

// Ed25519Base: y = 4/5, x even.
func Ed25519Base() AffinePoint {
	c := Ed25519Curve
	y := c.mod(new(big.Int).Mul(big.NewInt(4), c.inv(big.NewInt(5))))
	yy := c.mod(new(big.Int).Mul(y, y))
	num := c.mod(new(big.Int).Sub(yy, big.NewInt(1)))
	den := c.mod(new(big.Int).Add(new(big.Int).Mul(c.D, yy), big.NewInt(1)))
	xx := c.mod(new(big.Int).Mul(num, c.inv(den)))
	x := new(big.Int).ModSqrt(xx, c.P)
	if x.Bit(0) == 1 {
		x = c.mod(new(big.Int).Neg(x))
	}
	return AffinePoint{X: x, Y: y}
}

func (c *Curve) Neg(p AffinePoint) AffinePoint {
	if p.Inf {
		return p
	}
	if c.Edwards {
		return AffinePoint{X: c.mod(new(big.Int).Neg(p.X)), Y: new(big.Int).Set(p.Y)}
	}
	return AffinePoint{X: new(big.Int).Set(p.X), Y: c.mod(new(big.Int).Neg(p.Y))}
}

func (c *Curve) Add(p, q AffinePoint) AffinePoint {
	if c.Edwards {
		// (x1y2+y1x2)/(1+d x1x2y1y2), (y1y2+x1x2)/(1-d x1x2y1y2)   [a = -1]
		x1x2 := new(big.Int).Mul(p.X, q.X)
		y1y2 := new(big.Int).Mul(p.Y, q.Y)
		t := c.mod(new(big.Int).Mul(c.D, new(big.Int).Mul(x1x2, y1y2)))
		xn := new(big.Int).Add(new(big.Int).Mul(p.X, q.Y), new(big.Int).Mul(p.Y, q.X))
		yn := new(big.Int).Add(y1y2, x1x2)
		x := c.mod(new(big.Int).Mul(xn, c.inv(new(big.Int).Add(big.NewInt(1), t))))
		y := c.mod(new(big.Int).Mul(yn, c.inv(new(big.Int).Sub(big.NewInt(1), t))))
		return AffinePoint{X: x, Y: y}
	}
	if p.Inf {
		return q
	}
	if q.Inf {
		return p
	}
	var l *big.Int
	if p.X.Cmp(q.X) == 0 {
		if c.mod(new(big.Int).Add(p.Y, q.Y)).Sign() == 0 {
			return AffinePoint{Inf: true}
		}
		num := new(big.Int).Add(new(big.Int).Mul(big.NewInt(3), new(big.Int).Mul(p.X, p.X)), c.A)
		l = c.mod(new(big.Int).Mul(num, c.inv(new(big.Int).Lsh(p.Y, 1))))
	} else {
		l = c.mod(new(big.Int).Mul(new(big.Int).Sub(q.Y, p.Y), c.inv(new(big.Int).Sub(q.X, p.X))))
	}
	x := c.mod(new(big.Int).Sub(new(big.Int).Sub(new(big.Int).Mul(l, l), p.X), q.X))
	y := c.mod(new(big.Int).Sub(new(big.Int).Mul(l, new(big.Int).Sub(p.X, x)), p.Y))
	return AffinePoint{X: x, Y: y}
}

// Mul: plain double-and-add from the least significant bit.
func (c *Curve) Mul(k *big.Int, p AffinePoint) AffinePoint {
	acc := c.Identity()
	d := p
	for i := 0; i < k.BitLen(); i++ {
		if k.Bit(i) == 1 {
			acc = c.Add(acc, d)
		}
		d = c.Add(d, d)
	}
	return acc
}
