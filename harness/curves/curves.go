// Package curves holds independent arbitrary-precision membership predicates
// for the curves kyber exposes. Parameters are transcribed from the standards
// (not read from kyber).
package curves

import "math/big"

func bi(s string) *big.Int {
	v, ok := new(big.Int).SetString(s, 0)
	if !ok {
		panic(s)
	}
	return v
}

var (
	// Ed25519: -x^2 + y^2 = 1 + d x^2 y^2 over p = 2^255-19
	EdP = bi("57896044618658097711785492504343953926634992332820282019728792003956564819949")
	EdD = bi("37095705934669439343138083508754565189542113879843219016388785533085940283555")
	// P-256: y^2 = x^3 - 3x + b
	P256P = bi("0xffffffff00000001000000000000000000000000ffffffffffffffffffffffff")
	P256B = bi("0x5ac635d8aa3a93e7b3ebbd55769886bc651d06b0cc53b0f63bce3c3e27d2604b")
	// BN256 (the 256-bit Barreto-Naehrig curve of golang.org/x/crypto/bn256, u = 6518589491078791937): y^2 = x^3 + 3; twist over Fp2 = Fp[i]/(i^2+1): y^2 = x^3 + 3/(i+3)
	BN256P = bi("65000549695646603732796438742359905742825358107623003571877145026864184071783")
	// BN254 (alt_bn128): y^2 = x^3 + 3; twist y^2 = x^3 + 3/(i+9)
	BN254P = bi("21888242871839275222246405745257275088696311157297823662689037894645226208583")
	// BLS12-381 base field
	BLSP = bi("0x1a0111ea397fe69a4b1ba7b6434bacd764774b84f38512bf6730d2a0f6b0f6241eabfffeb153ffffb9feffffffffaaab")
	// quadratic-residue group of kyber's QR512 suite
	QR512P = bi("10198267722357351868598076141027380280417188309231803909918464305012113541414604537422741096561285049775792035177041672305646773132014126091142862443826263")
	QR512Q = bi("5099133861178675934299038070513690140208594154615901954959232152506056770707302268711370548280642524887896017588520836152823386566007063045571431221913131")
)

func mod(a, p *big.Int) *big.Int { return new(big.Int).Mod(a, p) }

// EdOnCurveY reports whether some x exists with (x,y) on Ed25519, for y taken mod p.
func EdOnCurveY(y *big.Int) bool {
	p := EdP
	y = mod(y, p)
	yy := mod(new(big.Int).Mul(y, y), p)
	num := mod(new(big.Int).Sub(yy, big.NewInt(1)), p)
	den := mod(new(big.Int).Add(new(big.Int).Mul(EdD, yy), big.NewInt(1)), p)
	inv := new(big.Int).ModInverse(den, p)
	if inv == nil {
		return false
	}
	xx := mod(new(big.Int).Mul(num, inv), p)
	if xx.Sign() == 0 {
		return true
	}
	return big.Jacobi(xx, p) == 1
}

// WeierstrassOn reports y^2 = x^3 + a x + b mod p for x,y < p.
func WeierstrassOn(x, y, a, b, p *big.Int) bool {
	if x.Cmp(p) >= 0 || y.Cmp(p) >= 0 || x.Sign() < 0 || y.Sign() < 0 {
		return false
	}
	l := mod(new(big.Int).Mul(y, y), p)
	r := new(big.Int).Mul(x, x)
	r.Mul(r, x)
	r.Add(r, new(big.Int).Mul(a, x))
	r.Add(r, b)
	return l.Cmp(mod(r, p)) == 0
}

// F2 is an element a + b*i of Fp[i]/(i^2+1).
type F2 struct{ A, B *big.Int }

func F2Mul(x, y F2, p *big.Int) F2 {
	ac := new(big.Int).Mul(x.A, y.A)
	bd := new(big.Int).Mul(x.B, y.B)
	ad := new(big.Int).Mul(x.A, y.B)
	bc := new(big.Int).Mul(x.B, y.A)
	return F2{mod(new(big.Int).Sub(ac, bd), p), mod(new(big.Int).Add(ad, bc), p)}
}
func F2Add(x, y F2, p *big.Int) F2 {
	return F2{mod(new(big.Int).Add(x.A, y.A), p), mod(new(big.Int).Add(x.B, y.B), p)}
}
func F2Inv(x F2, p *big.Int) F2 {
	n := new(big.Int).Add(new(big.Int).Mul(x.A, x.A), new(big.Int).Mul(x.B, x.B))
	ni := new(big.Int).ModInverse(mod(n, p), p)
	return F2{mod(new(big.Int).Mul(x.A, ni), p), mod(new(big.Int).Neg(new(big.Int).Mul(x.B, ni)), p)}
}
func F2Eq(x, y F2) bool { return x.A.Cmp(y.A) == 0 && x.B.Cmp(y.B) == 0 }

// TwistOn reports y^2 = x^3 + 3/(xiA + i) over Fp2 (BN curves with D-type twist).
func TwistOn(x, y F2, xiA int64, p *big.Int) bool {
	for _, c := range []*big.Int{x.A, x.B, y.A, y.B} {
		if c.Cmp(p) >= 0 {
			return false
		}
	}
	xi := F2{big.NewInt(xiA), big.NewInt(1)}
	b := F2Mul(F2{big.NewInt(3), big.NewInt(0)}, F2Inv(xi, p), p)
	l := F2Mul(y, y, p)
	r := F2Add(F2Mul(F2Mul(x, x, p), x, p), b, p)
	return F2Eq(l, r)
}

// InQR512 reports membership of the order-q subgroup of Z_p^*.
func InQR512(x *big.Int) bool {
	return x.Sign() > 0 && x.Cmp(QR512P) < 0 && new(big.Int).Exp(x, QR512Q, QR512P).Cmp(big.NewInt(1)) == 0
}

// BLSG1SqrtY returns a y with y^2 = x^3+4 mod p if one exists (p = 3 mod 4).
func BLSG1SqrtY(x *big.Int) *big.Int {
	p := BLSP
	r := new(big.Int).Mul(x, x)
	r.Mul(r, x).Add(r, big.NewInt(4)).Mod(r, p)
	e := new(big.Int).Rsh(new(big.Int).Add(p, big.NewInt(1)), 2)
	y := new(big.Int).Exp(r, e, p)
	if mod(new(big.Int).Mul(y, y), p).Cmp(r) != 0 {
		return nil
	}
	return y
}
