// Package alpha builds the finite alphabets the checks enumerate: named
// scalars on the boundaries the code has, and deterministic byte streams that
// do not depend on any kyber code.
package alpha

import (
	"crypto/cipher"
	"crypto/sha256"
	"encoding/binary"
	"fmt"
	"math/big"
	"os"

	"go.dedis.ch/kyber/v4"
)

// Seed is VERIF_SEED as a string (part of every derived element).
func Seed() string {
	s := os.Getenv("VERIF_SEED")
	if s == "" {
		s = "0"
	}
	return s
}

// shaStream is SHA-256 in counter mode: an independent deterministic stream.
type shaStream struct {
	key [32]byte
	ctr uint64
	buf []byte
	N   int // bytes produced
}

// Stream returns a deterministic cipher.Stream named by label (and VERIF_SEED).
func Stream(label string) cipher.Stream {
	return &shaStream{key: sha256.Sum256([]byte("verif-stream|" + Seed() + "|" + label))}
}

func (s *shaStream) XORKeyStream(dst, src []byte) {
	for i := range src {
		if len(s.buf) == 0 {
			var c [8]byte
			binary.LittleEndian.PutUint64(c[:], s.ctr)
			s.ctr++
			h := sha256.Sum256(append(s.key[:], c[:]...))
			s.buf = h[:]
		}
		dst[i] = src[i] ^ s.buf[0]
		s.buf = s.buf[1:]
		s.N++
	}
}

// Bytes returns n deterministic bytes named by label.
func Bytes(label string, n int) []byte {
	b := make([]byte, n)
	Stream("bytes|"+label).XORKeyStream(b, b)
	return b
}

// ConstStream yields the byte c forever.
type ConstStream byte

func (c ConstStream) XORKeyStream(dst, src []byte) {
	for i := range src {
		dst[i] = src[i] ^ byte(c)
	}
}

// CounterStream yields 0,1,2,...
type CounterStream struct{ n byte }

func (c *CounterStream) XORKeyStream(dst, src []byte) {
	for i := range src {
		dst[i] = src[i] ^ c.n
		c.n++
	}
}

// PrefixStream yields the prefix bytes and then continues with Next.
type PrefixStream struct {
	Prefix []byte
	Next   cipher.Stream
	Drawn  []byte // everything handed out (recording)
}

func (p *PrefixStream) XORKeyStream(dst, src []byte) {
	for i := range src {
		var k byte
		if len(p.Prefix) > 0 {
			k = p.Prefix[0]
			p.Prefix = p.Prefix[1:]
		} else if p.Next != nil {
			var one [1]byte
			p.Next.XORKeyStream(one[:], one[:])
			k = one[0]
		}
		p.Drawn = append(p.Drawn, k)
		dst[i] = src[i] ^ k
	}
}

// NS is a named scalar value.
type NS struct {
	Name string
	V    *big.Int
}

// Rand returns a named pseudo-random value below q.
func Rand(label string, q *big.Int) *big.Int {
	b := Bytes("rand|"+label, (q.BitLen()+7)/8+8)
	return new(big.Int).Mod(new(big.Int).SetBytes(b), q)
}

// Scalars returns the scalar alphabet S(q). level 0: 14-element core,
// 1: medium (~30), 2: full (~55).
func Scalars(q *big.Int, level int) []NS {
	var out []NS
	seen := map[string]bool{}
	add := func(name string, v *big.Int) {
		v = new(big.Int).Mod(v, q)
		if seen[v.String()] {
			return
		}
		seen[v.String()] = true
		out = append(out, NS{name, v})
	}
	one := big.NewInt(1)
	add("0", big.NewInt(0))
	add("1", one)
	add("2", big.NewInt(2))
	add("q-1", new(big.Int).Sub(q, one))
	add("q-2", new(big.Int).Sub(q, big.NewInt(2)))
	add("r1", Rand("r1", q))
	add("(q-1)/2", new(big.Int).Rsh(new(big.Int).Sub(q, one), 1))
	add("(q+1)/2", new(big.Int).Rsh(new(big.Int).Add(q, one), 1))
	add("3", big.NewInt(3))
	add("8", big.NewInt(8))
	ks := []uint{16, 64, 128, 252}
	if level >= 1 {
		ks = []uint{4, 16, 21, 63, 64, 127, 128, 192, 252}
	}
	if level >= 2 {
		ks = []uint{4, 15, 16, 21, 42, 63, 64, 126, 127, 128, 192, 251, 252, 253, 254}
	}
	for _, k := range ks {
		p := new(big.Int).Lsh(one, k)
		add(fmt.Sprintf("2^%d", k), p)
		if level >= 1 || k == 64 {
			add(fmt.Sprintf("2^%d-1", k), new(big.Int).Sub(p, one))
			add(fmt.Sprintf("2^%d+1", k), new(big.Int).Add(p, one))
		}
	}
	add("r2", Rand("r2", q))
	if level >= 1 {
		add("r3", Rand("r3", q))
		add("r4", Rand("r4", q))
	}
	return out
}

// ToScalar converts a big value into a kyber scalar of s's type through the
// fixed-length encoding (UnmarshalBinary), falling back to SetBytes.
func ToScalar(s kyber.Scalar, v *big.Int, q *big.Int) kyber.Scalar {
	v = new(big.Int).Mod(v, q)
	n := s.MarshalSize()
	b := make([]byte, n)
	v.FillBytes(b)
	if s.ByteOrder() == kyber.LittleEndian {
		for i, j := 0, n-1; i < j; i, j = i+1, j-1 {
			b[i], b[j] = b[j], b[i]
		}
	}
	if err := s.UnmarshalBinary(b); err != nil {
		panic(fmt.Sprintf("ToScalar: UnmarshalBinary of a canonical encoding failed: %v", err))
	}
	return s
}

// FromScalar reads a scalar's value through its encoding.
func FromScalar(s kyber.Scalar) *big.Int {
	b, err := s.MarshalBinary()
	if err != nil {
		panic(err)
	}
	if s.ByteOrder() == kyber.LittleEndian {
		c := make([]byte, len(b))
		for i := range b {
			c[len(b)-1-i] = b[i]
		}
		b = c
	}
	return new(big.Int).SetBytes(b)
}

// Endo returns the scalars around the small multiples of the non-trivial cube roots of unity modulo q (the eigenvalues
// of the efficient endomorphism x -> beta*x that curves with j = 0 - the BN and BLS12 families - use to split a scalar
// multiplication): k*lambda + d for both roots, k in 1..4, d in -2..3. These are the values where the two halves of a
// lattice decomposition change sign, vanish or coincide. Empty when q != 1 mod 3 (no such endomorphism).
func Endo(q *big.Int) []NS {
	three := big.NewInt(3)
	qm1 := new(big.Int).Sub(q, big.NewInt(1))
	if new(big.Int).Mod(qm1, three).Sign() != 0 {
		return nil
	}
	e := new(big.Int).Div(qm1, three)
	var lam *big.Int
	for g := int64(2); g < 100; g++ {
		l := new(big.Int).Exp(big.NewInt(g), e, q)
		if l.Cmp(big.NewInt(1)) != 0 {
			lam = l
			break
		}
	}
	if lam == nil {
		return nil
	}
	lam2 := new(big.Int).Mod(new(big.Int).Mul(lam, lam), q)
	var out []NS
	seen := map[string]bool{}
	for ri, r := range []*big.Int{lam, lam2} {
		for k := int64(1); k <= 4; k++ {
			for d := int64(-2); d <= 3; d++ {
				v := new(big.Int).Mul(big.NewInt(k), r)
				v.Add(v, big.NewInt(d)).Mod(v, q)
				if seen[v.String()] {
					continue
				}
				seen[v.String()] = true
				out = append(out, NS{fmt.Sprintf("%d*lambda%d%+d", k, ri+1, d), v})
			}
		}
	}
	return out
}
