package main

import (
	"fmt"

	"go.dedis.ch/kyber/v4/pairing/bls12381/circl"
)

func main() {
	s := circl.NewSuite()
	B1, B2 := s.G1().Point().Base(), s.G2().Point().Base()
	O1, O2 := s.G1().Point().Null(), s.G2().Point().Null()
	two := s.G1().Scalar().SetInt64(2)
	fmt.Println("VP(B,B,O,B)", s.ValidatePairing(B1, B2, O1, B2), "want false")
	fmt.Println("VP(O,B,B,B)", s.ValidatePairing(O1, B2, B1, B2), "want false")
	fmt.Println("VP(B,O,B,B)", s.ValidatePairing(B1, O2, B1, B2), "want false")
	fmt.Println("VP(B,B,B,O)", s.ValidatePairing(B1, B2, B1, O2), "want false")
	fmt.Println("VP(B,B,B,B)", s.ValidatePairing(B1, B2, B1, B2), "want true")
	fmt.Println("VP(2B,B,B,2B)", s.ValidatePairing(s.G1().Point().Mul(two, B1), B2, B1, s.G2().Point().Mul(two, B2)), "want true")
	fmt.Println("VP(2B,B,B,B)", s.ValidatePairing(s.G1().Point().Mul(two, B1), B2, B1, B2), "want false")
	fmt.Println("Pair(O,B)==1", s.Pair(O1, B2).Equal(s.GT().Point().Null()))
}
