package main

import (
	"os"

	"verif/harness/checks/c11"
)

func main() {
	if len(os.Args) > 1 && os.Args[1] == "rabin" {
		c11.DebugRabin()
		return
	}
	if len(os.Args) > 1 && os.Args[1] == "one" {
		c11.DebugOne(os.Stdout, false)
		c11.DebugOne(os.Stdout, true)
		return
	}
	if len(os.Args) > 2 && os.Args[1] == "trace" {
		c11.DebugTrace(os.Stdout, false, os.Args[2])
		return
	}
	c11.DebugProtocol(os.Stdout)
}
