package main

import (
	"fmt"
	"os"
	"verif/harness/checks/c11"
)

func main() { c11.DebugRabin(); _ = os.Stdout; fmt.Println() }
