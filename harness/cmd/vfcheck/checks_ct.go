//go:build constantTime

package main

import (
	"verif/harness/checks/c01"
	"verif/harness/checks/c02"
	"verif/harness/checks/c03"
	"verif/harness/checks/c05"
	"verif/harness/checks/c18"
	"verif/harness/vf"
)

// The constantTime configuration only contains Ed25519, CIRCL and mod.Int over bigmod.
var checks = map[string]func(*vf.Check){
	"C01": c01.Run,
	"C02": c02.Run,
	"C03": c03.Run,
	"C05": c05.Run,
}

func transcript(path string) error { return c18.Transcript(path) }
