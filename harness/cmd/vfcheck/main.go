package main

import (
	"fmt"
	"os"

	"verif/harness/checks/c01"
	"verif/harness/checks/c02"
	"verif/harness/checks/c03"
	"verif/harness/checks/c04"
	"verif/harness/checks/c05"
	"verif/harness/checks/c06"
	"verif/harness/checks/c07"
	"verif/harness/checks/c08"
	"verif/harness/checks/c09"
	"verif/harness/vf"
)

var checks = map[string]func(*vf.Check){
	"C01": c01.Run,
	"C02": c02.Run,
	"C03": c03.Run,
	"C04": c04.Run,
	"C05": c05.Run,
	"C06": c06.Run,
	"C07": c07.Run,
	"C08": c08.Run,
	"C09": c09.Run,
}

func main() {
	if len(os.Args) < 3 {
		fmt.Println("usage: vfcheck <id> quick|thorough")
		os.Exit(2)
	}
	id, tier := os.Args[1], os.Args[2]
	f, ok := checks[id]
	if !ok || (tier != "quick" && tier != "thorough") {
		fmt.Println("unknown check or tier")
		os.Exit(2)
	}
	c := vf.New(id, tier)
	if c.IsParent() {
		c.RunParent() // starts the worker processes, merges, prints the verdict, exits
	}
	f(c)
}
