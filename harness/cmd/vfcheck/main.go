package main

import (
	"fmt"
	"os"

	"verif/harness/vf"
)

func main() {
	if len(os.Args) < 3 {
		fmt.Println("usage: vfcheck <id> quick|thorough")
		os.Exit(2)
	}
	if os.Args[1] == "transcript" {
		if err := transcript(os.Args[2]); err != nil {
			fmt.Println("HARNESS-ERROR:", err)
			os.Exit(2)
		}
		return
	}
	id, tier := os.Args[1], os.Args[2]
	f, ok := checks[id]
	if !ok || (tier != "quick" && tier != "thorough") {
		fmt.Println("HARNESS-ERROR: unknown check or tier (in this build variant)")
		os.Exit(2)
	}
	c := vf.New(id, tier)
	if c.IsParent() {
		c.RunParent() // starts the worker processes, merges, prints the verdict, exits
	}
	f(c)
}
