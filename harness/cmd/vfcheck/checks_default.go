//go:build !constantTime

package main

import (
	"verif/harness/checks/c01"
	"verif/harness/checks/c02"
	"verif/harness/checks/c03"
	"verif/harness/checks/c04"
	"verif/harness/checks/c05"
	"verif/harness/checks/c06"
	"verif/harness/checks/c07"
	"verif/harness/checks/c08"
	"verif/harness/checks/c09"
	"verif/harness/checks/c10"
	"verif/harness/checks/c11"
	"verif/harness/checks/c12"
	"verif/harness/checks/c13"
	"verif/harness/checks/c14"
	"verif/harness/checks/c15"
	"verif/harness/checks/c16"
	"verif/harness/checks/c17"
	"verif/harness/checks/c18"
	"verif/harness/checks/c19"
	"verif/harness/checks/c20"
	"verif/harness/vf"
)

var checks = map[string]func(*vf.Check){
	"C01": c01.Run,
	"C02": c02.Run,
	"C03": c03.Run,
	"C04": c04.Run,
	"C05": c05.Run,
	"C06": c06.Run,
	"C07": c07.Run,
	"C08": c08.Run,
	"C09": c09.Run,
	"C10": c10.Run,
	"C11": c11.Run,
	"C12": c12.Run,
	"C13": c13.Run,
	"C14": c14.Run,
	"C15": c15.Run,
	"C16": c16.Run,
	"C17": c17.Run,
	"C18": c18.Run,
	"C19": c19.Run,
	"C20": c20.Run,
}

func transcript(path string) error { return c18.Transcript(path) }
