package main

import (
	"fmt"

	"go.dedis.ch/kyber/v4"
	"go.dedis.ch/kyber/v4/xof/blake2xb"
	"verif/harness/groups"
)

func try(name string, f func()) (ok bool) {
	defer func() {
		if r := recover(); r != nil {
			fmt.Printf("    %-12s PANIC %v\n", name, r)
			ok = false
		}
	}()
	f()
	fmt.Printf("    %-12s ok\n", name)
	return true
}

func main() {
	for _, g := range groups.All() {
		fmt.Printf("%s: %s  PointLen=%d ScalarLen=%d ptype=%T stype=%T\n", g.Name, g.Group.String(), g.Group.PointLen(), g.Group.ScalarLen(), g.Group.Point(), g.Group.Scalar())
		s := g.Scalar().SetInt64(5)
		var b kyber.Point
		try("Base", func() { b = g.Point().Base(); _ = b.String() })
		try("Null", func() { g.Point().Null() })
		try("Mul(s,nil)", func() { g.Point().Mul(s, nil) })
		try("Mul(s,B)", func() { g.Point().Mul(s, b) })
		try("Pick", func() { g.Point().Pick(blake2xb.New([]byte("x"))) })
		try("EmbedLen", func() { fmt.Print("    EmbedLen=", g.Point().EmbedLen(), "\n") })
		try("Embed", func() { p := g.Point().Embed([]byte("hi"), blake2xb.New([]byte("x"))); d, err := p.Data(); fmt.Printf("    data=%q err=%v\n", d, err) })
		try("Hash", func() {
			h, ok := g.Point().(interface{ Hash([]byte) kyber.Point })
			if !ok {
				panic("no Hash method")
			}
			h.Hash([]byte("m"))
		})
		try("Order", func() { fmt.Println("    order", g.Scalar().GroupOrder().String()) })
		_, ok := g.Point().(kyber.AllowsVarTime)
		fmt.Println("    AllowsVarTime:", ok)
		_, ok = g.Point().(kyber.SubGroupElement)
		fmt.Println("    SubGroupElement:", ok)
	}
}
