// Package fmod is the free Z_q-module reference model of a kyber group: a
// value is a coefficient vector over independent generators; Add/Sub/Neg/Mul
// act linearly. Canon recomputes the group element of a vector through a
// path that uses only Point.Add (doubling tables), independent of Mul.
package fmod

import (
	"bytes"
	"fmt"
	"math/big"
	"sync"

	"go.dedis.ch/kyber/v4"
	"verif/harness/alpha"
	"verif/harness/groups"
)

type Vec []*big.Int

func (v Vec) Key() string {
	s := ""
	for _, c := range v {
		s += c.Text(62) + ","
	}
	return s
}
func (v Vec) Eq(w Vec) bool { return v.Key() == w.Key() }
func (v Vec) IsZero() bool {
	for _, c := range v {
		if c.Sign() != 0 {
			return false
		}
	}
	return true
}

// V is an implementation value with its model vector and the expression that made it.
type V struct {
	Name string
	P    kyber.Point
	Vec  Vec
}

type Model struct {
	G      *groups.G
	Q      *big.Int
	Gens   []kyber.Point
	GenNm  []string
	tables [][]kyber.Point
	mu     sync.Mutex
	cache  map[string]kyber.Point
}

func hashTo(g *groups.G, msg []byte) kyber.Point {
	type hp interface{ Hash([]byte) kyber.Point }
	return g.Point().(hp).Hash(msg)
}

// New builds the model with up to three independent generators.
func New(g *groups.G) *Model {
	m := &Model{G: g, Q: g.Order, cache: map[string]kyber.Point{}}
	m.Gens = append(m.Gens, g.Gen())
	m.GenNm = append(m.GenNm, "B")
	if g.Pick {
		m.Gens = append(m.Gens, g.Point().Pick(alpha.Stream("fmod-g1-"+g.Name)))
		m.GenNm = append(m.GenNm, "g1")
	} else if g.Kind == "GT" {
		s := g.Suite
		m.Gens = append(m.Gens, s.Pair(s.G1().Point().Pick(alpha.Stream("fmod-g1-"+g.Name)), s.G2().Point().Base()))
		m.GenNm = append(m.GenNm, "g1")
	}
	if g.Hash {
		m.Gens = append(m.Gens, hashTo(g, []byte("verif fmod generator g2")))
		m.GenNm = append(m.GenNm, "g2")
	} else if g.Embed {
		m.Gens = append(m.Gens, g.Point().Embed([]byte("verif-g2"), alpha.Stream("fmod-g2-"+g.Name)))
		m.GenNm = append(m.GenNm, "g2")
	}
	nb := m.Q.BitLen()
	for _, gen := range m.Gens {
		t := make([]kyber.Point, nb)
		t[0] = gen
		for i := 1; i < nb; i++ {
			t[i] = g.Point().Add(t[i-1], t[i-1])
		}
		m.tables = append(m.tables, t)
	}
	return m
}

func (m *Model) Zero() Vec {
	v := make(Vec, len(m.Gens))
	for i := range v {
		v[i] = new(big.Int)
	}
	return v
}
func (m *Model) Unit(i int) Vec { v := m.Zero(); v[i].SetInt64(1); return v }
func (m *Model) VAdd(a, b Vec) Vec {
	v := m.Zero()
	for i := range v {
		v[i].Add(a[i], b[i]).Mod(v[i], m.Q)
	}
	return v
}
func (m *Model) VSub(a, b Vec) Vec {
	v := m.Zero()
	for i := range v {
		v[i].Sub(a[i], b[i]).Mod(v[i], m.Q)
	}
	return v
}
func (m *Model) VNeg(a Vec) Vec { return m.VSub(m.Zero(), a) }
func (m *Model) VMul(s *big.Int, a Vec) Vec {
	v := m.Zero()
	for i := range v {
		v[i].Mul(s, a[i]).Mod(v[i], m.Q)
	}
	return v
}

// Canon returns the group element of vec, built with Add only.
func (m *Model) Canon(vec Vec) kyber.Point {
	k := vec.Key()
	m.mu.Lock()
	p, ok := m.cache[k]
	m.mu.Unlock()
	if ok {
		return p
	}
	acc := m.G.Point().Null()
	for gi, c := range vec {
		for b := 0; b < c.BitLen(); b++ {
			if c.Bit(b) == 1 {
				acc = m.G.Point().Add(acc, m.tables[gi][b])
			}
		}
	}
	m.mu.Lock()
	m.cache[k] = acc
	m.mu.Unlock()
	return acc
}

func Enc(p kyber.Point) []byte {
	b, err := p.MarshalBinary()
	if err != nil {
		panic(fmt.Sprintf("MarshalBinary: %v", err))
	}
	return b
}

// Agree checks an implementation value against its model vector: Equal both
// ways and identical encodings. It returns "" or a description.
func (m *Model) Agree(v V) string {
	c := m.Canon(v.Vec)
	if !v.P.Equal(c) {
		return fmt.Sprintf("%s: not Equal to the model value %s (got %x want %x)", v.Name, m.Describe(v.Vec), head(Enc(v.P)), head(Enc(c)))
	}
	if !c.Equal(v.P) {
		return fmt.Sprintf("%s: model.Equal(result) false although result.Equal(model) true", v.Name)
	}
	if !bytes.Equal(Enc(v.P), Enc(c)) {
		return fmt.Sprintf("%s: Equal to the model value but encodings differ (%x vs %x)", v.Name, head(Enc(v.P)), head(Enc(c)))
	}
	return ""
}

func head(b []byte) []byte {
	if len(b) > 40 {
		return b[:40]
	}
	return b
}

func (m *Model) Describe(v Vec) string {
	s := ""
	for i, c := range v {
		if c.Sign() != 0 {
			if s != "" {
				s += " + "
			}
			s += c.String() + "*" + m.GenNm[i]
		}
	}
	if s == "" {
		return "O"
	}
	return s
}

// Sc builds an implementation scalar for a model value.
func (m *Model) Sc(v *big.Int) kyber.Scalar { return alpha.ToScalar(m.G.Scalar(), v, m.Q) }

// Implementation operations paired with the model.
func (m *Model) Add(a, b V) V {
	return V{"Add(" + a.Name + "," + b.Name + ")", m.G.Point().Add(a.P, b.P), m.VAdd(a.Vec, b.Vec)}
}
func (m *Model) Sub(a, b V) V {
	return V{"Sub(" + a.Name + "," + b.Name + ")", m.G.Point().Sub(a.P, b.P), m.VSub(a.Vec, b.Vec)}
}
func (m *Model) Neg(a V) V { return V{"Neg(" + a.Name + ")", m.G.Point().Neg(a.P), m.VNeg(a.Vec)} }
func (m *Model) Mul(s alpha.NS, a V) V {
	return V{"Mul(" + s.Name + "," + a.Name + ")", m.G.Point().Mul(m.Sc(s.V), a.P), m.VMul(s.V, a.Vec)}
}
func (m *Model) MulBase(s alpha.NS) V {
	return V{"Mul(" + s.Name + ",nil)", m.G.Point().Mul(m.Sc(s.V), nil), m.VMul(s.V, m.Unit(0))}
}
func (m *Model) Null() V  { return V{"O", m.G.Point().Null(), m.Zero()} }
func (m *Model) Gen(i int) V { return V{m.GenNm[i], m.Gens[i], m.Unit(i)} }

// Decoded returns decode(encode(v)): the normalised representation.
func (m *Model) Decoded(v V) V {
	p := m.G.Point()
	if err := p.UnmarshalBinary(Enc(v.P)); err != nil {
		panic(fmt.Sprintf("decode(encode(%s)): %v", v.Name, err))
	}
	return V{"dec(" + v.Name + ")", p, v.Vec}
}
