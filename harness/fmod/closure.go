package fmod

import (
	"math/big"

	"verif/harness/alpha"
)

// Closure returns a set of API-reachable values in different internal
// representations: seeds (O, generators, a decoded multiple), their pairwise
// Add/Sub, Neg, and Mul by the scalars S (also through Mul(s,nil)). It is
// de-duplicated by (vector, top-level operation) and thinned to maxR values
// (seeds always kept). No oracle is applied here.
func (m *Model) Closure(S []alpha.NS, maxR int) []V {
	var seeds []V
	seeds = append(seeds, m.Null())
	for i := range m.Gens {
		seeds = append(seeds, m.Gen(i))
	}
	seeds = append(seeds, m.Decoded(m.Mul(alpha.NS{Name: "5", V: big.NewInt(5)}, m.Gen(0))))
	R := append([]V{}, seeds...)
	for _, a := range seeds {
		R = append(R, m.Neg(a))
		for _, b := range seeds {
			R = append(R, m.Add(a, b), m.Sub(a, b))
		}
	}
	for _, s := range S {
		R = append(R, m.Mul(s, seeds[1]))
		if len(m.Gens) > 1 {
			R = append(R, m.Mul(s, seeds[2]))
		}
		if m.G.MulNil {
			R = append(R, m.MulBase(s))
		}
	}
	seen := map[string]bool{}
	var RR []V
	for _, v := range R {
		k := v.Vec.Key() + "|" + op(v.Name)
		if seen[k] {
			continue
		}
		seen[k] = true
		RR = append(RR, v)
	}
	R = RR
	if maxR > 0 && len(R) > maxR {
		keep := append([]V{}, R[:len(seeds)]...)
		rest := R[len(seeds):]
		n := maxR - len(seeds)
		for i := 0; i < n; i++ {
			keep = append(keep, rest[i*len(rest)/n])
		}
		R = keep
	}
	return R
}

func op(name string) string {
	for i, ch := range name {
		if ch == '(' {
			return name[:i]
		}
	}
	return "seed"
}
