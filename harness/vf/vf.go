// Package vf is the shared runtime of every check: case enumeration with
// replay filtering, violation bookkeeping against known_findings.json,
// measured coverage counters and the evidence writer.
//
// Execution model. A check is run by a parent process that starts N worker
// processes of the same binary (VERIF_SHARD=k/N). Every worker executes the
// same deterministic check code single-threaded; vf.Parallel(n, f) hands out
// the indices 0..n-1 so that each index is executed by exactly one worker
// (claimed through O_EXCL files). Workers write partial results; the parent
// merges them, writes the evidence file and prints the verdict. Process-level
// (not goroutine-level) parallelism is deliberate: the code under test is
// only ever driven from one goroutine per process, so package-level state in
// kyber (tables, scratch buffers) can never be raced by the harness itself -
// such races belong to C20 alone - and every case is a deterministic function
// of the cases its worker ran before it.
package vf

import (
	"bufio"
	"bytes"
	"crypto/sha256"
	"encoding/binary"
	"encoding/json"
	"fmt"
	"os"
	"os/exec"
	"path/filepath"
	"runtime"
	"runtime/debug"
	"sort"
	"strconv"
	"strings"
	"sync"
	"time"
)

// Root is the /verif directory (known findings live here).
func Root() string {
	if r := os.Getenv("VERIF_ROOT"); r != "" {
		return r
	}
	return "/verif"
}

// Out is where evidence and replay files go (default Root()).
func Out() string {
	if r := os.Getenv("VERIF_OUT"); r != "" {
		return r
	}
	return Root()
}

type Finding struct {
	Property string `json:"property"`
	Key      string `json:"key"`
	What     string `json:"what"`
	Status   string `json:"status"` // open | fixed
	Commit   string `json:"commit,omitempty"`
}

type failure struct {
	Key    string `json:"key"`
	What   string `json:"what"`
	Detail any    `json:"detail,omitempty"`
}

// Ctx is handed to one case; Fail records an oracle failure of that case.
type Ctx struct {
	ID    string
	c     *Check
	fails []failure
}

func (x *Ctx) Fail(key, what string, detail any) {
	x.fails = append(x.fails, failure{key, what, detail})
}
func (x *Ctx) Failf(key string, format string, a ...any) {
	x.Fail(key, fmt.Sprintf(format, a...), nil)
}
func (x *Ctx) Failed() bool { return len(x.fails) > 0 }

type violation struct {
	failure
	CaseID string `json:"case_id"`
	Count  int    `json:"count"`
}

// partial is what one worker hands to the parent.
type partial struct {
	Evals       int64                 `json:"evals"`
	Counters    map[string]int64      `json:"counters"`
	Classes     map[string]int64      `json:"classes"`
	Samples     map[string][]any      `json:"samples"`
	Notes       []string              `json:"notes"`
	Viol        map[string]*violation `json:"viol"`
	Capped      []string              `json:"capped"`
	Broken      []string              `json:"broken"`
	OnlyHit     bool                  `json:"only_hit"`
	Level       string                `json:"level"`
	Rule        string                `json:"rule"`
	Assumptions []string              `json:"assumptions"`
	Extra       map[string]any        `json:"extra"`
	Finished    bool                  `json:"finished"`
}

type Check struct {
	ID, Tier string
	Seed     int64
	Level    string // evidence level
	Only     string // replay filter: run only the case with this id
	start    time.Time
	deadline time.Time

	mu    sync.Mutex // the watchdog goroutine is the only concurrent accessor
	p     partial
	nt    map[uint64]struct{}
	known []Finding
}

// worker identity (process-wide)
var (
	shardK, shardN int
	partDir        string
	parSeq         int
	inPar          bool
)

func New(id, tier string) *Check {
	c := &Check{ID: id, Tier: tier, Level: "model_checking", start: time.Now(), nt: map[uint64]struct{}{}}
	c.p = partial{Counters: map[string]int64{}, Classes: map[string]int64{}, Samples: map[string][]any{}, Viol: map[string]*violation{}}
	if s := os.Getenv("VERIF_SEED"); s != "" {
		if v, err := strconv.ParseInt(s, 10, 64); err == nil {
			c.Seed = v
		}
	}
	c.Only = os.Getenv("VERIF_ONLY")
	if s := os.Getenv("VERIF_SHARD"); s != "" {
		fmt.Sscanf(s, "%d/%d", &shardK, &shardN)
		partDir = os.Getenv("VERIF_PARTDIR")
	}
	// internal deadline: exhaustive:false, never a violation
	lim := 20 * time.Minute
	if tier == "thorough" {
		lim = 100 * time.Minute
	}
	if s := os.Getenv("VERIF_DEADLINE_S"); s != "" {
		if v, err := strconv.Atoi(s); err == nil {
			lim = time.Duration(v) * time.Second
		}
	}
	c.deadline = c.start.Add(lim)
	current = c
	b, err := os.ReadFile(filepath.Join(Root(), "known_findings.json"))
	if err == nil {
		var all []Finding
		if err := json.Unmarshal(b, &all); err != nil {
			fmt.Println("HARNESS-ERROR: known_findings.json unreadable:", err)
			os.Exit(2)
		}
		for _, f := range all {
			if f.Property == id {
				c.known = append(c.known, f)
			}
		}
	}
	return c
}

func (c *Check) Thorough() bool { return c.Tier == "thorough" }

// Expired reports whether the internal deadline passed; callers stop
// enumerating and call Cap.
func (c *Check) Expired() bool { return time.Now().After(c.deadline) }

// counting: work outside Parallel is repeated by every worker and must be
// counted once.
func counting() bool { return shardN == 0 || inPar || shardK == 0 }

// Cap records that part of the space was not covered.
func (c *Check) Cap(what string) {
	c.mu.Lock()
	defer c.mu.Unlock()
	for _, w := range c.p.Capped {
		if w == what {
			return
		}
	}
	c.p.Capped = append(c.p.Capped, what)
}

func (c *Check) Note(s string) {
	if !counting() {
		return
	}
	c.mu.Lock()
	c.p.Notes = append(c.p.Notes, s)
	c.mu.Unlock()
}

// Count adds to a named measured counter (states, transitions, ...).
func (c *Check) Count(name string, n int64) {
	if !counting() {
		return
	}
	c.mu.Lock()
	c.p.Counters[name] += n
	c.mu.Unlock()
}

// Eval counts n oracle evaluations.
func (c *Check) Eval(n int) {
	if counting() {
		c.p.Evals += int64(n)
	}
}

// Nontrivial records a distinct non-trivial case descriptor.
func (c *Check) Nontrivial(desc string) {
	if !counting() {
		return
	}
	h := sha256.Sum256([]byte(desc))
	c.nt[binary.LittleEndian.Uint64(h[:8])] = struct{}{}
}

// Class counts an observed outcome class and keeps the first samples of it.
func (c *Check) Class(class string, sample func() any) {
	if !counting() {
		return
	}
	c.mu.Lock()
	c.p.Classes[class]++
	if len(c.p.Samples[class]) < 3 && sample != nil {
		c.p.Samples[class] = append(c.p.Samples[class], sample())
	}
	c.mu.Unlock()
}

// CaseOnce is Case without the re-runs: for oracles whose evidence is produced
// once per process (the race detector reports a given race a single time).
func (c *Check) CaseOnce(id, panicKey string, f func(x *Ctx)) {
	if c.Only != "" {
		if id != c.Only {
			return
		}
		c.p.OnlyHit = true
	}
	x := c.runOnce(id, panicKey, f)
	c.mu.Lock()
	defer c.mu.Unlock()
	for _, fl := range x.fails {
		c.addViolation(&violation{failure: fl, CaseID: id, Count: 1})
	}
}

// Case runs one self-contained, deterministic case. A panic inside is an
// oracle failure with key panicKey+"/panic". A failing case is re-run 4 more
// times and must fail every time before it is believed.
func (c *Check) Case(id, panicKey string, f func(x *Ctx)) {
	if c.Only != "" {
		if id != c.Only {
			return
		}
		c.p.OnlyHit = true
	}
	x := c.runOnce(id, panicKey, f)
	if len(x.fails) == 0 {
		return
	}
	sig := failSig(x.fails)
	for i := 0; i < 4; i++ {
		y := c.runOnce(id, panicKey, f)
		if len(y.fails) == 0 {
			// failed once, passed on an identical re-run: not believed, and not hidden
			c.Broken("case %q is not deterministic: failed with %s, then passed on re-run", id, sig)
			return
		}
		// failing on every run, possibly with differing detail (state leaking out of
		// the code under test, e.g. a corrupted package-level value): a violation; the
		// first run's description is kept.
	}
	c.mu.Lock()
	defer c.mu.Unlock()
	for _, fl := range x.fails {
		c.addViolation(&violation{failure: fl, CaseID: id, Count: 1})
	}
}

func (c *Check) addViolation(v *violation) {
	old := c.p.Viol[v.Key]
	if old == nil {
		c.p.Viol[v.Key] = v
		return
	}
	old.Count += v.Count
	// keep the shortest (then smallest) case as the representative
	if len(v.CaseID) < len(old.CaseID) || (len(v.CaseID) == len(old.CaseID) && v.CaseID < old.CaseID) {
		old.CaseID, old.What, old.Detail = v.CaseID, v.What, v.Detail
	}
}

func matchKey(pat, key string) bool {
	// '*' matches any run of characters
	parts := strings.Split(pat, "*")
	if len(parts) == 1 {
		return pat == key
	}
	if !strings.HasPrefix(key, parts[0]) {
		return false
	}
	key = key[len(parts[0]):]
	for i := 1; i < len(parts)-1; i++ {
		j := strings.Index(key, parts[i])
		if j < 0 {
			return false
		}
		key = key[j+len(parts[i]):]
	}
	return strings.HasSuffix(key, parts[len(parts)-1])
}

func failSig(fs []failure) string {
	var ks []string
	for _, f := range fs {
		ks = append(ks, f.Key+"|"+f.What)
	}
	return strings.Join(ks, ";")
}

// caseTimeout is the watchdog for one case. Cases take micro- to milliseconds;
// one that is still running after this long is reported as non-terminating.
func (c *Check) caseTimeout() time.Duration {
	if s := os.Getenv("VERIF_CASE_TIMEOUT_S"); s != "" {
		if v, err := strconv.Atoi(s); err == nil {
			return time.Duration(v) * time.Second
		}
	}
	if c.Tier == "thorough" {
		return 15 * time.Minute
	}
	return 4 * time.Minute
}

func (c *Check) runOnce(id, panicKey string, f func(x *Ctx)) *Ctx {
	done := make(chan *Ctx, 1)
	go func() { done <- c.runOnceInline(id, panicKey, f) }()
	t := time.NewTimer(c.caseTimeout())
	defer t.Stop()
	select {
	case x := <-done:
		return x
	case <-t.C:
		// The code under test does not return (the goroutine cannot be killed and the
		// process state is suspect): report and stop this worker here.
		c.mu.Lock()
		c.addViolation(&violation{failure: failure{Key: panicKey + "/hang",
			What: fmt.Sprintf("case did not terminate within %v (non-termination in the code under test)", c.caseTimeout())}, CaseID: id, Count: 1})
		c.p.Capped = append(c.p.Capped, "a worker stopped after a non-terminating case")
		c.mu.Unlock()
		c.Finish("", nil, nil)
		return nil
	}
}

func (c *Check) runOnceInline(id, panicKey string, f func(x *Ctx)) (x *Ctx) {
	x = &Ctx{ID: id, c: c}
	defer func() {
		if r := recover(); r != nil {
			st := string(debug.Stack())
			lines := strings.Split(st, "\n")
			if len(lines) > 24 {
				lines = lines[:24]
			}
			x.Fail(panicKey+"/panic", fmt.Sprintf("panic: %v", r), strings.Join(lines, "\n"))
		}
	}()
	f(x)
	return x
}

// Broken records a harness-internal failure (exit 2, never a VIOLATION).
func (c *Check) Broken(format string, a ...any) {
	c.mu.Lock()
	c.p.Broken = append(c.p.Broken, fmt.Sprintf(format, a...))
	c.mu.Unlock()
}

// current is the check of this process (one check per process).
var current *Check

// Parallel executes f(i) for every i in [0,n): in a worker, for the indices
// this worker claims; in single-process mode, for all of them in order.
func Parallel(n int, f func(i int)) {
	parSeq++
	inPar = true
	defer func() { inPar = false }()
	if shardN == 0 {
		for i := 0; i < n; i++ {
			if current != nil && current.Expired() && current.Only == "" {
				current.Cap(fmt.Sprintf("internal deadline reached in parallel section %d of %d items (items not yet started were skipped)", parSeq, n))
				break
			}
			f(i)
		}
		return
	}
	dir := filepath.Join(partDir, fmt.Sprintf("claims-%d", parSeq))
	_ = os.MkdirAll(dir, 0o755)
	// start at a worker-specific offset so that neighbours do not collide on every item
	off := shardK * n / shardN
	for j := 0; j < n; j++ {
		i := (off + j) % n
		if current != nil && current.Expired() {
			// internal deadline: stop claiming work; the run is reported as not exhaustive
			current.Cap(fmt.Sprintf("internal deadline reached in parallel section %d of %d items (items not yet started were skipped)", parSeq, n))
			break
		}
		fh, err := os.OpenFile(filepath.Join(dir, strconv.Itoa(i)), os.O_CREATE|os.O_EXCL|os.O_WRONLY, 0o644)
		if err != nil {
			continue // claimed by another worker
		}
		fh.Close()
		f(i)
	}
}

// Finish ends the check: a worker writes its partial result, a single process
// (replay / VERIF_WORKERS=0) finalises directly.
func (c *Check) Finish(rule string, assumptions []string, extra map[string]any) {
	c.mu.Lock()
	c.p.Level, c.p.Rule, c.p.Assumptions, c.p.Extra = c.Level, rule, assumptions, extra
	c.p.Finished = true
	c.mu.Unlock()
	if shardN == 0 {
		c.finalize(&c.p, c.nt)
		return
	}
	c.mu.Lock()
	b, err := json.Marshal(&c.p)
	if err != nil {
		// a sample or detail that does not serialise: drop them rather than lose the verdict
		c.p.Samples, c.p.Extra = nil, nil
		b, _ = json.Marshal(&c.p)
	}
	nb := make([]byte, 0, 8*len(c.nt))
	for k := range c.nt {
		nb = binary.LittleEndian.AppendUint64(nb, k)
	}
	base := filepath.Join(partDir, fmt.Sprintf("part-%d", shardK))
	_ = os.WriteFile(base+".nt", nb, 0o644)
	_ = os.WriteFile(base+".json.tmp", b, 0o644)
	_ = os.Rename(base+".json.tmp", base+".json")
	os.Exit(0)
}

// IsParent reports whether this process should orchestrate workers.
func (c *Check) IsParent() bool {
	return shardN == 0 && c.Only == "" && workers() > 0
}

func workers() int {
	if s := os.Getenv("VERIF_WORKERS"); s != "" {
		if v, err := strconv.Atoi(s); err == nil {
			return v
		}
	}
	n := runtime.NumCPU()
	if n > 16 {
		n = 16
	}
	return n
}

// RunParent starts the workers, merges their partial results and finalises.
func (c *Check) RunParent() {
	n := workers()
	_ = os.MkdirAll(Out(), 0o755)
	dir, err := os.MkdirTemp(Out(), ".run-"+c.ID+"-")
	if err != nil {
		fmt.Println("HARNESS-ERROR: cannot create run directory:", err)
		os.Exit(2)
	}
	defer os.RemoveAll(dir)
	self, _ := os.Executable()
	type wres struct {
		err    error
		stderr string
	}
	res := make([]wres, n)
	var wg sync.WaitGroup
	for k := 0; k < n; k++ {
		wg.Add(1)
		go func(k int) {
			defer wg.Done()
			cmd := exec.Command(self, os.Args[1:]...)
			cmd.Env = append(os.Environ(), fmt.Sprintf("VERIF_SHARD=%d/%d", k, n), "VERIF_PARTDIR="+dir, "GOMAXPROCS=2")
			var eb bytes.Buffer
			cmd.Stderr = &eb
			cmd.Stdout = &eb
			res[k].err = cmd.Run()
			s := eb.String()
			if len(s) > 6000 {
				s = s[:3000] + "\n...\n" + s[len(s)-3000:]
			}
			res[k].stderr = s
		}(k)
	}
	wg.Wait()
	merged := partial{Counters: map[string]int64{}, Classes: map[string]int64{}, Samples: map[string][]any{}, Viol: map[string]*violation{}}
	nt := map[uint64]struct{}{}
	c.p = merged
	for k := 0; k < n; k++ {
		base := filepath.Join(dir, fmt.Sprintf("part-%d", k))
		b, err := os.ReadFile(base + ".json")
		var p partial
		if err == nil {
			err = json.Unmarshal(b, &p)
		}
		if err != nil || !p.Finished {
			// the worker died without reporting: a crash of the runtime itself
			out := res[k].stderr
			if strings.Contains(out, "go.dedis.ch/kyber") && (strings.Contains(out, "fatal error:") || strings.Contains(out, "stack exceeds")) {
				c.addViolation(&violation{failure: failure{Key: c.ID + "/fatal-crash", What: "a worker process died with a Go runtime fatal error inside kyber code", Detail: out}, CaseID: fmt.Sprintf("worker %d", k), Count: 1})
			} else {
				c.p.Broken = append(c.p.Broken, fmt.Sprintf("worker %d ended without a result (%v): %s", k, res[k].err, out))
			}
			continue
		}
		c.p.Evals += p.Evals
		for kk, v := range p.Counters {
			c.p.Counters[kk] += v
		}
		for kk, v := range p.Classes {
			c.p.Classes[kk] += v
		}
		for kk, v := range p.Samples {
			for _, s := range v {
				if len(c.p.Samples[kk]) < 3 {
					c.p.Samples[kk] = append(c.p.Samples[kk], s)
				}
			}
		}
		c.p.Notes = append(c.p.Notes, p.Notes...)
		for _, v := range p.Viol {
			c.addViolation(v)
		}
		for _, w := range p.Capped {
			c.Cap(w)
		}
		c.p.Broken = append(c.p.Broken, p.Broken...)
		if p.Rule != "" {
			c.p.Level, c.p.Rule, c.p.Assumptions, c.p.Extra = p.Level, p.Rule, p.Assumptions, p.Extra
		}
		if nb, err := os.ReadFile(base + ".nt"); err == nil {
			for i := 0; i+8 <= len(nb); i += 8 {
				nt[binary.LittleEndian.Uint64(nb[i:])] = struct{}{}
			}
		}
	}
	sort.Strings(c.p.Notes)
	if c.p.Level != "" {
		c.Level = c.p.Level
	}
	c.finalize(&c.p, nt)
}

// finalize writes evidence and replay files, prints the verdict lines and exits.
func (c *Check) finalize(p *partial, nts map[uint64]struct{}) {
	wall := time.Since(c.start).Seconds()
	if len(p.Broken) > 0 {
		seen := map[string]bool{}
		for _, b := range p.Broken {
			if !seen[b] {
				fmt.Println("HARNESS-ERROR:", b)
			}
			seen[b] = true
		}
		os.Exit(2)
	}
	if c.Only != "" && !p.OnlyHit {
		fmt.Printf("HARNESS-ERROR: replay case %q not found in the enumeration\n", c.Only)
		os.Exit(2)
	}
	nt := len(nts)
	cov := map[string]any{
		"evaluations":         p.Evals,
		"distinct_nontrivial": nt,
		"rule":                p.Rule,
		"exhaustive":          len(p.Capped) == 0,
		"outcome_classes":     p.Classes,
		"worker_processes":    workers(),
	}
	if len(p.Capped) > 0 {
		cov["caps_hit"] = p.Capped
	}
	for k, v := range p.Counters {
		cov[k] = v
	}
	var samples []any
	var cls []string
	for k := range p.Samples {
		cls = append(cls, k)
	}
	sort.Strings(cls)
	for _, k := range cls {
		for _, s := range p.Samples[k] {
			if len(samples) < 40 {
				samples = append(samples, map[string]any{"class": k, "case": s})
			}
		}
	}
	cov["samples"] = samples
	if len(p.Notes) > 0 {
		cov["notes"] = p.Notes
	}
	for k, v := range p.Extra {
		cov[k] = v
	}
	var keys []string
	for k := range p.Viol {
		keys = append(keys, k)
	}
	sort.Strings(keys)
	nviol := 0
	exit := 0
	var vlist []any
	out := bufio.NewWriter(os.Stdout)
	kfSeen := map[string]bool{}
	for _, k := range keys {
		v := p.Viol[k]
		var kf *Finding
		for i := range c.known {
			if c.known[i].Status == "open" && matchKey(c.known[i].Key, k) {
				kf = &c.known[i]
			}
		}
		if kf != nil {
			// one line per listed finding: the first matching key prints it, further keys of the same entry are counted
			if !kfSeen[kf.Key] {
				kfSeen[kf.Key] = true
				fmt.Fprintf(out, "KNOWN-FINDING: property=%s %s [%s] (%d cases, e.g. %s)\n", c.ID, kf.What, v.Key, v.Count, v.CaseID)
			}
			vlist = append(vlist, map[string]any{"key": k, "known_finding": true, "cases": v.Count})
			continue
		}
		nviol++
		exit = 1
		h := sha256.Sum256([]byte(k + "\x00" + v.CaseID))
		rp := filepath.Join(Out(), "replays", fmt.Sprintf("%s-%x.json", c.ID, h[:6]))
		_ = os.MkdirAll(filepath.Dir(rp), 0o755)
		rb, _ := json.MarshalIndent(map[string]any{
			"property": c.ID, "tier": c.Tier, "seed": c.Seed, "key": k, "case_id": v.CaseID,
			"what": v.What, "detail": v.Detail, "cases_with_this_key": v.Count,
			"replay": fmt.Sprintf("./vf replay %s", rp),
		}, "", " ")
		_ = os.WriteFile(rp, rb, 0o644)
		fmt.Fprintf(out, "VIOLATION property=%s replay=%s\n", c.ID, rp)
		fmt.Fprintf(out, "  key=%s case=%s\n  %s\n", k, v.CaseID, v.What)
		vlist = append(vlist, map[string]any{"key": k, "case": v.CaseID, "what": v.What, "cases": v.Count, "replay": rp})
	}
	if len(vlist) > 0 {
		cov["violation_list"] = vlist
	}
	ev := map[string]any{
		"property_id": c.ID, "tier": c.Tier, "seed": c.Seed, "level": c.Level,
		"coverage": cov, "assumptions": p.Assumptions, "wall_s": wall, "violations": nviol,
	}
	if c.Only == "" {
		b, _ := json.MarshalIndent(ev, "", " ")
		_ = os.MkdirAll(filepath.Join(Out(), "evidence"), 0o755)
		name := c.ID + ".json"
		if sfx := os.Getenv("VERIF_EVIDENCE_SUFFIX"); sfx != "" {
			name = c.ID + "." + sfx + ".part"
		}
		if err := os.WriteFile(filepath.Join(Out(), "evidence", name), b, 0o644); err != nil {
			fmt.Fprintln(out, "HARNESS-ERROR: cannot write evidence:", err)
			out.Flush()
			os.Exit(2)
		}
	}
	fmt.Fprintf(out, "%s %s: evaluations=%d distinct_nontrivial=%d classes=%d violations=%d exhaustive=%v wall=%.1fs\n",
		c.ID, c.Tier, p.Evals, nt, len(p.Classes), nviol, len(p.Capped) == 0, wall)
	var cn []string
	for k := range p.Counters {
		cn = append(cn, k)
	}
	sort.Strings(cn)
	for _, k := range cn {
		fmt.Fprintf(out, "  %s=%d\n", k, p.Counters[k])
	}
	out.Flush()
	os.Exit(exit)
}

// ViolationKeys lists the violations recorded so far in this process (development aid).
func (c *Check) ViolationKeys() []string {
	c.mu.Lock()
	defer c.mu.Unlock()
	var out []string
	for k, v := range c.p.Viol {
		out = append(out, fmt.Sprintf("%s x%d: %s [%s]", k, v.Count, v.What, v.CaseID))
	}
	sort.Strings(out)
	return out
}
