// Package vf is the shared runtime of every check: case enumeration with
// replay filtering, violation bookkeeping against known_findings.json,
// measured coverage counters and the evidence writer.
package vf

import (
	"crypto/sha256"
	"encoding/binary"
	"encoding/json"
	"fmt"
	"os"
	"path/filepath"
	"runtime"
	"runtime/debug"
	"sort"
	"strconv"
	"strings"
	"sync"
	"sync/atomic"
	"time"
)

// Root is the /verif directory (evidence, replays, known findings live here).
func Root() string {
	if r := os.Getenv("VERIF_ROOT"); r != "" {
		return r
	}
	return "/verif"
}

type Finding struct {
	Property string `json:"property"`
	Key      string `json:"key"`
	What     string `json:"what"`
	Status   string `json:"status"` // open | fixed
	Commit   string `json:"commit,omitempty"`
}

type failure struct {
	Key    string `json:"key"`
	What   string `json:"what"`
	Detail any    `json:"detail,omitempty"`
}

// Ctx is handed to one case; Fail records an oracle failure of that case.
type Ctx struct {
	ID    string
	c     *Check
	fails []failure
}

func (x *Ctx) Fail(key, what string, detail any) {
	x.fails = append(x.fails, failure{key, what, detail})
}
func (x *Ctx) Failf(key string, format string, a ...any) {
	x.Fail(key, fmt.Sprintf(format, a...), nil)
}
func (x *Ctx) Failed() bool { return len(x.fails) > 0 }

type Check struct {
	ID, Tier string
	Seed     int64
	Level    string // evidence level
	Only     string // replay filter: run only the case with this id
	start    time.Time
	deadline time.Time

	evals atomic.Int64
	mu    sync.Mutex
	nt    [64]map[uint64]struct{}
	ntmu  [64]sync.Mutex

	classes  map[string]int64
	samples  map[string][]any
	counters map[string]int64
	notes    []string
	viol     map[string]*violation // by key
	known    []Finding
	capped   []string
	broken   []string
	onlyHit  bool
}

type violation struct {
	failure
	CaseID string
	count  int
	known  *Finding
	replay string
}

func New(id, tier string) *Check {
	c := &Check{ID: id, Tier: tier, Level: "model_checking", start: time.Now(),
		classes: map[string]int64{}, samples: map[string][]any{}, counters: map[string]int64{}, viol: map[string]*violation{}}
	for i := range c.nt {
		c.nt[i] = map[uint64]struct{}{}
	}
	if s := os.Getenv("VERIF_SEED"); s != "" {
		if v, err := strconv.ParseInt(s, 10, 64); err == nil {
			c.Seed = v
		}
	}
	c.Only = os.Getenv("VERIF_ONLY")
	// internal deadline: exhaustive:false, never a violation
	lim := 20 * time.Minute
	if tier == "thorough" {
		lim = 3 * time.Hour
	}
	if s := os.Getenv("VERIF_DEADLINE_S"); s != "" {
		if v, err := strconv.Atoi(s); err == nil {
			lim = time.Duration(v) * time.Second
		}
	}
	c.deadline = c.start.Add(lim)
	b, err := os.ReadFile(filepath.Join(Root(), "known_findings.json"))
	if err == nil {
		var all []Finding
		if err := json.Unmarshal(b, &all); err != nil {
			fmt.Fprintln(os.Stderr, "known_findings.json unreadable:", err)
			os.Exit(2)
		}
		for _, f := range all {
			if f.Property == id {
				c.known = append(c.known, f)
			}
		}
	}
	return c
}

func (c *Check) Thorough() bool { return c.Tier == "thorough" }

// Expired reports whether the internal deadline passed; callers stop
// enumerating and call Cap.
func (c *Check) Expired() bool { return time.Now().After(c.deadline) }

// Cap records that part of the space was not covered.
func (c *Check) Cap(what string) {
	c.mu.Lock()
	defer c.mu.Unlock()
	for _, w := range c.capped {
		if w == what {
			return
		}
	}
	c.capped = append(c.capped, what)
}

func (c *Check) Note(s string) {
	c.mu.Lock()
	c.notes = append(c.notes, s)
	c.mu.Unlock()
}

// Count adds to a named measured counter (states, transitions, ...).
func (c *Check) Count(name string, n int64) {
	c.mu.Lock()
	c.counters[name] += n
	c.mu.Unlock()
}

// Eval counts n oracle evaluations.
func (c *Check) Eval(n int) { c.evals.Add(int64(n)) }

// Nontrivial records a distinct non-trivial case descriptor.
func (c *Check) Nontrivial(desc string) {
	h := sha256.Sum256([]byte(desc))
	k := binary.LittleEndian.Uint64(h[:8])
	i := k & 63
	c.ntmu[i].Lock()
	c.nt[i][k] = struct{}{}
	c.ntmu[i].Unlock()
}

// Class counts an observed outcome class and keeps the first samples of it.
func (c *Check) Class(class string, sample func() any) {
	c.mu.Lock()
	c.classes[class]++
	if len(c.samples[class]) < 3 && sample != nil {
		c.samples[class] = append(c.samples[class], sample())
	}
	c.mu.Unlock()
}

// Case runs one self-contained, deterministic case. A panic inside is an
// oracle failure with key panicKey. A failing case is re-run 4 more times and
// must fail identically before it is believed.
func (c *Check) Case(id, panicKey string, f func(x *Ctx)) {
	if c.Only != "" {
		if id != c.Only {
			return
		}
		c.mu.Lock()
		c.onlyHit = true
		c.mu.Unlock()
	}
	x := c.runOnce(id, panicKey, f)
	if len(x.fails) == 0 {
		return
	}
	sig := failSig(x.fails)
	for i := 0; i < 4; i++ {
		y := c.runOnce(id, panicKey, f)
		if failSig(y.fails) != sig {
			c.mu.Lock()
			c.broken = append(c.broken, fmt.Sprintf("case %q is not deterministic: %s vs %s", id, sig, failSig(y.fails)))
			c.mu.Unlock()
			return
		}
	}
	c.mu.Lock()
	defer c.mu.Unlock()
	for _, fl := range x.fails {
		v := c.viol[fl.Key]
		if v == nil {
			v = &violation{failure: fl, CaseID: id}
			for i := range c.known {
				k := &c.known[i]
				if k.Status == "open" && matchKey(k.Key, fl.Key) {
					v.known = k
				}
			}
			c.viol[fl.Key] = v
		}
		v.count++
	}
}

func matchKey(pat, key string) bool {
	if strings.HasSuffix(pat, "*") {
		return strings.HasPrefix(key, strings.TrimSuffix(pat, "*"))
	}
	return pat == key
}

func failSig(fs []failure) string {
	var ks []string
	for _, f := range fs {
		ks = append(ks, f.Key+"|"+f.What)
	}
	return strings.Join(ks, ";")
}

func (c *Check) runOnce(id, panicKey string, f func(x *Ctx)) (x *Ctx) {
	x = &Ctx{ID: id, c: c}
	defer func() {
		if r := recover(); r != nil {
			st := string(debug.Stack())
			// keep the frames below the panic short
			lines := strings.Split(st, "\n")
			if len(lines) > 24 {
				lines = lines[:24]
			}
			x.Fail(panicKey+"/panic", fmt.Sprintf("panic: %v", r), strings.Join(lines, "\n"))
		}
	}()
	f(x)
	return x
}

// Broken records a harness-internal failure (exit 2, never a VIOLATION).
func (c *Check) Broken(format string, a ...any) {
	c.mu.Lock()
	c.broken = append(c.broken, fmt.Sprintf(format, a...))
	c.mu.Unlock()
}

// Out is where evidence and replay files go (default Root()).
func Out() string {
	if r := os.Getenv("VERIF_OUT"); r != "" {
		return r
	}
	return Root()
}

// Parallel runs f(i) for i in [0,n) on all cores.
func Parallel(n int, f func(i int)) {
	w := runtime.GOMAXPROCS(0)
	if w > n {
		w = n
	}
	var next atomic.Int64
	var wg sync.WaitGroup
	for k := 0; k < w; k++ {
		wg.Add(1)
		go func() {
			defer wg.Done()
			for {
				i := int(next.Add(1)) - 1
				if i >= n {
					return
				}
				f(i)
			}
		}()
	}
	wg.Wait()
}

// Finish writes evidence and replay files, prints the verdict lines and exits.
func (c *Check) Finish(rule string, assumptions []string, extra map[string]any) {
	wall := time.Since(c.start).Seconds()
	if len(c.broken) > 0 {
		for _, b := range c.broken {
			fmt.Println("HARNESS-ERROR:", b)
		}
		os.Exit(2)
	}
	if c.Only != "" && !c.onlyHit {
		fmt.Printf("HARNESS-ERROR: replay case %q not found in the enumeration\n", c.Only)
		os.Exit(2)
	}
	nt := 0
	for i := range c.nt {
		nt += len(c.nt[i])
	}
	cov := map[string]any{
		"evaluations":         c.evals.Load(),
		"distinct_nontrivial": nt,
		"rule":                rule,
		"exhaustive":          len(c.capped) == 0,
		"outcome_classes":     c.classes,
	}
	if len(c.capped) > 0 {
		cov["caps_hit"] = c.capped
	}
	for k, v := range c.counters {
		cov[k] = v
	}
	var samples []any
	var cls []string
	for k := range c.samples {
		cls = append(cls, k)
	}
	sort.Strings(cls)
	for _, k := range cls {
		for _, s := range c.samples[k] {
			samples = append(samples, map[string]any{"class": k, "case": s})
			if len(samples) >= 40 {
				break
			}
		}
	}
	cov["samples"] = samples
	if len(c.notes) > 0 {
		cov["notes"] = c.notes
	}
	for k, v := range extra {
		cov[k] = v
	}
	// violations
	var keys []string
	for k := range c.viol {
		keys = append(keys, k)
	}
	sort.Strings(keys)
	nviol := 0
	exit := 0
	var vlist []any
	for _, k := range keys {
		v := c.viol[k]
		if v.known != nil {
			fmt.Printf("KNOWN-FINDING: property=%s %s [%s] (%d cases, first: %s)\n", c.ID, v.known.What, v.Key, v.count, v.CaseID)
			vlist = append(vlist, map[string]any{"key": k, "known_finding": true, "cases": v.count})
			continue
		}
		nviol++
		exit = 1
		h := sha256.Sum256([]byte(k + "\x00" + v.CaseID))
		rp := filepath.Join(Out(), "replays", fmt.Sprintf("%s-%x.json", c.ID, h[:6]))
		_ = os.MkdirAll(filepath.Dir(rp), 0o755)
		rb, _ := json.MarshalIndent(map[string]any{
			"property": c.ID, "tier": c.Tier, "seed": c.Seed, "key": k, "case_id": v.CaseID,
			"what": v.What, "detail": v.Detail, "cases_with_this_key": v.count,
			"replay": fmt.Sprintf("./vf replay %s", rp),
		}, "", " ")
		_ = os.WriteFile(rp, rb, 0o644)
		fmt.Printf("VIOLATION property=%s replay=%s\n", c.ID, rp)
		fmt.Printf("  key=%s case=%s\n  %s\n", k, v.CaseID, v.What)
		vlist = append(vlist, map[string]any{"key": k, "case": v.CaseID, "what": v.What, "cases": v.count, "replay": rp})
	}
	if len(vlist) > 0 {
		cov["violation_list"] = vlist
	}
	ev := map[string]any{
		"property_id": c.ID, "tier": c.Tier, "seed": c.Seed, "level": c.Level,
		"coverage": cov, "assumptions": assumptions, "wall_s": wall, "violations": nviol,
	}
	if c.Only == "" {
		b, _ := json.MarshalIndent(ev, "", " ")
		_ = os.MkdirAll(filepath.Join(Out(), "evidence"), 0o755)
		name := c.ID + ".json"
		if sfx := os.Getenv("VERIF_EVIDENCE_SUFFIX"); sfx != "" {
			name = c.ID + "." + sfx + ".part"
		}
		if err := os.WriteFile(filepath.Join(Out(), "evidence", name), b, 0o644); err != nil {
			fmt.Println("HARNESS-ERROR: cannot write evidence:", err)
			os.Exit(2)
		}
	}
	fmt.Printf("%s %s: evaluations=%d distinct_nontrivial=%d classes=%d violations=%d exhaustive=%v wall=%.1fs\n",
		c.ID, c.Tier, c.evals.Load(), nt, len(c.classes), nviol, len(c.capped) == 0, wall)
	for k, v := range c.counters {
		fmt.Printf("  %s=%d\n", k, v)
	}
	os.Exit(exit)
}
