#!/bin/sh
# Toolchain wrapper: /repo needs go 1.25; use the cached toolchain directly, offline.
GO125=/root/go/pkg/mod/golang.org/toolchain@v0.0.1-go1.25.0.linux-amd64/bin/go
if [ ! -x "$GO125" ]; then GO125=$(command -v go1.26.8 || command -v go); fi
export GOTOOLCHAIN=local GOFLAGS=-mod=mod GOPROXY=off GOSUMDB=off
export GOCACHE=${VERIF_GOCACHE:-/verif/.gocache}
exec "$GO125" "$@"
