#!/usr/bin/env python3
"""Generates /verif/MANIFEST.json from the table below (kept valid at all times)."""
import json, os, sys
ROOT = os.path.dirname(os.path.dirname(os.path.abspath(__file__)))

BASE_OFF = ("cd /repo && GOTOOLCHAIN=local GOFLAGS=-mod=mod GOPROXY=off "
            "/root/go/pkg/mod/golang.org/toolchain@v0.0.1-go1.25.0.linux-amd64/bin/go test -vet=off -count=1 -timeout 25m ./...")

# id -> (category, technique, text, note, design_ref)
CHECKS = {
 "C01": ("model_checking",
         "exhaustive closure enumeration on the real group code vs. free-module reference model (explicit-state, lock-step)",
         "Every Add/Sub/Neg/Mul/Mul(s,nil) expression of depth <=2-3 over a closure of API-reachable values (identity, base, Pick/Hash/Embed points, decoded and non-normalised forms) and the boundary scalar alphabet S(q) is executed on all 20 group instances and compared, transition by transition, with a Z_q-module model recomputed through an Add-only path; all value pairs are checked for Equal<=>model equality<=>encoding equality. Bounded-exhaustive: complete over the stated alphabets, nothing outside them.",
         "Trusted: math/big, the harness' model, Point.Add as the recomputation primitive (its own defects are cross-checked by C18's independent curve model); generators of unknown discrete log are assumed independent.",
         "DESIGN.md §4 C01"),
 "C02": ("model_checking",
         "explicit-state depth-2 closure of scalar operations on the real implementations vs. math/big, lock-step; exhaustive SetBytes lengths 0..96; two build variants",
         "For each of 17 scalar implementations (Ed25519 limb code, mod.Int at 8 moduli and both byte orders, CIRCL, gnark; and mod.Int over bigmod + Ed25519 conversions in a second binary built with -tags constantTime) every Add/Sub/Mul/Div/Neg/Inv/Set over a boundary alphabet (q-1, 2^k, 2^k+-1 at 21-bit limb and 64-bit word boundaries, ...) is executed and its encoding compared with math/big; every level-1 result object is fed back as an operand (non-canonical internal forms as inputs); Equal<=>residue equality on all pool pairs; SetBytes at every length 0..96 x 12 patterns (incl. q-1,q,q+1,2q-1 encodings); SetInt64 boundaries incl. MinInt64; Pick with recording/rejection-forcing streams (range + determined solely by drawn bytes).",
         "Trusted: math/big; operands enter through UnmarshalBinary of canonical encodings. Values outside the alphabet are not covered.",
         "DESIGN.md §4 C02"),
 "C03": ("model_checking",
         "exhaustive enumeration over the closure of API-reachable representations and a reader-behaviour alphabet on the real encoders/decoders, free-module model for equality",
         "For all 20 groups, every value of the closure R (identity, generators, Pick/Hash/Embed points, sums, negations, multiples, decoded forms - i.e. non-normalised internal coordinates) and every reduced scalar (alphabet, arithmetic results, SetBytes/Pick/SetInt64 results) is encoded and decoded into receivers in four prior states, through MarshalBinary/UnmarshalBinary, MarshalTo, UnmarshalFrom under 7 reader behaviours (one-byte, half, data+EOF, trailing, short, empty), and the util/encoding hex helpers; all pairs are checked for Equal <=> identical bytes <=> model equality.",
         "Trusted: the free-module model (C01) for point equality, testing/iotest readers. Only values in the closure are covered.",
         "DESIGN.md §4 C03"),
 "C05": ("model_checking",
         "stateless exploration of all operation sequences to depth 2 over a variable pool with every aliasing pattern, on the real objects, no state merging; reference = same step on fresh unaliased copies",
         "For all 20 groups, every program of depth <= 2 over ~175 operations (Add/Sub with all 27 receiver/operand aliasings, Neg, Set, Clone, Mul(s,p|nil), Null, Base, Pick, Embed; scalar Add/Sub/Mul/Div with all 8 aliasings, Neg, Inv, Set, Clone, Zero, One, SetInt64, SetBytes, Pick) on a pool of 3 points (one non-normalised) and 2 scalars is replayed from a fresh pool; after every step the encodings of ALL variables are compared with the reference and the returned value with the receiver. Expensive groups explore the second step only after first steps that write variable 0 (quick tier; stated in evidence).",
         "Trusted: decode(encode(.)) yields an independent copy; hidden sharing that changes no encoding within depth 2 is invisible.",
         "DESIGN.md §4 C05"),
 "C06": ("model_checking",
         "exhaustive enumeration of G1xG2 value pairs / quadruples on the real pairing code vs. a bilinear-form model recomputed with GT.Add only",
         "For the five pairing suites: every pair of the G1 and G2 value sets (identity, generators, hashed/picked points, affine decoded forms, projective sums, negations, clones, boundary multiples) is paired twice and compared with the model form; e(aP,bQ)=(ab)e(P,Q) and additivity in both arguments over the scalar core {0,1,2,q-1,r1,r2}; non-degeneracy; ValidatePairing on all 6^4 quadruples of reduced sets against the model verdict, repeated and cross-checked with Pair on the same objects.",
         "Trusted: independence of hashed generators, GT.Add as recomputation primitive (C01).",
         "DESIGN.md §4 C06"),
 "C07": ("model_checking",
         "exhaustive subset x arrangement enumeration of share slices on the real recovery code vs. a math/big polynomial model",
         "For every (t,n), 1<=t<=n<=5 (Ed25519; 3-4 for P-256, bn256.G1, kilic.G2; thorough up to 7), secrets {0,1,q-1,r}, bases {nil, explicit, independent}: every subset of the shares in every order (all permutations up to 4 shares), with nil gaps, surplus and repeated shares, goes through RecoverSecret/RecoverCommit/RecoverPriPoly/RecoverPubPoly (each twice, identical bytes, inputs unchanged): dealer's values iff >= t distinct shares, else an error. Eval vs model, PubPoly.Eval = Commit(PriPoly.Eval), Check over a share alphabet, Add/Mul homomorphisms.",
         "Trusted: math/big; map-iteration order inside Recover* is not controllable (results compared across two executions).",
         "DESIGN.md §4 C07"),
 "C04": ("model_checking",
         "exhaustive enumeration of a hostile-input alphabet (lengths, every bit flip of valid encodings, coordinate splices, flag bytes, model-built off-curve / wrong-subgroup / small-order points) against the real decoders, with independent math/big membership predicates and a follow-up operation program",
         "For the 20 group instances plus a cofactor-84 residue group built through the public SetParams: every input of the alphabet is decoded; a panic is a violation; an accepted value must satisfy the independent membership predicate of the set the group promises (curve equations over Fp / Fp2, x^q=1, (q-1)P+P=O for BLS12-381), survive a follow-up program (encode, Add, Sub, Mul, Neg, Equal, String, Clone, Data) and round-trip. Scalars: range-checking decoders must reject q, q+1, 2q-1, ...; later arithmetic must not panic. 40 composite entry points (Schnorr x6, EdDSA x3, BLS x8, CoSi, proof.HashVerify x3, ECIES x2, anon Decrypt/Verify x6, VSS Deal.Unmarshal x2): every truncation, bit flips, constant blocks, byte overwrites of an honest message -> never a panic.",
         "Trusted: curve parameters transcribed into /verif (self-tested on the base points), math/big. BLS subgroup membership is decided through the API.",
         "DESIGN.md §4 C04"),
 "C08": ("model_checking",
         "exhaustive enumeration of keys x message lengths x single-bit / structured mutations on the real sign/verify code, semantic-difference oracle from the group decoders, differential oracle against crypto/ed25519",
         "Schnorr over the 17 group instances with an implicit generator (keys {1,q-1,r1,r2} x 8 message lengths incl. 0 and 4096): honest verifies; every single-bit flip of signature and key (all bits for one key/two lengths, one bit per byte elsewhere) and of messages <= 65 bytes, +-1 byte, other key -> rejected unless the encoding decodes to the same (R,S,key). Ed25519: S+k*l for every k below 2^256; all 14x14 pairs of small-order / non-canonical encodings as (A,R) with S in {0,1} x 24 messages, and spliced into a valid signature. EdDSA vs crypto/ed25519 on 64 seeds x 12 lengths: identical key and signature bytes, deterministic, key reload on a used object, kyber accepts => stdlib accepts. Ring signatures on Ed25519, P-256, bn256.G1: ring sizes 1..5 x every signer x scopes {nil, empty, a, b} x 2 messages, tag relations, every component replaced / bit-flipped / truncated, other message / ring member / scope.",
         "Trusted: crypto/ed25519 as RFC 8032 reference; chance acceptance of a mutated signature (2^-250) ignored.",
         "DESIGN.md §4 C08"),
 "C09": ("model_checking",
         "exhaustive enumeration of partial-signature lists (subsets x orders x injected faults at every position), of participation masks x construction routes, and of mask operation sequences, on the real BLS/TBLS/BDN/CoSi code",
         "BLS on the 8 supported (suite, signature group) combinations: keys {1,r1,r2} x 3 message lengths; forged variants (sigma+B, -sigma, 2 sigma, identity, other key/message, one bit per byte). Threshold BLS: all (t,n) up to n=3 (4 for two combinations; thorough 4-5): every subset with >= t-1 valid partials, every order (n<=3), one injected item from an 8-element fault menu at every position: Recover == bls.Sign(group secret) iff >= t distinct valid partials, else error. BDN: all non-empty masks over n<=3 (4 on bn256) signers through 6+|mask| construction routes (SetBit, own-key constructor, SetMask, Merge, aggregate-then-Merge, Clone-then-edit): route-independent aggregate key, verifies under it and under no other mask or message. CoSi: all masks over n<=4 x all threshold policies + Complete, every bit of V|r|mask flipped, length variants; all 14^3 mask-edit sequences keep AggregatePublic = sum of enabled keys.",
         "Trusted: seeded keys; chance acceptance ignored. Larger n and t are not covered.",
         "DESIGN.md §4 C09"),
 "C10": ("model_checking",
         "explicit-state BFS over event histories on the real Verifier/Dealer/Aggregator objects (successor = replay on a fresh instance), lock-step reference model, state merging on model state + public observables",
         "Pedersen and Rabin VSS, n=3 (thorough: 3 and 4), every valid t, observers verifier 0 (thorough: also n-1) and the dealer: all histories up to depth n+2 (thorough n+4) over ~30 events: 13 deal variants produced by editing the dealer's plaintext deal and encrypting through the real DH/HKDF/AES-GCM/Schnorr path (share+1, wrong index, replaced commitment, T in {0,1,n+1}, replaced SessionID, absent share value, wrong recipient, forged dealer, flipped signature, replayed session), authentic approvals/complaints of real verifiers, bad-signature / other-session / out-of-range / forged-own responses, correct and incorrect justifications (also for the observer's own complaint), timeout. Oracle after every transition: S2 (approval only of consistent deals, honest deal approved), S3 (certified => >= t distinct approved-or-justified, no processed invalid justification, valid threshold), liveness (all approved/justified => certified), Deal()!=nil => certified. S1 on honest runs n=3..5, all t: everyone approves, certified everywhere, every t-subset of Deal()s reconstructs the dealer's secret; published commitment = secret*G.",
         "Trusted: the reference model (written from the statement), seeded message generation through the real code. Merged states may hide implementation state not exposed by the API.",
         "DESIGN.md §4 C10"),
 "C19": ("model_checking",
         "stateless exploration of all XOF operation sequences to depth 3-4 on up to two live objects against a single-shot reference; exhaustive enumeration of moduli, bit lengths and first-draw byte strings for random.Int/Bits; all reader-set compositions for randstream",
         "blake2xb, blake2xs, keccak: every sequence of depth <= 3 (depth 4 on a reduced size alphabet; thorough: 4 on the full one) over Write/Read/XORKeyStream/Reseed/Clone/Reset with chunk sizes {0,1,64,65,128,129,137,600} and 8 seed lengths (every seed length 0..300 at depth 1); every output and a final probe of every live object compared with fresh New(seed)+absorb+one Read; Reseed modelled as a fresh XOF keyed by the next 128 bytes, Reset as the seeded initial state. random.Bits for every bit length 0..1030; random.Int for every modulus 1..1024 and boundary moduli of every bit length 1..521 under streams incl. modulus-valued prefixes (range, determined by drawn bytes); for 18 moduli <= 65535 ALL first-draw byte strings enumerated: outputs exactly uniform. randstream: all 39 reader sets over {good, short, failing} up to size 3.",
         "Trusted: the XOF implementation used single-shot as its own reference (the property is about chunking/cloning/reseeding/reset).",
         "DESIGN.md §4 C19"),
 "C16": ("model_checking",
         "exhaustive enumeration of message lengths x patterns x keys/identities/recipient indices x ciphertext mutations (bit flips, truncations, component replacement) on the real encrypt/decrypt code",
         "ECIES on 5 groups, IBE-CCA on both assignments and IBE-CPA on every suite with the needed hash-to-group, anonymous-set encryption on 3 suites with set sizes 1..4 and every recipient index: every message length 0..80 and {127,128,129,255,256,4095,4096} (IBE: 0..2*hash size+2): decrypt = plaintext or refusal at encryption; wrong key/identity/index => error (authenticated schemes; the empty IBE message is exempt, see DESIGN); one bit per byte flipped and every truncation => error, never a panic; no aligned 16-byte plaintext window in the ciphertext body; the caller's message buffer (with spare capacity) is left intact by Encrypt.",
         "Trusted: kyber draws encryption randomness from crypto/rand itself, so only verdicts/plaintexts are compared.",
         "DESIGN.md §4 C16"),
 "C17": ("model_checking",
         "exhaustive enumeration of streams (incl. retry-forcing prefixes), data lengths x patterns, crafted length fields and messages/tags on the real Pick/Embed/Data/Hash code with independent membership predicates; RFC 9380 vectors",
         "Pick on all groups offering it (13 non-constant streams, all-zero / all-0xff prefixes of 1,3,7 point lengths): independent membership + (q-1)P+P=O, same stream => same point whatever the receiver held. Embed on the 8 groups offering it (incl. a cofactor-84 residue group): every data length 0..EmbedLen+8 x 3 patterns + nil/empty: member, Data() = data truncated to EmbedLen also after decode(encode) and Clone, deterministic. Data() on crafted members with length field in {0,1,EmbedLen-1,EmbedLen,EmbedLen+1,EmbedLen+2,200,255,(256,300,65535)}: error iff out of range, else the stored bytes. Hash-to-group on the 8 hashable groups: 6 message lengths, determinism, pairwise distinct, bit-flip distinct, 3 custom domain-separation tags; RFC 9380 vectors for edwards25519 ELL2 and BLS12-381 G1 (5) / G2 (3) on kilic, circl and gnark.",
         "Trusted: curve parameters and RFC vectors transcribed into /verif; constant streams excluded.",
         "DESIGN.md §4 C17"),
 "C13": ("model_checking",
         "exhaustive enumeration of (n,t,secret,H) x trustees x single-field mutations / swaps and of all subsets of decrypted shares on the real PVSS/DLEQ code",
         "PVSS on Ed25519 and P-256, n=2..4 (thorough ..6), all t, secrets {0,1,r}, two second bases: honest shares verify singly and in batch, every subset of decrypted shares in two orders recovers secret*G iff >= t; 16 mutations of every trustee's encrypted share / key / evaluation point (value+1, another trustee's, identity, swaps, another sharing's challenge or share), every commitment coefficient, 11 mutations of every decrypted share incl. republishing under another index: rejected singly, absent from batch output, caller's slices intact, or recovery still exact. DLEQ: 13 alterations incl. sum-preserving ones (xG<->xH, VG<->VH, G<->H, +D/-D) and cross-statement use of batch proofs.",
         "Trusted: seeded dealer randomness; the global challenge is read from the honest dealer's shares.",
         "DESIGN.md §4 C13"),
 "C12": ("model_checking",
         "explicit-state BFS over partial-signature event histories on the real DSS object (successor = replay on a fresh instance), lock-step accepted-set model, math/big reference signature",
         "n=3,4 (thorough ..5), every t, at every participant, keys from seeded polynomials and from all-honest runs of the Pedersen (regular, fast-sync) and Rabin DKG implementations: all histories up to depth n+2 over {own PartialSig, valid partial of each other signer, value+1 re-signed, signature bit-flipped, own partial echoed back, partial of another session / another message / with replaced session id / with index n, n+1, 2^32-1 and the receiver's own index}. After every transition: accepted <=> first valid partial of this session; EnoughPartialSig <=> |accepted| >= t; Signature() fails below t and otherwise equals R || (k + H(R,A,m)x) computed independently, verifying under dss.Verify, eddsa.Verify and crypto/ed25519.Verify, identical across states, orders and participants.",
         "Trusted: seeded randomness; merged states assume the accepted set determines the future.",
         "DESIGN.md §4 C12"),
 "C14": ("model_checking",
         "exhaustive enumeration of predicate trees of a bounded grammar x variable-sharing patterns x proven branch x truth patterns x falsifications and transcript mutations on the real prover/verifier; lock-step clique harness for the deniable protocol",
         "1,900+ predicate trees (Rep with 1-2 terms, And of up to 2, Or of up to 3 branches of Rep/And; every sharing pattern of 3 scalar names and of 3 base points up to renaming) on Ed25519 (all), P-256 and bn256.G1 (subsets): every Or-branch proven with the others true/false/alternating: HashProve+HashVerify accept, also for a re-run Prover value; each secret of the proven branch falsified -> no accepted proof; truncation around every element boundary, bit flips across the transcript, another protocol name, each public point replaced, other sharing patterns whose proven branch is not satisfiable by the honest values -> rejected. Deniable prover on cliques of 1-3 participants (everybody verifies everybody, also itself) in lock step: all honest proofs accepted everywhere; a participant with a falsified secret is reported by every verifier.",
         "Trusted: seeded secrets/bases; soundness only against the enumerated alterations, not against all prover strategies.",
         "DESIGN.md §4 C14"),
 "C15": ("model_checking",
         "exhaustive enumeration of permutations x input variants x output/proof/parameter alterations on the real shuffle provers and verifiers, exact permutation-of-re-encryptions oracle from known discrete logs, plus a forging prover strategy",
         "Pair shuffle on Ed25519 and P-256: every permutation for k=2..4 (thorough 5; 8 and 12 with fixed permutations) x 3 input variants (random, small, duplicate ciphertexts): honest proof verifies; per slot: X/Y replaced, duplicated, scaled, summed with its neighbour, swapped, input replaced; output extended/shortened; G/H replaced; proof of another instance; proof bytes flipped / truncated: accepted only if the model says the output is a re-encryption permutation and nothing else changed. Forging strategy F1 builds a fresh transcript for M in {I+E01, I+E10, diag(2,1..)}: must be rejected. Simple shuffle: every permutation, y entries replaced/duplicated/unscaled. Biffle: 8 streams (both bits), slot replacement/duplication, proof alterations. Sequence shuffle NQ=1..3: all permutations reachable through seeded streams (k<=3), slot replacement/duplication per sequence.",
         "Trusted: soundness only against the enumerated alterations and the F1 strategy; the forger mirrors the package's transcript layout.",
         "DESIGN.md §4 C15"),
 "C18": ("model_checking",
         "lock-step execution of all straight-line programs of depth <= 2 over a product of implementations of the same group, compared value by value with each other and with an affine math/big curve model; transcript comparison across binaries built with different tags",
         "Ed25519 constant-time, Ed25519+AllowVarTime and edwards25519vartime pairwise and against an affine twisted-Edwards model; P-256, bn256.G1, bn254.G1 against an affine Weierstrass model; kilic = circl = gnark on G1, G2, GT, scalar arithmetic, hash-to-curve outputs, 36 pairings e(aB1,bB2) and 24 BLS signatures on both groups; Ed25519 base multiplication vs crypto/ed25519 key derivation (24 seeds). ~1,700 expressions per group: seeds {O,B,s*B,Mul(s,nil),Hash(m),decoded forms}, all Add/Sub/Neg/Mul over them, results fed back once, accumulator (in-place) forms. Build variants: one transcript program (~29k lines: all groups, pairings, hashes, signatures, SetBytes at odd lengths, Pick) produced by the binaries built with no tag, -tags generic and -tags constantTime and compared on their common lines (28.9k / 5.9k).",
         "Trusted: math/big models with transcribed parameters and conventional base points; only values computed from reduced scalars and messages are compared; arm64 assembly absent.",
         "DESIGN.md §4 C18"),
 "C20": ("model_checking",
         "exhaustive enumeration of two-thread fork-join programs m1(O) || m2(O) over shared objects x unordered pairs of read-only methods, each decided by one run under the race detector in a binary built with pure-Go arithmetic (happens-before is schedule-independent for fork-join programs); results compared with sequential runs",
         "7,300 programs: for each of the 20 groups a non-normalised sum, a decoded point, a product and a scalar, plus suites and their random streams (crypto/rand and Go-code readers), public and secret polynomials, Schnorr keys on 7 groups, EdDSA and BLS public keys on all 5 pairing suites, sigma-protocol predicates with public points and proofs, DLEQ proofs, ring-signature sets, a threshold-BLS public polynomial, ECIES key pairs, pairing suites as factories, a BDN and a CoSi mask; every unordered pair (incl. m,m) of 13-17 read-only methods (encode, print, compare on either side, clone, Data, operand of Add/Sub/Neg/Mul/Set into a private receiver, Pair/ValidatePairing, Verify, Eval/Check/Commit, stream draws, mask accessors). The binary is built with -race -tags generic,purego so that the field arithmetic of kilic, gnark, bn256/bn254 and bigmod is instrumented Go instead of assembly.",
         "Trusted: Go's race detector (limits: shadow-cell eviction, control flow depending on a racy read). Interleaving-dependent wrong results without a conflicting access pair are impossible; interleavings themselves are not enumerated in this tier.",
         "DESIGN.md §4 C20"),
 "C11": ("model_checking",
         "exhaustive enumeration of (configuration x single-party fault behaviour x delivery order of one phase at one honest node) on the real DistKeyGenerator objects (Pedersen: fresh, fast-sync, five resharing shapes; Rabin: per-message API); controlled-scheduler exploration (stateless DFS with sleep sets, deviation-bounded) of the real goroutine-driven Protocol type through harness-owned Board and Phaser; end-state oracle on the honest outputs",
         "Pedersen n=3 (thorough 3,4), all t in [n/2+1,n]: 19 behaviours of one deviating party (absent per phase, invalid share to each victim then justified / unjustified / wrongly justified, wrong holder, out-of-range share index, commitments of length t+-1, wrong session id per phase, duplicate and conflicting bundles, false complaint against each dealer, success response in regular mode, unknown dealer, out-of-range justification, wrong constant term when resharing); bundles mutated, re-signed and filtered by VerifyPacketSignature as the Protocol driver does; for every honest node and phase EVERY permutation of the bundle slice: same emitted bundle and same final output. Rabin n=3: absent, invalid share (justified / unjustified), false complaint against each dealer, secret commitments wrong for all / for one participant with and without (bogus) reconstruction shares; every order (<= 3 messages; reversal/rotation above) of each of the 5 broadcast waves at each honest node. Protocol type (n=3 real dkg.Protocol goroutines, harness decides every delivery and phase tick): all schedules in regular mode without faults (1,224 traces), all schedules within <=2 (thorough 3) deviations from synchronous rounds otherwise, 6 deviating-party behaviours incl. equivocation, one repeated delivery. Oracle: identical commitments and QUAL, shares on the polynomial, every t-subset reconstructs the key, key = sum of QUAL contributions (resharing: unchanged), disqualification rules, all-honest => all complete, every Protocol delivers a result or error.",
         "Trusted: seeded randomness; one deviating party; map iteration order inside the Protocol's packet sets is not controlled (the handler-level exploration enumerates the resulting orders). Four open known findings (Rabin: unjustified dealer stays in QUAL; Rabin: unchecked reconstruction shares; Pedersen fast-sync: equivocating deal / response bundles split the honest nodes).",
         "DESIGN.md §4 C11"),
}


# later extensions of the enumerated space, appended to the level text
EXTRA = {
 "C11": " A deviating leaver in resharing, unknown response status codes, the oracle 'an honest receiver of an invalid share complains about exactly that dealer', Rabin output asked twice.",
 "C12": " n = 5, 7 over a reduced event menu; Signature() polled mid-history and the returned slice edited; long-term and one-time keys of different thresholds.",
 "C06": " Operand objects updated in place between two Pair calls; additivity over all pairs of the value sets and over six internal forms of one element; the mid-size scalar alphabet per argument.",
 "C01": " The registry also contains the exported ExtendedCurve implementation of edwards25519vartime (21 instances). Scalars k*lambda+d around the cube roots of unity mod q (endomorphism split) and the named scalars 0,1,2,q-1 made by the setters on reused scalar objects.",
 "C02": " Receiver-aliased forms r.Op(r,b), r.Op(a,r), r.Op(r,r); values made by every constructor (fresh, Zero, One, SetInt64, short SetBytes, Pick, Clone) as operands and in Equal, both directions. mod.Int operations into targets of no or another modulus, the target then used as receiver and first operand.",
 "C03": " Scalars include Pick results under streams that start with the encodings of q-1, q, q+1. Weierstrass points with tiny x built from the curve equation (leading zero bytes); kilic groups with a caller's tag (Equal <=> identical bytes over originals, clones, decoded copies); Ed448-Goldilocks as a caller-supplied parameter set (odd-length encodings).",
 "C04": " Further composite entry points: Pedersen / Rabin Verifier.ProcessEncryptedDeal with each byte field of an encrypted deal replaced by hostile bytes, shuffle.Verifier and BiffleVerifier on hostile proofs, the hexadecimal readers (51 entry points).",
 "C05": " After every program a latent-sharing probe writes every variable in place once: a variable sharing storage with another one receives two increments. A second pool (identity operand, scalar zeroed in place); the probe negates every variable in place first and then adds a different increment to each.",
 "C07": " Large n in {8,12,16,21,24,32} (thorough to 64) with a menu of subset shapes; the sum of two commitment polynomials keeps its base. One secret polynomial committed to every sequence of up to 3 bases.",
 "C08": " Negated R / S / key; every small-order key with an ordinary R=k*B, S=k over 64 messages. Ring sizes to 8 on Ed25519; signing objects over several calls (schnorr Scheme with in-place key updates, one EdDSA object): every signature handed out is kept and judged at the end.",
 "C09": " BLS over a family of 400 messages per combination; CoSi aggregation functions return the sum, leave their inputs intact and are repeatable. Threshold BLS with 6 and 8 signers, BDN masks over 9 and 10 signers; a cancelling-pair forger for Recover; BDN aggregation repeated on one mask object and after a clone aggregated; unused CoSi mask bits against the policy.",
 "C10": " Additional event: the approval of an equivocated deal (another polynomial whose SessionID field claims this session). A refused deal carrying another valid threshold; justifications revealing a share at an out-of-range index, another verifier's share, a share of a foreign polynomial (the last two: genuine defects, fixed).",
 "C13": " Equation-consistent two-field forgeries (share value altered, proof commitments recomputed from the verification equations); batch verification and recovery leave the caller's slices intact. Trustee lists of 7 and 10 on a reduced menu; repeated shares in recovery lists; the batch verifier with an altered polynomial next to the original evaluations; H equal to a trustee's key; DLEQ with equal bases.",
 "C14": " 300-character protocol names differing in one character; prover randomness is a fixed tape per case. Nested conjunctions, one predicate object across groups, verify-only clique members, a Rep value shared by Or branches (open known finding).",
 "C15": " Pair shuffle also with a generator other than the base point; biffle forging prover (each of the 8 relations violated, same-shape transcript); sequence shuffle offered an output with one column dropped and honestly proven. Strategy F2 (honest proof vs an output adjusted along the kernel of Zsigma: open known finding), F3/F4 (embedded simple shuffle bound to one half of the link), parameter spellings nil vs base point, sequence-shuffle challenge vectors with ones.",
 "C16": " Every bit of format and boundary bytes, cancelling double flips in the tag; ciphertexts produced once per case. IBE-CCA wrong-identity clause judged for the empty message (open known finding) and from 8 bytes on. ECIES hash options on every group, CPA bodies extended in transit, anonymous-set messages beyond 64 KiB and sets of 6, the keyless tag forgery against anonymous-set encryption (open known finding).",
 "C17": " Families of 2,000 Pick streams and 3,000 hashed messages per group; Embed under all-ones / all-zero stream prefixes. Embed on the quadratic residues of the 3072-bit RFC 3526 prime (data beyond 255 bytes); UnmarshalFrom(stream) = Pick(stream).",
 "C18": " In-place Sub/Neg forms; the transcript also carries Pick/hash families, Pick under 0xff-prefixed streams and the decoding of v+p coordinate encodings. Clamped unreduced Ed25519 key scalars as multipliers; Pick under small-order candidates on the three Ed25519 implementations; custom-tag hashing through clones (kilic = circl = gnark); mod.Int BigEndian/LittleEndian widths in the transcript and against math/big (a genuine defect, fixed).",
 "C19": " Depth-2 exploration from six non-initial states reached by prefixes of 8-27 steps; for every seed length 1..300 changing one byte of the seed or of the absorbed data changes the output. Reader sets over six delivery behaviours (trickling, data-with-EOF); a pool reader refilled between calls.",
 "C20": " Also: a scalar decoded from an unreduced encoding, the first use of a freshly constructed suite of every family, suites with caller-supplied domain-separation tags. A complete BDN mask, aggregated directly and through clones taken by each thread.",
}

NOT_YET = "check not built yet in this round (planned: see DESIGN.md §4)"

def main():
    props = [json.loads(l) for l in open(os.path.join(ROOT, "properties.jsonl"))]
    checks, na = [], []
    for p in props:
        i = p["id"]
        if i in CHECKS:
            cat, tech, text, note, ref = CHECKS[i]
            checks.append({
                "property_id": i,
                "quick_cmd": f"./vf check {i} quick",
                "thorough_cmd": f"./vf check {i} thorough",
                "evidence_file": f"/verif/evidence/{i}.json",
                "replay_cmd_template": "./vf replay {path}",
                "engine": "vfcheck",
                "level_claimed": {"category": cat, "text": text + EXTRA.get(i, ""), "design_ref": ref},
                "level_note": note,
                "technique": tech,
            })
        else:
            na.append({"property_id": i, "reason": NOT_YET})
    m = {
        "version": 1,
        "setup_cmd": "./vf setup",
        "hooks": {
            "guard": "verif",
            "enable": "go build -tags verif (reserved: no file in /repo uses the tag; no hooks were needed, every check drives exported API only)",
            "baseline_off_cmd": BASE_OFF,
            "source_commits": [],
            "add_only": True,
        },
        "engines": [
            {"name": "vfcheck", "path": "/verif/harness", "serves_properties": sorted(CHECKS),
             "kind_free_text": "hand-written bounded-exhaustive explorers in Go driving the real kyber code: alphabet-product enumeration (E), explicit-state/sequence exploration with lock-step reference models (S), exhaustive enumeration of two-thread fork-join programs each decided under the race detector (R)"},
        ],
        "checks": checks,
        "not_applicable": na,
        "notes": "All checks rebuild the harness against /repo's working tree through a replace directive. Known findings: /verif/known_findings.json.",
    }
    json.dump(m, open(os.path.join(ROOT, "MANIFEST.json"), "w"), indent=1)
    try:
        import jsonschema
        jsonschema.validate(m, json.load(open("/root/.vp/MANIFEST.schema.json")))
        print("MANIFEST.json valid;", len(checks), "checks,", len(na), "not_applicable")
    except ImportError:
        print("jsonschema not importable; not validated")

if __name__ == "__main__":
    main()
