#!/usr/bin/env python3
"""Generates /verif/MANIFEST.json from the table below (kept valid at all times)."""
import json, os, sys
ROOT = os.path.dirname(os.path.dirname(os.path.abspath(__file__)))

BASE_OFF = ("cd /repo && GOTOOLCHAIN=local GOFLAGS=-mod=mod GOPROXY=off "
            "/root/go/pkg/mod/golang.org/toolchain@v0.0.1-go1.25.0.linux-amd64/bin/go test -vet=off -count=1 -timeout 25m ./...")

# id -> (category, technique, text, note, design_ref)
CHECKS = {
 "C01": ("model_checking",
         "exhaustive closure enumeration on the real group code vs. free-module reference model (explicit-state, lock-step)",
         "Every Add/Sub/Neg/Mul/Mul(s,nil) expression of depth <=2-3 over a closure of API-reachable values (identity, base, Pick/Hash/Embed points, decoded and non-normalised forms) and the boundary scalar alphabet S(q) is executed on all 20 group instances and compared, transition by transition, with a Z_q-module model recomputed through an Add-only path; all value pairs are checked for Equal<=>model equality<=>encoding equality. Bounded-exhaustive: complete over the stated alphabets, nothing outside them.",
         "Trusted: math/big, the harness' model, Point.Add as the recomputation primitive (its own defects are cross-checked by C18's independent curve model); generators of unknown discrete log are assumed independent.",
         "DESIGN.md §4 C01"),
}

NOT_YET = "check not built yet in this round (planned: see DESIGN.md §4)"

def main():
    props = [json.loads(l) for l in open(os.path.join(ROOT, "properties.jsonl"))]
    checks, na = [], []
    for p in props:
        i = p["id"]
        if i in CHECKS:
            cat, tech, text, note, ref = CHECKS[i]
            checks.append({
                "property_id": i,
                "quick_cmd": f"./vf check {i} quick",
                "thorough_cmd": f"./vf check {i} thorough",
                "evidence_file": f"/verif/evidence/{i}.json",
                "replay_cmd_template": "./vf replay {path}",
                "engine": "vfcheck",
                "level_claimed": {"category": cat, "text": text, "design_ref": ref},
                "level_note": note,
                "technique": tech,
            })
        else:
            na.append({"property_id": i, "reason": NOT_YET})
    m = {
        "version": 1,
        "setup_cmd": "./vf setup",
        "hooks": {
            "guard": "verif",
            "enable": "go build -tags verif (reserved: no file in /repo uses the tag; all instrumentation is generated at check time through go build -overlay, outside /repo)",
            "baseline_off_cmd": BASE_OFF,
            "source_commits": [],
            "add_only": True,
        },
        "engines": [
            {"name": "vfcheck", "path": "/verif/harness", "serves_properties": sorted(CHECKS),
             "kind_free_text": "hand-written bounded-exhaustive explorers in Go driving the real kyber code: alphabet-product enumeration (E), explicit-state/sequence exploration with lock-step reference models (S), controlled-scheduler interleaving exploration (P)"},
        ],
        "checks": checks,
        "not_applicable": na,
        "notes": "All checks rebuild the harness against /repo's working tree through a replace directive. Known findings: /verif/known_findings.json.",
    }
    json.dump(m, open(os.path.join(ROOT, "MANIFEST.json"), "w"), indent=1)
    try:
        import jsonschema
        jsonschema.validate(m, json.load(open("/root/.vp/MANIFEST.schema.json")))
        print("MANIFEST.json valid;", len(checks), "checks,", len(na), "not_applicable")
    except ImportError:
        print("jsonschema not importable; not validated")

if __name__ == "__main__":
    main()
