#!/usr/bin/env python3
"""merge_evidence.py <id> <suffix>... : merges evidence/<id>.<suffix>.part files
(one per build variant of the same check) into evidence/<id>.json. Counters are
summed, samples concatenated, everything else kept per variant."""
import json, os, sys
root = os.environ.get("VERIF_OUT") or os.environ.get("VERIF_ROOT", "/verif")
pid, sfx = sys.argv[1], sys.argv[2:]
parts = []
for s in sfx:
    p = os.path.join(root, "evidence", f"{pid}.{s}.part")
    parts.append((s, json.load(open(p))))
    os.remove(p)
base = parts[0][1]
cov = dict(base["coverage"])
SUM = ["evaluations", "distinct_nontrivial", "states", "transitions", "traces_validated_against_impl", "programs", "disagreements_checked"]
for k in SUM:
    vals = [p["coverage"].get(k) for _, p in parts if k in p["coverage"]]
    if vals:
        cov[k] = sum(vals)
cov["samples"] = [x for _, p in parts for x in p["coverage"].get("samples", [])][:60]
cov["exhaustive"] = all(p["coverage"].get("exhaustive", False) for _, p in parts)
cov["variants"] = {s: {k: v for k, v in p["coverage"].items() if k not in ("samples",)} for s, p in parts}
for k in ("outcome_classes", "notes", "violation_list", "caps_hit"):
    cov.pop(k, None)
base["coverage"] = cov
base["wall_s"] = sum(p["wall_s"] for _, p in parts)
base["violations"] = sum(p.get("violations", 0) for _, p in parts)
base["assumptions"] = sorted({a for _, p in parts for a in p.get("assumptions", [])})
json.dump(base, open(os.path.join(root, "evidence", f"{pid}.json"), "w"), indent=1)
