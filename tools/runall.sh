#!/bin/bash
# runall.sh <tier> [seed] [outdir] : every check of MANIFEST.json in turn, one summary line each.
# With no outdir the evidence files under /verif/evidence are rewritten (what gets committed).
tier=${1:-quick}; seed=${2:-0}; out=${3:-}
cd "$(dirname "$0")/.."
sum=${out:-/tmp}/runall-$tier-$seed.txt
[ -n "$out" ] && mkdir -p "$out"
: > "$sum"
for id in $(jq -r '.checks[].property_id' MANIFEST.json); do
  s=$(date +%s)
  if [ -n "$out" ]; then
    VERIF_SEED=$seed VERIF_OUT=$out ./vf check $id $tier > "$out/$id.log" 2>&1; rc=$?
    v=$(grep -c '^VIOLATION' "$out/$id.log"); k=$(grep -c '^KNOWN-FINDING' "$out/$id.log")
  else
    VERIF_SEED=$seed ./vf check $id $tier > /tmp/runall-$id.log 2>&1; rc=$?
    v=$(grep -c '^VIOLATION' /tmp/runall-$id.log); k=$(grep -c '^KNOWN-FINDING' /tmp/runall-$id.log)
  fi
  echo "$id rc=$rc wall=$(( $(date +%s) - s ))s violations=$v known=$k" | tee -a "$sum"
done
echo done >> "$sum"
