#!/usr/bin/env python3
"""seedtest.py confirm|detect|import <seed_dir> [check ids...]
 confirm: in a scratch worktree of /repo HEAD: demo passes without the patch, patch applies,
          library builds, full suite passes, demo fails with the patch.
 detect : apply the patch in a scratch worktree and run ./vf check <id> quick against it
          (VERIF_REPO), reporting whether a VIOLATION is raised.
 import : copy into /verif/seeded/<id>/<name>/ with the confirmation record.
Scratch worktrees live under /tmp and are removed at the end."""
import json, os, re, shutil, subprocess, sys, tempfile, time

GO = "/root/go/pkg/mod/golang.org/toolchain@v0.0.1-go1.25.0.linux-amd64/bin/go"
ENV = dict(os.environ, GOTOOLCHAIN="local", GOFLAGS="-mod=mod", GOPROXY="off", GOCACHE="/tmp/gocache-agents")

def sh(cmd, cwd=None, timeout=3000, env=ENV):
    p = subprocess.run(cmd, shell=True, cwd=cwd, env=env, stdout=subprocess.PIPE, stderr=subprocess.STDOUT, text=True, timeout=timeout)
    return p.returncode, p.stdout

def worktree():
    d = tempfile.mkdtemp(prefix="seedwt-", dir="/tmp")
    os.rmdir(d)
    rc, out = sh(f"git -C /repo worktree add -q --detach {d} HEAD")
    assert rc == 0, out
    return d

def rm_worktree(d):
    sh(f"git -C /repo worktree remove --force {d}")
    shutil.rmtree(d, ignore_errors=True)

def demo_plan(seed):
    meta = json.load(open(os.path.join(seed, "meta.json")))
    cmds = " ; ".join(meta.get("commands", []))
    copies = re.findall(r"cp\s+\S*_seeded/\d+/(\S+)\s+(\S+)", cmds)
    tests = re.findall(r"test\s+([^#;&|]*-run\s+\S+[^#;&|]*)", cmds)
    if not copies:
        # look into the demo header
        for f in os.listdir(seed):
            if f.endswith(".go"):
                head = open(os.path.join(seed, f)).read(3000)
                m = re.search(r"(?:copy|place)[^\n]*?\s(\S+_test\.go)", head, re.I)
                if m:
                    copies.append((f, m.group(1)))
                m2 = re.search(r"test\s+([^\n#]*-run\s+\S+[^\n#]*)", head)
                if m2 and not tests:
                    tests.append(m2.group(1))
    return meta, copies, tests

def run_demo(wt, seed, copies, tests):
    placed = []
    for src, dst in copies:
        dst = dst.rstrip(";")
        shutil.copy(os.path.join(seed, src), os.path.join(wt, dst))
        placed.append(os.path.join(wt, dst))
    outs, rc_all = [], 0
    for t in tests[-1:]:
        rc, out = sh(f"{GO} test {t.strip()}", cwd=wt)
        outs.append(out[-1500:])
        rc_all |= rc
    for p in placed:
        os.remove(p)
    return rc_all, "\n".join(outs)

def confirm(seed):
    meta, copies, tests = demo_plan(seed)
    rec = {"seed": seed, "copies": copies, "tests": tests}
    if not copies or not tests:
        rec["error"] = "cannot parse demo placement"
        return rec
    wt = worktree()
    try:
        rc, out = run_demo(wt, seed, copies, tests)
        rec["demo_without_patch_passes"] = rc == 0
        rc, out = sh(f"git apply {os.path.join(seed, 'patch.diff')}", cwd=wt)
        rec["patch_applies"] = rc == 0
        if rc != 0:
            rec["apply_out"] = out[-500:]
            return rec
        rc, out = sh(f"{GO} build ./... && {GO} test -vet=off -count=1 ./...", cwd=wt)
        rec["suite_passes_with_patch"] = rc == 0
        if rc != 0:
            rec["suite_out"] = "\n".join(l for l in out.splitlines() if not l.startswith("ok") and "no test files" not in l)[-1500:]
        rc, out = run_demo(wt, seed, copies, tests)
        rec["demo_with_patch_fails"] = rc != 0
        rec["demo_out_tail"] = out[-600:]
    finally:
        rm_worktree(wt)
    rec["confirmed"] = all(rec.get(k) for k in ("demo_without_patch_passes", "patch_applies", "suite_passes_with_patch", "demo_with_patch_fails"))
    return rec

def detect(seed, ids, tier="quick"):
    wt = worktree()
    res = {}
    try:
        rc, out = sh(f"git apply {os.path.join(seed, 'patch.diff')}", cwd=wt)
        if rc != 0:
            return {"error": "patch does not apply: " + out[-300:]}
        outdir = tempfile.mkdtemp(prefix="seedout-", dir="/tmp")
        env = dict(os.environ, VERIF_REPO=wt, VERIF_OUT=outdir)
        for i in ids:
            t0 = time.time()
            rc, out = sh(f"/verif/vf check {i} {tier}", cwd="/verif", env=env, timeout=3600)
            viol = [l for l in out.splitlines() if l.startswith("VIOLATION")]
            keys = [l.strip() for l in out.splitlines() if l.strip().startswith("key=")]
            res[i] = {"exit": rc, "violations": len(viol), "first_keys": keys[:4], "wall_s": round(time.time() - t0, 1)}
            if rc not in (0, 1):
                res[i]["tail"] = out[-800:]
        shutil.rmtree(outdir, ignore_errors=True)
        shutil.rmtree("/verif/.bin/alt-" + __import__("hashlib").md5((wt + "\n").encode()).hexdigest()[:10], ignore_errors=True)
    finally:
        rm_worktree(wt)
    return res

if __name__ == "__main__":
    mode, seed = sys.argv[1], os.path.abspath(sys.argv[2])
    if mode == "confirm":
        print(json.dumps(confirm(seed), indent=1))
    elif mode == "detect":
        meta = json.load(open(os.path.join(seed, "meta.json")))
        ids = sys.argv[3:] or [meta["property"]]
        print(json.dumps(detect(seed, ids), indent=1))
