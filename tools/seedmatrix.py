#!/usr/bin/env python3
"""Runs every seeded change under /verif/seeded against the quick check of its own property
(scratch worktree + VERIF_REPO, /repo untouched) and writes seeded/MATRIX.json."""
import json, os, subprocess, sys, concurrent.futures as cf
ROOT = "/verif"
def one(d):
    meta = json.load(open(os.path.join(d, "meta.json")))
    pid = meta["property"]
    extra = sys.argv[1:] if False else []
    p = subprocess.run(["python3", f"{ROOT}/tools/seedtest.py", "detect", d, pid], capture_output=True, text=True)
    try:
        r = json.loads(p.stdout)
    except Exception:
        r = {"error": p.stdout[-400:] + p.stderr[-400:]}
    return d, pid, r
dirs = []
for pid in sorted(os.listdir(f"{ROOT}/seeded")):
    pd = os.path.join(ROOT, "seeded", pid)
    if not os.path.isdir(pd):
        continue
    for k in sorted(os.listdir(pd)):
        if os.path.exists(os.path.join(pd, k, "patch.diff")):
            dirs.append(os.path.join(pd, k))
out = {}
with cf.ThreadPoolExecutor(max_workers=4) as ex:
    for d, pid, r in ex.map(one, dirs):
        key = os.path.relpath(d, f"{ROOT}/seeded")
        res = r.get(pid, r)
        out[key] = {"check": pid, "detected": res.get("exit") == 1 and res.get("violations", 0) > 0, "exit": res.get("exit"), "first_keys": res.get("first_keys", [])[:2], "wall_s": res.get("wall_s"), "error": r.get("error")}
        print(key, out[key]["detected"], out[key].get("error") or "", flush=True)
json.dump(out, open(f"{ROOT}/seeded/MATRIX.json", "w"), indent=1)
