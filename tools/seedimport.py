#!/usr/bin/env python3
"""seedimport.py <agent worktree> : confirm every _seeded/<k> of a sub-agent's scratch worktree against /repo HEAD
(tools/seedtest.py confirm), import confirmed ones as /verif/seeded/<id>/<next>/ and run the quick check of their
own property against them (tools/seedtest.py detect). Prints one JSON line per seed."""
import json, os, shutil, subprocess, sys
ROOT = "/verif"
wt = sys.argv[1]
head = subprocess.check_output(["git", "-C", "/repo", "log", "--format=%h", "-1"], text=True).strip()
sd = os.path.join(wt, "_seeded")
for k in sorted(os.listdir(sd)):
    src = os.path.join(sd, k)
    if not os.path.exists(os.path.join(src, "patch.diff")):
        continue
    meta = json.load(open(os.path.join(src, "meta.json")))
    pid = meta["property"]
    p = subprocess.run(["python3", f"{ROOT}/tools/seedtest.py", "confirm", src], capture_output=True, text=True)
    try:
        rec = json.loads(p.stdout)
    except Exception:
        rec = {"error": (p.stdout + p.stderr)[-600:]}
    out = {"seed": src, "property": pid, "confirmed": bool(rec.get("confirmed")), "confirm": {k2: v for k2, v in rec.items() if k2 not in ("seed",)}}
    if rec.get("confirmed"):
        base = os.path.join(ROOT, "seeded", pid)
        os.makedirs(base, exist_ok=True)
        nxt = 1
        while os.path.exists(os.path.join(base, str(nxt))):
            nxt += 1
        dst = os.path.join(base, str(nxt))
        shutil.copytree(src, dst)
        meta["confirmed_by_me"] = True
        meta["confirmed_against"] = head
        meta["round"] = int(sys.argv[2]) if len(sys.argv) > 2 else 4
        json.dump(meta, open(os.path.join(dst, "meta.json"), "w"), indent=1)
        out["imported_as"] = dst
        d = subprocess.run(["python3", f"{ROOT}/tools/seedtest.py", "detect", dst, pid], capture_output=True, text=True)
        try:
            out["detect"] = json.loads(d.stdout)
        except Exception:
            out["detect"] = {"error": (d.stdout + d.stderr)[-600:]}
    print(json.dumps(out), flush=True)
